//go:build c17

package main

// C17 — file imports cannot escape the configured root directory.
//
// Implementation side: (a) the real path/filepath.Clean / Join / Rel on exhaustive element
// universes (the three library models of Model/PathClean.v are compared with them), (b) the
// real util.FileImportLocator.Resolve — directly and through `import` statements evaluated by
// the interpreter — on a sandbox directory tree created under os.MkdirTemp with sentinel
// files inside and outside the root directories; observable = which sentinel's content comes
// back, or an error (never the error text).  Besides the cases for the Coq side, a Spec
// oracle that needs no model runs here: content of a file that does not lie below the real
// root directory is reported at once.

import (
	"fmt"
	"os"
	"path/filepath"
	"sort"
	"strings"
	"time"

	"github.com/krotik/ecal/interpreter"
	"github.com/krotik/ecal/scope"
	"github.com/krotik/ecal/util"
)

func init() { register("C17", runC17) }

// c17case is the replayable description of one case.  "$T" in A / B stands for the sandbox
// directory of the run (the process works in $T/w).
type c17case struct {
	Kind string `json:"kind"` // clean | join | rel | resolve | import
	A    string `json:"a"`    // Clean: the path; Join/Rel: first argument; resolve/import: the root
	B    string `json:"b"`    // Join/Rel: second argument; resolve/import: the import path
}

type c17file struct {
	ID   int
	Rel  string // relative to $T
	Path string // absolute
}

type c17state struct {
	c *Ctx
	// tmp is the directory made by os.MkdirTemp; the sandbox tree is $T = tmp/a/b, so that
	// roots like "../.." (two levels above the working directory $T/w) stay inside it
	tmp     string
	T       string
	cwd     string
	files   []c17file
	byText  map[string]int
	elemIdx map[string]int
	elems   []string
	inside  map[string]map[int]bool // root spelling -> ids of the sentinel files below the real directory
}

// sentinel files, relative to $T; the process works in $T/w, the usual root is $T/w/root
var c17tree = []string{
	"out.txt",
	"in.txt",
	"w/out.txt",
	"w/in.txt",
	"w/root/in.txt",
	"w/root/out.txt",
	"w/root/sub/in.txt",
	"w/root/sub/out.txt",
	"w/root/sub/sub/in.txt",
	"w/root/sub/root/in.txt",
	"w/root/root/in.txt",
	"w/root/..x/in.txt",
	"w/root/.../in.txt",
	"w/root/a b/in.txt",
	"w/root/x./in.txt",
	"w/rootx/in.txt",
	"w/rootx/out.txt",
	"w/roo/in.txt",
	"w/sub/in.txt",
	"w/w/root/in.txt",
	"root/in.txt",
	"sub/in.txt",
	// names that extend the name of an existing file or directory inside the root (a locator
	// that tries "<path><suffix>" after a failed read would open them)
	"w/root/in.txt.ecal",
	"w/root/in.txt~",
	"w/root/roo.ecal",
	"w/root/root.ecal",
	"w/root/sub/sub.ecal",
	"w/root/sub/root.ecal",
	"w/rootx.ecal",
	"w/sub.ecal",
}

// siblings of every directory that serves as a root: "<last element of the root><suffix>" next
// to it.  They lie outside that root (and, by their real location, inside the enclosing ones).
var c17rootDirs = []string{"w/root", "w/root/sub", "w", "../b", "../../a", "w/nosuch"}
var c17suffixes = []string{".ecal", ".txt", ".", "~", ".ecal.ecal"}

func init() {
	for _, d := range c17rootDirs {
		for _, suf := range c17suffixes {
			c17tree = append(c17tree, d+suf)
		}
	}
}

func c17content(id int) string { return fmt.Sprintf("id := %d\n", id) }

func (s *c17state) setup() error {
	t, err := os.MkdirTemp("", "c17-")
	if err != nil {
		return err
	}
	if t, err = filepath.EvalSymlinks(t); err != nil {
		return err
	}
	s.tmp = t
	t = filepath.Join(t, "a", "b")
	s.T = t
	s.byText = map[string]int{}
	if len(c17tree) > 62 {
		return fmt.Errorf("c17: more sentinel files than the transport format can name")
	}
	for i, rel := range c17tree {
		p := filepath.Join(t, rel)
		if err := os.MkdirAll(filepath.Dir(p), 0o755); err != nil {
			return err
		}
		if err := os.WriteFile(p, []byte(c17content(i+1)), 0o644); err != nil {
			return err
		}
		s.files = append(s.files, c17file{i + 1, rel, p})
		s.byText[c17content(i+1)] = i + 1
	}
	s.cwd = filepath.Join(t, "w")
	if err := os.Chdir(s.cwd); err != nil {
		return err
	}
	s.elemIdx = map[string]int{}
	s.inside = map[string]map[int]bool{}
	return nil
}

func (s *c17state) teardown() {
	os.Chdir("/")
	if s.tmp != "" {
		os.RemoveAll(s.tmp)
	}
}

func (s *c17state) subst(x string) string { return strings.ReplaceAll(x, "$T", s.T) }

// codes interns the elements of str and returns their indexes in the element table.
func (s *c17state) codes(str string) []int {
	parts := strings.Split(str, "/")
	items := make([]int, len(parts))
	grown := false
	for i, p := range parts {
		k, ok := s.elemIdx[p]
		if !ok {
			k = len(s.elems)
			if k >= 63 {
				panic("c17: element table exceeds the 6-bit code space")
			}
			s.elemIdx[p] = k
			s.elems = append(s.elems, p)
			grown = true
		}
		items[i] = k
	}
	if grown {
		s.header()
	}
	return items
}

// pack renders a case in the transport format of Run/RunC17.v: 6-bit digits (id in four
// digits, kind, obs, then the three counted code lists), ten digits per primitive integer.
func c17pack(id, kind, obs int, a, b, out []int) string {
	if obs == c17other {
		obs = 63
	}
	if id >= 1<<24 || obs > 63 || len(a) > 63 || len(b) > 63 || len(out) > 63 {
		panic("c17: case does not fit the transport format")
	}
	ds := []int{id & 63, (id >> 6) & 63, (id >> 12) & 63, (id >> 18) & 63, kind, obs}
	for _, l := range [][]int{a, b, out} {
		ds = append(ds, len(l))
		ds = append(ds, l...)
	}
	var words []string
	for i := 0; i < len(ds); i += 10 {
		var w uint64
		for k := 0; k < 10 && i+k < len(ds); k++ {
			w |= uint64(ds[i+k]) << (6 * uint(k))
		}
		words = append(words, fmt.Sprint(w))
	}
	if len(words) <= 8 {
		return fmt.Sprintf("P%d %s", len(words), strings.Join(words, " "))
	}
	return "PL [" + strings.Join(words, ";") + "]"
}

// header (re)defines the environment of the cases files; the element table only grows, so
// codes handed out earlier stay valid for the shards written later.
func (s *c17state) header() {
	var el []string
	for _, e := range s.elems {
		el = append(el, CoqBytes(e))
	}
	var fl []string
	for _, f := range s.files {
		fl = append(fl, fmt.Sprintf("(%d, %s)", f.ID, CoqBytes(f.Path)))
	}
	h := "From Coq Require Import Uint63.\nFrom Ecal Require Import Common.Bytes Run.RunC17.\n" +
		"Definition E := mkEnv " + CoqList(el) + "\n  " + CoqBytes(s.cwd) + "\n  " + CoqList(fl) + ".\n" +
		"Definition check_all := check_all_env E.\nOpen Scope uint63_scope."
	s.c.BeginCases(h, "pcase", s.c.Pick(2500, 5000))
}

// insideSet: the sentinel files that really lie below the directory the root names
// (resolved by the operating system, independent of any lexical reasoning).
func (s *c17state) insideSet(root string) map[int]bool {
	if m, ok := s.inside[root]; ok {
		return m
	}
	m := map[int]bool{}
	abs, err := filepath.Abs(root)
	if err == nil {
		if real, err := filepath.EvalSymlinks(abs); err == nil {
			if st, err := os.Stat(real); err == nil && st.IsDir() {
				pre := real
				if !strings.HasSuffix(pre, "/") {
					pre += "/"
				}
				for _, f := range s.files {
					if strings.HasPrefix(f.Path, pre) {
						m[f.ID] = true
					}
				}
			}
		}
	}
	s.inside[root] = m
	return m
}

const c17other = 9999 // content that is none of the sentinels

func (s *c17state) libCase(d c17case) {
	c := s.c
	a, b := s.subst(d.A), s.subst(d.B)
	id := c.NewID()
	var term string
	switch d.Kind {
	case "clean":
		out := filepath.Clean(a)
		term = c17pack(id, 1, 1, s.codes(a), nil, s.codes(out))
	case "join":
		out := filepath.Join(a, b)
		term = c17pack(id, 2, 1, s.codes(a), s.codes(b), s.codes(out))
	case "rel":
		out, err := filepath.Rel(a, b)
		if err != nil {
			term = c17pack(id, 3, 0, s.codes(a), s.codes(b), nil)
			c.Dist["rel_error"]++
		} else {
			term = c17pack(id, 3, 1, s.codes(a), s.codes(b), s.codes(out))
		}
	}
	c.Dist["lib_"+d.Kind]++
	c.AddCase(id, term, d, d.Kind+"\x00"+d.A+"\x00"+d.B, strings.Contains(d.A+"/"+d.B, ".."))
}

func c17ecalString(v string) string {
	r := strings.NewReplacer("\\", "\\\\", "\"", "\\\"", "\n", "\\n")
	return "\"" + r.Replace(v) + "\""
}

// resolveOracleOnly runs the locator and applies the Spec oracle on the Go side only.
func (s *c17state) resolveOracleOnly(d c17case) {
	if _, ok := s.observe(d); ok {
		s.c.Count(d.Kind+"\x00"+d.A+"\x00"+d.B, strings.Contains(d.B, "..") || strings.HasPrefix(d.B, "/"), d)
	}
}

// resolveCase runs the locator (directly or through an import statement) and records which
// sentinel came back as a case for the Coq side.
func (s *c17state) resolveCase(d c17case) {
	obs, ok := s.observe(d)
	if !ok {
		return
	}
	c := s.c
	root, path := s.subst(d.A), s.subst(d.B)
	id := c.NewID()
	term := c17pack(id, 4, obs, s.codes(root), s.codes(path), nil)
	c.AddCase(id, term, d, d.Kind+"\x00"+d.A+"\x00"+d.B, strings.Contains(path, "..") || strings.HasPrefix(path, "/"))
}

// observe returns the id of the sentinel whose content came back (0 = error) and applies
// the model-free Spec oracle; ok = false when the call did not return normally.
func (s *c17state) observe(d c17case) (int, bool) {
	c := s.c
	root, path := s.subst(d.A), s.subst(d.B)
	var r callResult
	if d.Kind == "import" {
		r = guarded(5*time.Second, func() (interface{}, error) {
			erp := interpreter.NewECALRuntimeProvider("c17", &util.FileImportLocator{Root: root}, nil)
			vs := scope.NewScope(scope.GlobalScope)
			if _, err := evalProgram("c17", "import "+c17ecalString(path)+" as m", vs, erp); err != nil {
				return nil, err
			}
			m, _, _ := vs.GetValue("m")
			obj, ok := m.(map[interface{}]interface{})
			if !ok {
				return "", nil
			}
			if f, ok := obj["id"].(float64); ok {
				return c17content(int(f)), nil
			}
			return "", nil
		})
	} else {
		r = guarded(5*time.Second, func() (interface{}, error) {
			il := &util.FileImportLocator{Root: root}
			return il.Resolve(path)
		})
	}
	key := d.Kind + "\x00" + d.A + "\x00" + d.B
	switch {
	case r.TimedOut:
		c.Violate("nontermination", "Resolve did not return within 5s", d)
		c.Count(key, true, d)
		return 0, false
	case r.Panicked:
		c.Violate("panic", "Resolve panicked: "+r.PanicMsg, d)
		c.Count(key, true, d)
		return 0, false
	}
	obs := 0
	if r.Err == nil {
		text, _ := r.Val.(string)
		if k, ok := s.byText[text]; ok {
			obs = k
		} else {
			obs = c17other
		}
		if !s.insideSet(root)[obs] {
			what := "a file that is none of the sentinels"
			if obs != c17other {
				what = "$T/" + s.files[obs-1].Rel
			}
			c.Violate("escape", fmt.Sprintf("root %q, import path %q: the content of %s came back, which does not lie below the root directory", d.A, d.B, what), d)
		}
		c.Dist[d.Kind+"_file_returned"]++
	} else {
		c.Dist[d.Kind+"_error"]++
	}
	return obs, true
}

func (s *c17state) one(d c17case) {
	switch d.Kind {
	case "clean", "join", "rel":
		s.libCase(d)
	case "resolve", "import":
		s.resolveCase(d)
	}
}

// words enumerates all element sequences of 1..maxLen elements, joined with "/".
func c17words(alphabet []string, maxLen int, f func(string)) {
	var rec func(prefix string, n int)
	rec = func(prefix string, n int) {
		for _, e := range alphabet {
			w := e
			if prefix != "\x00" {
				w = prefix + "/" + e
			}
			f(w)
			if n > 1 {
				rec(w, n-1)
			}
		}
	}
	rec("\x00", maxLen)
}

func runC17(c *Ctx) error {
	c.Rule = "strings = elements joined with '/'. Library: filepath.Clean on every string of <=5 (thorough 6) elements over {a,.,..,''} and <=3 (6) over {a,b,.,..,''}; Join on every pair of strings of <=2 (3) elements over {a,b,.,..,''}; Rel on every pair of strings of <=3 (4 x 3, both orders) elements over {a,.,..,''}; seeded random longer ones with names like '..a', 'a.', '...', ' '. Resolve on a sandbox tree ($T = temp dir, $T/w = working directory, 60 sentinel files inside and outside $T/w/root, e.g. w/rootx/in.txt, w/root/..x/in.txt, out.txt, and next to every root directory '<root name>'+{.ecal,.txt,.,~,.ecal.ecal}, next to inside files and directories in.txt.ecal, sub.ecal, roo.ecal): every import path of <=4 (6) elements over {in.txt,sub,root,.,..,''}, with and without a leading '/', under six main root spellings (root, $T/w/root/, ../w/root, ., root/sub, root/ ; deepest level as Coq cases under the first 3 (2) roots and with the Go-side oracle only under the others), <=2 (3) elements over a 13-element alphabet (out.txt, rootx, roo, w, '..x', '...', 'a b', ...) under 15 root spellings (also '', '..', absolute with '//' and '/./', './root', 'root/sub/..', 'rootx/../root', not existing, '../..'), <=3 (4) under 'root', absolute import paths $T/.., $T/w/.., $T/w/root/..; roots '/', '/..', '//' with paths into the sandbox; seeded random walks of 5-12 elements; `import` statements evaluated by the interpreter with the same locator (<=3 elements under 2 roots + random). Observable: id of the sentinel whose content came back, or error. non-trivial = the path has a '..' or starts with '/'; distinct by (kind, root, path)"
	s := &c17state{c: c}
	if err := s.setup(); err != nil {
		return err
	}
	defer s.teardown()
	// intern every element the generators use before the first case is written: a preamble
	// that changes later closes the current cases file
	for _, w := range []string{s.T, "a/b/c/x/y/bc/ab/a./.a/.b./..a/.../ /./../", "in.txt/out.txt/sub/root/rootx/roo/w/..x/a b/x./nosuch"} {
		s.codes(w)
	}
	s.header()

	if c.Replay != "" {
		var d c17case
		if err := c.LoadReplay(&d); err != nil {
			return err
		}
		s.one(d)
		return nil
	}

	// ---- corpus of tricky inputs first
	corpus := []c17case{
		{"resolve", "root", "../rootx/in.txt"},
		{"resolve", "root", "../root/in.txt"},
		{"resolve", "root", "../out.txt"},
		{"resolve", "root", "/../out.txt"},
		{"resolve", "root", "sub/../../out.txt"},
		{"resolve", "root", "sub/../in.txt"},
		{"resolve", "root", "..//..///out.txt"},
		{"resolve", "root/", "//in.txt"},
		{"resolve", "root", "sub/"},
		{"resolve", "root", ""},
		{"resolve", "root", ".."},
		{"resolve", "root", "../"},
		{"resolve", "root", "..x/in.txt"},
		{"resolve", "root", ".../in.txt"},
		{"resolve", "root", "a b/in.txt"},
		{"resolve", "root", "x./in.txt"},
		{"resolve", "root", "sub/..x/../../in.txt"},
		{"resolve", "root", "../roo/in.txt"},
		{"resolve", "roo", "../root/in.txt"},
		{"resolve", "root/sub/..", "../rootx/in.txt"},
		{"resolve", "root/sub/..", "sub/in.txt"},
		{"resolve", "root/../rootx", "../root/in.txt"},
		{"resolve", "$T/w/root", "$T/w/root/in.txt"},
		{"resolve", "$T/w/root", "/../../out.txt"},
		{"resolve", "root", "$T/out.txt"},
		{"resolve", "root", "$T/w/rootx/in.txt"},
		{"resolve", "root", "$T/w/root/in.txt"},
		{"resolve", "$T/w/root", "$T/out.txt"},
		{"resolve", "$T/w/root", "$T/w/rootx/in.txt"},
		{"resolve", ".", "$T/out.txt"},
		{"import", "root", "$T/out.txt"},
		{"resolve", "$T/w/root", "../rootx/in.txt"},
		{"resolve", "$T/w/root/", "sub//in.txt"},
		{"resolve", "$T/w/./root//", "./in.txt"},
		{"resolve", ".", "../out.txt"},
		{"resolve", ".", "in.txt"},
		{"resolve", ".", "../w/in.txt"},
		{"resolve", "", "../out.txt"},
		{"resolve", "", "in.txt"},
		{"resolve", "", "$T/out.txt"},
		{"resolve", "", "/"},
		{"resolve", "..", "../out.txt"},
		{"resolve", "..", "out.txt"},
		{"resolve", "..", "w/root/in.txt"},
		{"resolve", "../..", "in.txt"},
		{"resolve", "/", "$T/out.txt"},
		{"resolve", "/", "../../$T/out.txt"},
		{"resolve", "/..", "$T/w/in.txt"},
		{"resolve", "nosuch", "../root/in.txt"},
		{"resolve", "nosuch", "../out.txt"},
		{"import", "root", "in.txt"},
		{"import", "root", "../rootx/in.txt"},
		{"import", "root", "../out.txt"},
		{"import", "root", "sub/../../root/sub/in.txt"},
		{"import", "$T/w/root", "/sub/in.txt"},
		{"import", "", "root/../../w/in.txt"},
		{"clean", "", ""}, {"clean", "/", ""}, {"clean", "//", ""}, {"clean", "/../a", ""}, {"clean", "../../a/..", ""},
		{"clean", "a/b/../../..", ""}, {"clean", "./", ""}, {"clean", "..a/.b./...", ""},
		{"join", "", ""}, {"join", "", "/a"}, {"join", "", "a/.."}, {"join", "a", ""}, {"join", "a/", "/b"}, {"join", "/", "/"},
		{"rel", "../..", ".."}, {"rel", "a", "."}, {"rel", ".", "a"}, {"rel", "/", "/a"}, {"rel", "/a", "/"}, {"rel", "/a", "a"},
		{"rel", "", "/a"}, {"rel", "a/b", "a/bc"}, {"rel", "..", "../.."}, {"rel", "../a", "b"}, {"rel", "a/b/c", "a/x/y"},
		{"rel", "a", "a/"}, {"rel", "..", "."}, {"rel", ".", ".."},
	}
	for _, d := range corpus {
		s.one(d)
	}
	c.Extra["corpus"] = len(corpus)

	// ---- (a) the library functions
	n0 := c.Evals
	enum := func(alphabet []string, maxLen int) []string {
		var res []string
		c17words(alphabet, maxLen, func(w string) { res = append(res, w) })
		return res
	}
	uniq := func(l []string) []string {
		l = append([]string{}, l...)
		sort.Strings(l)
		res := l[:0]
		for i, a := range l {
			if i == 0 || a != l[i-1] {
				res = append(res, a)
			}
		}
		return res
	}
	sym4 := []string{"a", ".", "..", ""}
	sym5 := []string{"a", "b", ".", "..", ""}
	for _, w := range uniq(append(enum(sym4, c.Pick(5, 6)), enum(sym5, c.Pick(3, 6))...)) {
		s.libCase(c17case{"clean", w, ""})
	}
	joinArgs := uniq(append(enum(sym5, c.Pick(2, 3)), ""))
	for _, a := range joinArgs {
		for _, b := range joinArgs {
			s.libCase(c17case{"join", a, b})
		}
	}
	relSmall := uniq(append(enum(sym4, 3), ""))
	relLarge := relSmall
	if c.Thorough() {
		relLarge = uniq(append(enum(sym4, 4), ""))
	}
	for _, a := range relLarge {
		for _, b := range relSmall {
			s.libCase(c17case{"rel", a, b})
			if len(relLarge) != len(relSmall) {
				s.libCase(c17case{"rel", b, a})
			}
		}
	}
	libExt := []string{"a", "b", "ab", "a.", ".a", "..a", "...", " ", ".", "..", "", "", ".."}
	randWord := func(alpha []string, lo, hi int) string {
		n := lo + c.Rng.Intn(hi-lo+1)
		parts := make([]string, n)
		for i := range parts {
			parts[i] = alpha[c.Rng.Intn(len(alpha))]
		}
		return strings.Join(parts, "/")
	}
	for i := 0; i < c.Pick(1500, 21000); i++ {
		a, b := randWord(libExt, 1, 9), randWord(libExt, 1, 9)
		switch i % 3 {
		case 0:
			s.libCase(c17case{"clean", a, ""})
		case 1:
			s.libCase(c17case{"join", a, b})
		default:
			s.libCase(c17case{"rel", a, b})
		}
	}
	c.Extra["library_cases"] = c.Evals - n0

	// ---- (b) Resolve on the sandbox tree
	mainRoots := []string{"root", "$T/w/root/", "../w/root", ".", "root/sub", "root/"}
	allRoots := append(append([]string{}, mainRoots...), "", "..", "$T/w/root", "$T/w//root/./", "./root", "root/sub/..", "rootx/../root", "nosuch", "../..")
	stop := false
	sweep := func(kind, root string, alphabet []string, maxLen int, coq bool) {
		c17words(alphabet, maxLen, func(w string) {
			if stop {
				return
			}
			for _, p := range []string{w, "/" + w} {
				d := c17case{kind, root, p}
				if coq {
					s.resolveCase(d)
				} else {
					s.resolveOracleOnly(d)
				}
			}
			stop = c.Enough()
		})
	}
	n1 := c.Evals
	small := []string{"in.txt", "sub", "root", ".", "..", ""}
	smallLen := c.Pick(4, 6)
	for ri, root := range mainRoots {
		// the deepest level goes through the Coq side under the first roots only (quick: 3, thorough: 2)
		if (c.Thorough() && ri < 2) || (!c.Thorough() && ri < 3) {
			sweep("resolve", root, small, smallLen, true)
		} else {
			sweep("resolve", root, small, smallLen-1, true)
		}
	}
	big := []string{"in.txt", "out.txt", "sub", "root", "rootx", "roo", "w", ".", "..", "", "..x", "...", "a b"}
	for _, root := range allRoots {
		sweep("resolve", root, big, c.Pick(2, 3), true)
	}
	sweep("resolve", "root", big, c.Pick(3, 4), true)
	// the file-system root as import root: everything is inside; only paths that stay within
	// the sandbox lexically are used (a foreign file would be "inside" without being a sentinel)
	for _, root := range []string{"/", "/..", "//"} {
		c17words(big, 2, func(w string) {
			if !stop {
				s.resolveCase(c17case{"resolve", root, "$T/w/" + w})
				s.resolveCase(c17case{"resolve", root, "../.$T/w/root/" + w})
				stop = c.Enough()
			}
		})
	}
	// absolute import paths that name existing files of the sandbox (with the empty root
	// filepath.Rel fails on them)
	for _, root := range append([]string{""}, mainRoots...) {
		for _, pre := range []string{"$T", "$T/w", "$T/w/root"} {
			c17words(big, c.Pick(2, 3), func(w string) {
				if !stop {
					s.resolveCase(c17case{"resolve", root, pre + "/" + w})
					stop = c.Enough()
				}
			})
		}
	}
	c.Extra["resolve_exhaustive_cases"] = c.Evals - n1
	c.Extra["resolve_exhaustive_max_elements"] = smallLen

	// random longer paths, biased towards walks that leave and re-enter
	n2 := c.Evals
	walk := []string{"in.txt", "out.txt", "sub", "root", "rootx", "w", ".", "..", "..", "..", "", "..x", "$T", "x."}
	for i := 0; i < c.Pick(2000, 30000) && !stop; i++ {
		root := allRoots[c.Rng.Intn(len(allRoots))]
		w := randWord(walk, 5, 12)
		if c.Rng.Intn(3) == 0 {
			w = "/" + w
		}
		s.resolveCase(c17case{"resolve", root, w})
		stop = c.Enough()
	}
	c.Extra["resolve_random_cases"] = c.Evals - n2

	// through the interpreter
	n3 := c.Evals
	for _, root := range []string{"root", "$T/w/root"} {
		sweep("import", root, small, 3, true)
	}
	for i := 0; i < c.Pick(200, 4000) && !stop; i++ {
		root := allRoots[c.Rng.Intn(len(allRoots))]
		w := strings.ReplaceAll(randWord(walk, 2, 8), "$T", "w")
		s.resolveCase(c17case{"import", root, w})
		stop = c.Enough()
	}
	c.Extra["import_statement_cases"] = c.Evals - n3

	// the full sweep of the deepest level under the remaining main roots: Spec oracle on the
	// implementation only (no Coq case)
	n4 := c.Evals
	for ri, root := range mainRoots {
		if (c.Thorough() && ri >= 2) || (!c.Thorough() && ri >= 3) {
			sweep("resolve", root, small, smallLen, false)
		}
	}
	c.Extra["resolve_oracle_only_cases"] = c.Evals - n4
	if stop {
		c.Notes = append(c.Notes, "sweep stopped early after repeated violations")
	}
	c.Extra["sentinel_files"] = len(s.files)
	c.Extra["element_table"] = len(s.elems)
	c.Exhaustive = false
	return nil
}
