(* Spec/DebugCmdSpec.v — what property C16 demands of a debugger command handler, written
   from the property text: "Any text line given to the debugger's command handler, in any
   debugger state, returns a JSON-encodable result or an error.  It never panics, never leaves
   a debugger lock held, and the debugger keeps answering subsequent commands."

   The demand is stated for an arbitrary handler over arbitrary states, lines and environment
   answers; nothing of the debugger's code is mentioned.  A call can end in four ways. *)
From Coq Require Import List.
Import ListNotations.

Section Demand.
  Variables (State Line Env Value : Type).

  Inductive answer :=
  | AResult (v : Value)      (* a result value, no error *)
  | AError                   (* an error value *)
  | APanic                   (* the handler panicked *)
  | AHang.                   (* the handler did not return (waits for a lock) *)

  Variable handler : State -> Env -> Line -> State * answer.
  Variable locks_held : State -> nat.            (* holders of debugger locks between calls *)
  Variable json_ok : Value -> Prop.              (* the value can be encoded as JSON *)
  Variable is_status : Line -> Prop.             (* the line is a "status" command *)

  (* "returns a JSON-encodable result or an error" *)
  Definition answers (a : answer) : Prop :=
    (exists v, a = AResult v /\ json_ok v) \/ a = AError.

  (* one call in state s, the demand of the property *)
  Definition total_at (s : State) : Prop :=
    forall (env : Env) (line : Line),
      let (s', a) := handler s env line in
      answers a                                             (* result or error, never panic / hang *)
      /\ locks_held s' = locks_held s                        (* no lock left held *)
      /\ (forall env' line', answers (snd (handler s' env' line')))   (* keeps answering *)
      /\ (forall env' line', is_status line' ->
            exists v, snd (handler s' env' line') = AResult v).       (* "status" gives a result *)

  (* ... in every state a history can lead to *)
  Definition total_interface (reachable : State -> Prop) : Prop :=
    forall s, reachable s -> total_at s.
End Demand.

Arguments AResult {Value} v.
Arguments AError {Value}.
Arguments APanic {Value}.
Arguments AHang {Value}.
