(* Spec/PoolSpec.v — what property C09 demands, written from the property text:

   "While the pool has at least one worker, every task added to it is eventually started by
    exactly one worker without any further call being needed, and no task runs twice or is
    dropped.  Waiting for idleness returns only when no task is queued or running; joining
    processes all queued tasks and then leaves zero workers; changing the worker count
    converges to the requested number."

   The demands are predicates on the observable part of a pool state: the tasks handed to
   AddTask, the queued ones, the ones being run, the ones that were run, the workers. *)
From Coq Require Import List ZArith Bool Arith Permutation.
From Ecal Require Import Model.Pool.
Import ListNotations.

(* "no task runs twice or is dropped": every added task is in exactly one of queued /
   running / was-run, with its multiplicity *)
Definition accounted (s : state) : Prop :=
  Permutation (queue s ++ running (workers s) ++ done s) (added s).

Definition no_duplicates (s : state) : Prop :=
  NoDup (added s) -> NoDup (queue s ++ running (workers s) ++ done s).

(* "without any further call being needed": the state that must never be reached.
   A task is queued and there are workers that have not been told to exit, yet every such
   worker sleeps (or has decided to) and nothing that is already under way will wake one:
   no wake-up is unconsumed, no AddTask is between its Push and its Signal, no
   SetWorkerCount / JoinAll owes its Broadcast. *)
Definition lost_wakeup (s : state) : Prop :=
  queue s <> [] /\
  cnt isW (workers s) + cnt isDW (workers s) > 0 /\
  cnt isGood (workers s) = 0 /\
  tokens s = 0 /\
  cnt isAp (adders s) = 0 /\
  cnt isEp (envs s) = 0.

(* work that the pool still owes: a queued or running task, or workers told to exit *)
Definition unfinished (s : state) : Prop :=
  queue s <> [] \/ running (workers s) <> [] \/ kill s <> 0%Z.

(* WaitAll leaves its loop when it reads (atomically, under both locks)
   workerCount = 0  or  (workerCount = idleCount and queue size = 0) *)
Definition waitall_exit (s : state) : Prop :=
  length (workers s) = 0 \/
  (length (workers s) = cnt isIdle (workers s) /\ length (queue s) = 0).

(* JoinAll leaves its loop when it reads workerCount = 0 and queue size = 0 *)
Definition joinall_exit (s : state) : Prop :=
  length (workers s) = 0 /\ length (queue s) = 0.

Definition nothing_queued_or_running (s : state) : Prop :=
  queue s = [] /\ running (workers s) = [].

Definition all_added_were_run (s : state) : Prop := Permutation (done s) (added s).
