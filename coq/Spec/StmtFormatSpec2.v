(* Spec/StmtFormatSpec2.v — C08, statement level, extended guards: the well-formedness
   predicates of Spec/StmtFormatSpec.v with `try` / `except` / `otherwise` / `finally` and named
   `func` allowed (any nesting with the kinds already covered).  The demands
   ([StmtRoundTrip], [StmtIdempotent]) are those of Spec/StmtFormatSpec.v, unchanged. *)
From Coq Require Import List String NArith Bool Arith ZArith.
From Ecal Require Import Common.Bytes Common.Ast gen.Tokens gen.Grammar Model.Printer
     Proofs.PrinterProofs Model.StmtPrinter Spec.StmtFormatSpec.
Import ListNotations.
Local Open Scope string_scope.
Local Open Scope nat_scope.

(* an error name of an except clause is a string literal: as for string terminals of [wfe], a raw
   string must be printable raw (known finding raw-multiline-string) *)
Definition wfname (p : bytes * bool) : Prop := str_allow (fst p) (snd p) = snd p.

(* statement kinds covered by the extended theorem:
     - everything [wfS] covers;
     - try { } with any number of except clauses (each: any number of error names, then nothing /
       `as x` / a bare variable `x`), an optional otherwise block, an optional finally block;
     - func name(p1, ..., pn) { }: every parameter any expression of the guarded expression
       language (identifiers and presets `x=1` are such expressions). *)
Fixpoint wfS2 (s : stmt) : Prop :=
  match s with
  | SExpr e => wfe e
  | SReturn0 => True
  | SReturn1 e => wfe e
  | SIf g b r => wfe g /\ wfB2 b /\ wfT2 r
  | SFor g b => wfe g /\ wfB2 b
  | SMutex x b => wfB2 b
  | STry b ex ow fin => wfB2 b /\ wfX2 ex /\ wfO2 ow /\ wfO2 fin
  | SFunc x ps b => Forall wfe ps /\ wfB2 b
  end
with wfB2 (b : sblock) : Prop :=
  match b with
  | BNil => True
  | BCons s r => wfS2 s /\ wfB2 r
  end
with wfT2 (r : iftail) : Prop :=
  match r with
  | INone => True
  | IElse b => wfB2 b
  | IElif g b r' =>
    wfe g /\ wfB2 b /\ wfT2 r' /\ match r' with INone => n_name g <> NodeTRUE | _ => True end
  end
with wfX2 (ex : excepts) : Prop :=
  match ex with
  | ENil => True
  | ECons names bind b r => Forall wfname names /\ wfB2 b /\ wfX2 r
  end
with wfO2 (o : oblock) : Prop :=
  match o with
  | ONone => True
  | OSome b => wfB2 b
  end.

(* a program: as [wfP] *)
Definition wfP2 (b : sblock) : Prop := b <> BNil /\ wfB2 b /\ last_is_return0 b = false.
