(* Spec/InterpExprSpec.v — what property C03 demands of an OPERATOR NODE of the unified interpreter
   model (Model/Interp.v), written from the property text and the operator tables of /repo/ecal.md
   ("Boolean: and or not > >= < <= == !=", "Arithmetic: + - * / // (integer division) % (integer
   modulo)", "String: like hasPrefix hasSuffix", "List: in notin"):

     "float arithmetic with `//` as floor division and `%` as integer remainder, numeric (or, for
      strings, lexical) comparison, and/or/not over booleans, like/hasPrefix/hasSuffix on strings,
      in/notin on lists ... an arithmetic or boolean operator applied to an operand of the wrong
      kind yields a runtime error ..., not a value."

   Two parts.
   (1) The operator as a PURE function of the operand VALUES: [op_bin o st a b] / [op_pre o a].  The
       state argument is only READ (a list value is a reference into the heap, and fmt.Sprint of a
       list prints its cells); the function cannot change it.  The result is a value or an error
       VALUE of the documented class - never a Go panic.
   (2) The ORDER OF EVALUATION of an operator node, as outcome combinators over the evaluations of
       the operand nodes: [binary_outcome] (left operand, then right operand in the state the left
       one left, each exactly once; the first operand that does not yield a value ends the
       evaluation with ITS outcome), [unary_outcome], and [comparison_outcome], which says what the
       code does for >= > <= <: whenever the numeric attempt ends in an ERROR VALUE (an operand is
       not a number, or an operand's own evaluation failed) both operands are evaluated a SECOND
       time and the printed forms of the second results are compared as strings.

   The operator vocabulary is C03's own ([binop] / [preop] / [bin_name] / [pre_name] of
   Spec/ExprGrammarSpec.v).  Error values carry the error TYPE only in Model/Interp.v (the detail
   string naming the operand is decided on the focused model, Props/C03.v
   [C03_wrong_kind_is_error_naming_operand]).  No proofs in this file. *)
From Coq Require Import List String NArith ZArith Bool Arith.
From Ecal Require Import Common.Bytes Common.Ast gen.Tokens Model.Interp Spec.ExprGrammarSpec.
Import ListNotations.
Local Open Scope nat_scope.

Section Spec.
  Context {NO : NumOps}.

  (* ---------------------------------------------------------------- operator classes *)
  Definition is_arith (o : binop) : bool :=
    match o with OPlus | OMinus | OTimes | ODiv | ODivInt | OModInt => true | _ => false end.
  Definition is_boolop (o : binop) : bool := match o with OAnd | OOr => true | _ => false end.
  Definition is_cmp (o : binop) : bool := match o with OGeq | OGt | OLeq | OLt => true | _ => false end.
  (* the binary operators whose operands are evaluated exactly once: all but the comparisons
     (second pass, see above), `like` (regular expressions: outside Model/Interp.v) and `:=` *)
  Definition once_bin (o : binop) : bool :=
    match o with OGeq | OGt | OLeq | OLt | OLike | OAssign => false | _ => true end.

  (* ---------------------------------------------------------------- (1) pure operator functions *)
  Definition W_SPRINT : string := "fmt.Sprint outside the modelled domain".

  (* arithmetic on two numbers; `%`: remainder of the operands truncated to integers, a zero
     divisor is a runtime error *)
  Definition arith (o : binop) (x y : num) : res value :=
    match o with
    | OPlus => ROk (VNum (n_add x y))
    | OMinus => ROk (VNum (n_sub x y))
    | OTimes => ROk (VNum (n_mul x y))
    | ODiv => ROk (VNum (n_div x y))
    | ODivInt => ROk (VNum (n_divint x y))
    | _ (* OModInt *) =>
      if (n_trunc y =? 0)%Z then RErr (rt_err T_RUNTIME)
      else ROk (VNum (n_of_Z (Z.rem (n_trunc x) (n_trunc y))))
    end.

  Definition num_cmp (o : binop) (x y : num) : bool :=
    match o with
    | OGeq => n_leb y x
    | OGt => n_ltb y x
    | OLeq => n_leb x y
    | _ (* OLt *) => n_ltb x y
    end.
  Definition str_cmp (o : binop) (a b : bytes) : bool :=
    match o with
    | OGeq => bytes_leb b a
    | OGt => bytes_ltb b a
    | OLeq => bytes_leb a b
    | _ (* OLt *) => bytes_ltb a b
    end.

  (* an operation on the printed forms (fmt.Sprint) of both operands *)
  Definition text2 (f : bytes -> bytes -> bool) (st : state) (a b : value) : res value :=
    match sprint 8 st a with
    | None => RUnmod W_SPRINT
    | Some s1 =>
      match sprint 8 st b with
      | None => RUnmod W_SPRINT
      | Some s2 => ROk (VBool (f s1 s2))
      end
    end.

  (* equality: two lists / two maps cannot be compared (runtime error); otherwise values of the same
     kind are compared by content (functions by identity), values of different kinds differ *)
  Definition eq_spec (a b : value) : res bool :=
    match a, b with
    | VList _ _, VList _ _ => RErr (rt_err T_RUNTIME)
    | VMap _, VMap _ => RErr (rt_err T_RUNTIME)
    | _, _ => go_iface_eq a b
    end.

  (* membership: the items are compared left to right, the first equal one decides *)
  Fixpoint mem_spec (v : value) (items : list value) : res bool :=
    match items with
    | [] => ROk false
    | i :: r =>
      match eq_spec v i with
      | ROk true => ROk true
      | ROk false => mem_spec v r
      | stopped => stopped
      end
    end.

  Definition rmap {A B} (f : A -> B) (r : res A) : res B :=
    match r with
    | ROk a => ROk (f a)
    | RErr e => RErr e
    | RPanic s => RPanic s
    | RFuel => RFuel
    | RUnmod w => RUnmod w
    | RInvalid w => RInvalid w
    end.

  (* the items of a list value *)
  Definition items_of (st : state) (l : value) : res (list value) :=
    match l with
    | VList a len =>
      match nth_error (st_arrs st) a with
      | None => RInvalid "dangling array reference"
      | Some cells => if length cells <? len then RInvalid "slice longer than its array"
                      else ROk (firstn len cells)
      end
    | _ => RErr (rt_err T_NOTLIST)
    end.
  Definition in_spec (neg : bool) (st : state) (v l : value) : res value :=
    match items_of st l with
    | ROk items => rmap (fun b => VBool (xorb neg b)) (mem_spec v items)
    | RErr e => RErr e
    | RPanic s => RPanic s
    | RFuel => RFuel
    | RUnmod w => RUnmod w
    | RInvalid w => RInvalid w
    end.

  (* the second (string) pass of a comparison *)
  Definition cmp_text (o : binop) : state -> value -> value -> res value := text2 (str_cmp o).

  Definition op_bin (o : binop) (st : state) (a b : value) : res value :=
    match o with
    | OPlus | OMinus | OTimes | ODiv | ODivInt | OModInt =>
      match a, b with
      | VNum x, VNum y => arith o x y
      | _, _ => RErr (rt_err T_NOTNUM)
      end
    | OAnd =>
      match a, b with
      | VBool x, VBool y => ROk (VBool (andb x y))
      | _, _ => RErr (rt_err T_NOTBOOL)
      end
    | OOr =>
      match a, b with
      | VBool x, VBool y => ROk (VBool (orb x y))
      | _, _ => RErr (rt_err T_NOTBOOL)
      end
    | OGeq | OGt | OLeq | OLt =>
      match a, b with
      | VNum x, VNum y => ROk (VBool (num_cmp o x y))
      | _, _ => cmp_text o st a b
      end
    | OEq => rmap (fun r => VBool r) (eq_spec a b)
    | ONeq => rmap (fun r => VBool (negb r)) (eq_spec a b)
    | OIn => in_spec false st a b
    | ONotIn => in_spec true st a b
    | OHasPrefix => text2 (fun s p => prefixb p s) st a b
    | OHasSuffix => text2 (fun s p => suffixb p s) st a b
    | OLike | OAssign => RUnmod "not an operator of this specification"
    end.

  Definition op_pre (o : preop) (a : value) : res value :=
    match o with
    | PNeg => match a with VNum x => ROk (VNum (n_opp x)) | _ => RErr (rt_err T_NOTNUM) end
    | PPos => match a with VNum x => ROk (VNum x) | _ => RErr (rt_err T_NOTNUM) end
    | PNot => match a with VBool b => ROk (VBool (negb b)) | _ => RErr (rt_err T_NOTBOOL) end
    end.

  (* a value that is no reference into the heap *)
  Definition is_scalar (v : value) : bool :=
    match v with VList _ _ | VMap _ => false | _ => true end.

  (* ---------------------------------------------------------------- (2) order of evaluation *)
  (* e1, then e2 in the state e1 left, then the pure operator on the two values in the state e2
     left (which stays).  An operand that does not yield a value (error value, panic, out of fuel,
     unmodelled, invalid) ends the evaluation with its own outcome and state; after a first operand
     that did not yield a value the second operand is NOT evaluated. *)
  Definition binary_outcome (e1 e2 : M value) (op : state -> value -> value -> res value) : M value :=
    fun st =>
      match e1 st with
      | (ROk v1, st1) =>
        match e2 st1 with
        | (ROk v2, st2) => (op st2 v1 v2, st2)
        | stopped => stopped
        end
      | stopped => stopped
      end.

  Definition unary_outcome (e : M value) (op : value -> res value) : M value :=
    fun st =>
      match e st with
      | (ROk v, st1) => (op v, st1)
      | stopped => stopped
      end.

  (* >= > <= < : first pass as [binary_outcome]; two numbers are compared numerically.  In every
     other case that is a value or an ERROR VALUE - an operand is not a number, OR an operand's
     evaluation itself ended in an error value - both operands are evaluated AGAIN, starting in the
     state the first pass left, and the printed forms of the new results are compared as strings
     (even if the new results happen to be numbers).  A panic / out of fuel / unmodelled / invalid
     outcome of the first pass ends the evaluation. *)
  Definition comparison_outcome (o : binop) (e1 e2 : M value) : M value :=
    fun st =>
      let second := binary_outcome e1 e2 (cmp_text o) in
      match e1 st with
      | (ROk v1, st1) =>
        match e2 st1 with
        | (ROk v2, st2) =>
          match v1, v2 with
          | VNum x, VNum y => (ROk (VBool (num_cmp o x y)), st2)
          | _, _ => second st2
          end
        | (RErr _, st2) => second st2
        | stopped => stopped
        end
      | (RErr _, st1) => second st1
      | stopped => stopped
      end.
End Spec.
