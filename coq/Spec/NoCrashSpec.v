(* Spec/NoCrashSpec.v — what C06 demands, written from the property text:

     "... never panics, exits or kills a worker of the embedding process: every failure
      (operand of the wrong kind, division or modulo by zero, index or key out of range,
      wrong number or kind of arguments to a built-in, malformed literal or sink attribute,
      comparing or hashing containers) comes back as an error value.  Such an error raised
      inside try is catchable there, and inside a sink it fails only that sink invocation."

   The outcome of evaluating anything is a value, an error value or a crash of the host;
   the property allows the first two only, demands an *error* for the listed failures,
   and demands that the error is one an except clause can select. *)
From Coq Require Import String List Bool.
From Ecal Require Export Common.Outcome.
Import ListNotations.
Open Scope string_scope.

(* the host survives: a value or an error value came back *)
Definition survives {A} (r : outcome A) : Prop :=
  match r with Ok _ | Err _ => True | Panic _ | OutOfFuel => False end.

Definition survivesb {A} (r : outcome A) : bool :=
  match r with Ok _ | Err _ => true | Panic _ | OutOfFuel => false end.

(* a failure comes back as an error value *)
Definition is_error {A} (r : outcome A) : Prop := exists e, r = Err e.

(* try/except (ecal.md "Error handling"): a clause without error types handles every
   error, a clause with types handles the errors whose type is listed.  The type of an
   error is a string: one of the interpreter's runtime error types, "UnexpectedError" for
   an error that is not a runtime error, or what the program passed to raise(). *)
Definition except_selects (clause : list string) (etype : string) : bool :=
  match clause with
  | [] => true
  | _ => existsb (String.eqb etype) clause
  end.

(* an error is catchable when both the catch-all clause and a clause naming its type select it *)
Definition catchable (etype : string) : Prop :=
  except_selects [] etype = true /\ except_selects [etype] etype = true.

(* what an enclosing try with a catch-all clause makes of the body's outcome: an error is
   handled there (the handler's value, here null, is the result), a crash is not *)
Definition under_try {A} (handler : A) (body : outcome A) : outcome A :=
  match body with
  | Err _ => Ok handler
  | r => r
  end.

(* a sink invocation: the action returns the body's error to the engine, which records it
   for this invocation; the other invocations of the cascade are not affected *)
Definition invocation_reports {A} (bodies : list (outcome A)) : list (option string) :=
  map (fun b => match b with Err e => Some e | _ => None end) bodies.
