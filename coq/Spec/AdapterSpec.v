(* Spec/AdapterSpec.v — what property C19 demands of the Go function bridge, written from the
   property text:

     "Calling any bridged Go function from ECAL with any number and kinds of arguments
      returns either the function's results, with Go integers and floats delivered as ECAL
      numbers and a trailing Go error delivered as an ECAL error, or a descriptive error.
      Too many or too few arguments, arguments of the wrong kind, NULL, or a panicking Go
      function never crash the interpreter, and numeric arguments arrive converted to the
      parameter's Go numeric type."

   The vocabulary (Go types, values, signatures) is that of Model/Adapter.v; none of the
   model's functions is used here: numbers are specified through the rational they denote
   (integer mantissa times power of two), not through the conversion functions. *)
From Coq Require Import ZArith NArith List Bool String Floats.SpecFloat.
From Ecal Require Import Common.Outcome Model.Adapter.
Import ListNotations.
Local Open Scope Z_scope.

(* "returns either ... results ... or a descriptive error ... never crash": the call comes
   back with a value or an error value; it neither panics nor fails to come back. *)
Definition returns_or_errors (r : outcome gval) : Prop :=
  (exists v, r = Ok v) \/ (exists e, r = Err e).

(* ---------------------------------------------------------------- numbers by value *)

(* t is x truncated toward zero: the rational |x| = m * 2^e lies in [a, a+1) and t = +-a *)
Definition trunc_is (x : num) (t : Z) : Prop :=
  match x with
  | S754_zero _ => t = 0
  | S754_finite s m e =>
    exists a, 0 <= a /\
      a * 2 ^ (Z.max 0 (- e)) <= Zpos m * 2 ^ (Z.max 0 e) < (a + 1) * 2 ^ (Z.max 0 (- e)) /\
      t = (if s then - a else a)
  | _ => False
  end.

(* the number y is exactly the integer z *)
Definition int_value_is (y : num) (z : Z) : Prop :=
  match y with
  | S754_zero _ => z = 0
  | S754_finite s m e =>
    (if s then - Zpos m else Zpos m) * 2 ^ (Z.max 0 e) = z * 2 ^ (Z.max 0 (- e))
  | _ => False
  end.

(* two numbers denote the same value *)
Definition same_value (x y : num) : Prop :=
  match x, y with
  | S754_finite s1 m1 e1, S754_finite s2 m2 e2 =>
    s1 = s2 /\ Zpos m1 * 2 ^ (e1 - Z.min e1 e2) = Zpos m2 * 2 ^ (e2 - Z.min e1 e2)
  | _, _ => x = y
  end.

(* x is representable as a float32: at most 24 significant bits, exponent in the
   float32 range (subnormals included) *)
Definition f32_representable (x : num) : Prop :=
  match x with
  | S754_finite _ m e =>
    let d := Zpos (digits2_pos m) in d <= 24 /\ -149 <= d + e - 24 /\ d + e - 24 <= 104
  | _ => True
  end.

(* ---------------------------------------------------------------- arguments *)

(* the ECAL value a is of the kind the parameter type t takes *)
Definition arg_matches (t : gtype) (a : gval) : Prop :=
  match t, a with
  | TInt _, GF64 _ | TF32, GF64 _ | TF64, GF64 _ => True
  | TStr, GStr _ => True
  | TBool, GBool _ => True
  | TSlice TIface, GSlice TIface _ => True
  | TMap, GMap _ => True
  | _, _ => False
  end.

(* "numeric arguments arrive converted to the parameter's Go numeric type": what the Go
   function must find in a parameter of type t when the ECAL argument is a. *)
Definition arrives (t : gtype) (a v : gval) : Prop :=
  match a with
  | GF64 x =>
    match t with
    | TInt k =>
      exists z, v = GInt k z /\
        (forall tr, trunc_is x tr -> in_range k tr = true -> z = tr)
    | TF32 => exists y, v = GF32 y /\ (f32_representable x -> same_value x y)
    | _ => v = a
    end
  | _ => v = a
  end.

(* ---------------------------------------------------------------- results *)

(* v is a Go value of static type t *)
Definition val_has_type (t : gtype) (v : gval) : Prop :=
  match t with
  | TInt k => exists z, v = GInt k z
  | TF32 => exists x, v = GF32 x
  | TF64 => exists x, v = GF64 x
  | TStr => exists s, v = GStr s
  | TBool => exists b, v = GBool b
  | TErr => v = GNil \/ exists n, v = GErr n
  | TSlice e => exists l, v = GSlice e l
  | TMap => (exists n, v = GMap n) \/ v = GNil
  | TIface => True
  | TFuncObj => exists n, v = GFunc n
  | TErrObj => exists n, v = GErr n
  end.

(* "Go integers and floats delivered as ECAL numbers": the result value v of declared type t
   reaches ECAL as r *)
Definition delivered (t : gtype) (v r : gval) : Prop :=
  match t with
  | TInt _ =>
    exists k z y, v = GInt k z /\ r = GF64 y /\ (Z.abs z <= 2 ^ 53 -> int_value_is y z)
  | TF32 => exists x, v = GF32 x /\ r = GF64 x
  | TF64 => exists x, v = GF64 x /\ r = GF64 x
  | _ => r = v
  end.

(* one result: the value itself; otherwise the list of results *)
Definition pack (rs : list gval) : gval :=
  match rs with [x] => x | l => GSlice TIface l end.

Fixpoint delivered_all (outs : list gtype) (vals rs : list gval) : Prop :=
  match outs, vals, rs with
  | [], [], [] => True
  | t :: outs', v :: vals', r :: rs' => delivered t v r /\ delivered_all outs' vals' rs'
  | _, _, _ => False
  end.
