(* Spec/StrInterpSpec.v — what C14 demands, written from the property text:
   "replaces each {{expr}} written in the literal, left to right, by the text of that
   expression's value ...; text that a substitution produced is never scanned or
   evaluated again".  The literal is cut at the leftmost "{{" and the first "}}" after
   it; what follows the "}}" is treated the same way; anything else is plain text. *)
From Ecal Require Export Common.Bytes.

Definition S_OPEN : bytes := [123; 123].
Definition S_CLOSE : bytes := [125; 125].

(* s = a ++ p ++ b and no occurrence of p starts earlier *)
Definition first_occ (p s a b : bytes) : Prop :=
  s = a ++ p ++ b /\
  forall a1 a2, a = a1 ++ a2 -> a2 <> [] -> prefixb p (a2 ++ p ++ b) = false.

Section Spec.
  Variable ev : bytes -> bytes.

  (* Interp lit out log: out is the interpolated text, log the expressions evaluated *)
  Inductive Interp : bytes -> bytes -> list bytes -> Prop :=
  | I_plain lit :
      (forall pre tail code rest,
          first_occ S_OPEN lit pre tail -> first_occ S_CLOSE tail code rest -> False) ->
      Interp lit lit []
  | I_seg lit pre tail code rest out log :
      first_occ S_OPEN lit pre tail ->
      first_occ S_CLOSE tail code rest ->
      Interp rest out log ->
      Interp lit (pre ++ ev code ++ out) (code :: log).
End Spec.
