(* Spec/ReentrantSpec.v — what property C13 demands, written from the property text:

     "Parsing a text yields the same tree or the same error no matter how many other parses,
      validations or evaluations run concurrently in the process.  Concurrent use never
      triggers the Go runtime's fatal concurrent-map failure or a data race inside the parser
      or in the construction of runtime components."

   (a) Re-entrancy of a concurrent system: whatever the schedule, a thread that has finished
       holds exactly the result it computes when it runs alone.
   (b) Freedom from races on package-level state, as a condition on the static scan: no write
       of a package-level variable after init is unprotected; all accesses of a variable that
       is written use one and the same guard (a write under mutex A and a read under mutex B,
       or an atomic add and a plain read, exclude nothing); nothing of the packages escaped
       the scan.
   (c) Runtime components get pairwise distinct instance ids. *)
From Coq Require Import String List Bool.
Import ListNotations.
Local Open Scope list_scope.
From Ecal Require Import Common.Sched gen.SharedWrites.

(* ---- (a) *)
Section Reentrant.
  Variables (state thread result : Type).
  Variable step : state -> nat -> option state.
  Variable thread_of : state -> nat -> option thread.
  Variable finished : thread -> bool.
  Variable result_of : thread -> result.

  (* [alone t r]: r is the result of thread t of the initial state when it runs alone *)
  Definition Reentrant (init : state) (alone : nat -> result -> Prop) : Prop :=
    forall (sched : list nat) (s : state) (t : nat) (th : thread),
      run step init sched = Some s ->
      thread_of s t = Some th -> finished th = true ->
      alone t (result_of th).
End Reentrant.

(* ---- (b) *)
Definition unprotected (ws : list shared_access) : list shared_access :=
  filter (fun w => negb (sa_protected w)) ws.

(* every access (read or write) of a variable that is written carries the guard of that write *)
Definition guards_consistent (ws rs : list shared_access) : bool :=
  forallb (fun w =>
    forallb (fun a => negb (String.eqb (sa_var a) (sa_var w))
                      || (sa_protected a && String.eqb (sa_guard a) (sa_guard w)))
            (ws ++ rs)) ws.

(* reads of a package-level map are safe only if nobody writes that map *)
Definition racy_map_reads (ws rs : list shared_access) : list shared_access :=
  filter (fun r => sa_is_map r && negb (sa_protected r)
                   && existsb (fun w => String.eqb (sa_var w) (sa_var r)) ws) rs.

Definition static_race_free (ws rs : list shared_access) (unscanned : list string) : Prop :=
  unprotected ws = [] /\ guards_consistent ws rs = true /\ racy_map_reads ws rs = [] /\ unscanned = [].

(* ---- (c) *)
Definition ids_unique {A : Type} (ids : list A) : Prop := NoDup ids.
