(* Spec/ControlSpec.v — what C04 demands, written from the property text and ecal.md
   ("Loop statements", "Conditional statements", "Try-except blocks", raise, range), NOT
   from the code: a big-step semantics of the control skeleton language with explicit
   completion records.  Nothing here is an error value; a statement completes

      Normal | Raised type | Returned value | Broke | Continued

   and appends events to a trace.

   * if/elif/else evaluates the guards in order and runs the first branch whose guard is
     true; a guard (loop condition, iterated expression) that raises an error completes the
     whole statement with that error at once: no later guard is evaluated, no branch runs;
   * a loop runs its body once per element (condition loop: once per time the condition
     holds; range: from, from+step, ... up to and including the end, in the direction from
     start to end; list: per element; map: per key, keys in string order);  `break` ends the
     innermost loop, `continue` its current iteration; any other abrupt completion leaves the loop;
   * try: an error raised by the try block is handled by the FIRST except clause that lists
     its type or lists no type (the handler's completion replaces the error); `otherwise`
     runs only when the try block completed normally (its errors are not offered to the
     except clauses); return/break/continue are not errors and are not offered to except
     clauses; an error no clause handles stays what it was;  `finally` runs exactly once
     after all of that on every way out, and — as for any statement of the language
     (ecal.md: an error "will stop the code execution if the error is not handled by
     try / except") — an abrupt completion of the finally block itself is not lost: it
     replaces the pending one;
   * a function call completes normally with the returned value (`return` leaves the innermost
     function); an error leaves the function unchanged.

   Not fixed by the reference and chosen here (the harness generates no such program):
   `break`/`continue` outside any loop of the function they are written in and `return`
   outside any function keep travelling outwards as that completion.

   Fuel: [sexec fuel s = None] means "more than [fuel] nesting levels / range iterations";
   a range whose step does not lead from start towards end never ends (None for every fuel). *)
From Coq Require Export Sorted.
From Ecal Require Export Model.ControlSyntax.

Inductive compl : Type :=
| Normal
| Raised (t : ety)
| Returned (v : nat)
| Broke
| Continued.

Definition result := option (trace * compl).

(* prefix a trace *)
Definition spre (t : trace) (r : result) : result :=
  match r with
  | None => None
  | Some (t', c) => Some (t ++ t', c)
  end.

Definition ety_of (k : errk) : ety :=
  match k with KUser t => EUser t | KRuntime => EUnknownConstruct end.

(* evaluating a guard: what it logs, and whether it holds or raises *)
Inductive gres : Type := GHolds (b : bool) | GRaises (e : ety).

Definition sguard (g : guard) : trace * gres :=
  match g with
  | GBool b => ([], GHolds b)
  | GEval n GTrue => ([EvMark n], GHolds true)
  | GEval n GFalse => ([EvMark n], GHolds false)
  | GEval n (GFail k) => ([EvMark n], GRaises (ety_of k))
  end.

Section Combinators.
  Variable ex : stmt -> result.           (* execution of one statement (one level less fuel) *)

  Fixpoint sblock (b : block) : result :=
    match b with
    | [] => Some ([], Normal)
    | s :: b' =>
      match ex s with
      | None => None
      | Some (t, Normal) => spre t (sblock b')
      | Some (t, c) => Some (t, c)
      end
    end.

  Fixpoint sif (brs : list (guard * block)) (els : option block) : result :=
    match brs with
    | [] => match els with Some b => sblock b | None => Some ([], Normal) end
    | (g, b) :: brs' =>
      match sguard g with
      | (t, GHolds true) => spre t (sblock b)
      | (t, GHolds false) => spre t (sif brs' els)
      | (t, GRaises e) => Some (t, Raised e)
      end
    end.

  (* condition loop: [run] is one round; the condition holds n times; evaluated once more it
     is false ([fail] = None) or logs m and raises *)
  Fixpoint scond (run : result) (fail : option (nat * errk)) (n : nat) : result :=
    match n with
    | O => match fail with
           | None => Some ([], Normal)
           | Some (m, k) => Some ([EvMark m], Raised (ety_of k))
           end
    | S n' =>
      match run with
      | None => None
      | Some (t, Normal) | Some (t, Continued) => spre t (scond run fail n')
      | Some (t, Broke) => Some (t, Normal)
      | Some (t, c) => Some (t, c)
      end
    end.

  (* one loop over a finite sequence of elements *)
  Fixpoint sforeach {A} (run : A -> result) (xs : list A) : result :=
    match xs with
    | [] => Some ([], Normal)
    | x :: xs' =>
      match run x with
      | None => None
      | Some (t, Normal) | Some (t, Continued) => spre t (sforeach run xs')
      | Some (t, Broke) => Some (t, Normal)
      | Some (t, c) => Some (t, c)
      end
    end.

  (* range(from, to, step): inclusive end, in the direction from start to end *)
  Definition in_range (from to v : Z) : bool :=
    if Z.ltb from to then Z.leb v to
    else if Z.ltb to from then Z.leb to v
    else Z.eqb v to.

  Fixpoint srange (n : nat) (run : Z -> result) (from to step cur : Z) : result :=
    match n with
    | O => None
    | S n' =>
      if in_range from to cur then
        match run cur with
        | None => None
        | Some (t, Normal) | Some (t, Continued) => spre t (srange n' run from to step (cur + step)%Z)
        | Some (t, Broke) => Some (t, Normal)
        | Some (t, c) => Some (t, c)
        end
      else Some ([], Normal)
    end.

  (* try *)
  Definition clause_matches (e : ety) (c : clause) : bool :=
    match c with
    | (tys, _, _) => match tys with [] => true | _ => existsb (ety_eqb e) tys end
    end.

  Fixpoint find_clause (e : ety) (cs : list clause) : option clause :=
    match cs with
    | [] => None
    | c :: cs' => if clause_matches e c then Some c else find_clause e cs'
    end.

  Definition caught_ev (b : binder) (e : ety) : trace :=
    match b with BNone => [] | _ => [EvCaught e] end.

  Definition stry_core (body : block) (cs : list clause) (oth : option block) : result :=
    match sblock body with
    | None => None
    | Some (t, Normal) =>
      match oth with
      | None => Some (t, Normal)
      | Some ob => spre t (sblock ob)
      end
    | Some (t, Raised e) =>
      match find_clause e cs with
      | None => Some (t, Raised e)
      | Some (_, b, h) => spre (t ++ caught_ev b e) (sblock h)
      end
    | Some (t, c) => Some (t, c)
    end.

  Definition sfinally (r : result) (fin : option block) : result :=
    match fin with
    | None => r
    | Some fb =>
      match r with
      | None => None
      | Some (t, c) =>
        match sblock fb with
        | None => None
        | Some (tf, Normal) => Some (t ++ tf, c)
        | Some (tf, cf) => Some (t ++ tf, cf)
        end
      end
    end.

  Definition scall (body : block) : result :=
    match sblock body with
    | None => None
    | Some (t, Normal) => Some (t ++ [EvRet None], Normal)
    | Some (t, Returned v) => Some (t ++ [EvRet (Some v)], Normal)
    | Some (t, c) => Some (t, c)
    end.
End Combinators.

(* keys of a map in string order: strictly increasing, the same set of keys *)
Definition key_order (ks l : list key) : Prop :=
  StronglySorted (fun a b => key_ltb a b = true) l /\ forall k, In k l <-> In k ks.

Fixpoint insert_key (k : key) (l : list key) : list key :=
  match l with
  | [] => [k]
  | x :: l' => if key_ltb k x then k :: l else if key_eqb k x then l else x :: insert_key k l'
  end.

Definition sorted_keys (ks : list key) : list key := fold_right insert_key [] ks.

Fixpoint sexec (fuel : nat) (s : stmt) : result :=
  match fuel with
  | O => None
  | S f =>
    let ex := sexec f in
    match s with
    | Mark n => Some ([EvMark n], Normal)
    | Raise t => Some ([], Raised (EUser t))
    | RuntimeErr => Some ([], Raised EUnknownConstruct)
    | Return v => Some ([], Returned v)
    | Break => Some ([], Broke)
    | Continue => Some ([], Continued)
    | If brs els => sif ex brs els
    | LoopCond n fail body => scond (sblock ex body) fail n
    | LoopSrc n k _ => Some ([EvMark n], Raised (ety_of k))
    | LoopRange from to step body =>
      srange f (fun v => spre [EvIter v] (sblock ex body)) from to step from
    | LoopList xs body => sforeach (fun v => spre [EvIter v] (sblock ex body)) xs
    | LoopMap ks body => sforeach (fun k => spre [EvKey k] (sblock ex body)) (sorted_keys ks)
    | Try body cs oth fin => sfinally ex (stry_core ex body cs oth) fin
    | FuncCall body => scall ex body
    end
  end.

(* a whole program: a block at the top level *)
Definition sprog (fuel : nat) (p : block) : result := sblock (sexec fuel) p.
