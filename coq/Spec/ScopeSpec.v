(* Spec/ScopeSpec.v — what the property text demands of the scope structure and of the
   list / map built-ins, as relations and reference functions that do not mention how the
   Go code computes them.

   "code sees the variables of its enclosing blocks, function definition scope and the
    global scope; an assignment updates the nearest enclosing definition or else defines
    the name in the current scope, `let` always defines locally, nothing defined in an
    inner scope or function call is visible outside it" *)
From Coq Require Import ZArith.
From Ecal Require Import Common.Bytes Model.Scope.
Open Scope nat_scope.

Section Lookup.
  Variable scs : list scope.

  (* [Resolves s x t]: seen from scope s, the name x denotes the variable held by t —
     the NEAREST scope on the chain s, parent s, ... that defines x *)
  Inductive Resolves : nat -> name -> nat -> Prop :=
  | R_here s sc x :
      nth_error scs s = Some sc -> store_has x (sc_store sc) = true -> Resolves s x s
  | R_up s sc p x t :
      nth_error scs s = Some sc -> store_has x (sc_store sc) = false ->
      sc_parent sc = Some p -> Resolves p x t -> Resolves s x t.

  (* [Unbound s x]: no scope on the chain of s defines x *)
  Inductive Unbound : nat -> name -> Prop :=
  | U_root s sc x :
      nth_error scs s = Some sc -> store_has x (sc_store sc) = false ->
      sc_parent sc = None -> Unbound s x
  | U_up s sc p x :
      nth_error scs s = Some sc -> store_has x (sc_store sc) = false ->
      sc_parent sc = Some p -> Unbound p x -> Unbound s x.

  (* [Chain s t]: t is s or one of its ancestors *)
  Inductive Chain : nat -> nat -> Prop :=
  | C_refl s : Chain s s
  | C_up s sc p t : nth_error scs s = Some sc -> sc_parent sc = Some p -> Chain p t -> Chain s t.

  (* the variable x of scope t *)
  Definition var_of (t : nat) (x : name) : option val :=
    match nth_error scs t with Some sc => store_get x (sc_store sc) | None => None end.
End Lookup.

(* parents are created before their children (true of every state built by NewScope,
   NewScopeWithParent, NewChild, and SetParentOfScope on a fresh scope) *)
Definition wf_scopes (scs : list scope) : Prop :=
  forall i sc p, nth_error scs i = Some sc -> sc_parent sc = Some p -> p < i.

(* names / fields of an access path: no '.' inside *)
Definition nodot (s : bytes) : bool := forallb (fun c => negb (N.eqb c DOT)) s.

Fixpoint join_dot (fs : list bytes) : bytes :=
  match fs with
  | [] => []
  | [f] => f
  | f :: fs' => f ++ DOT :: join_dot fs'
  end.

(* ---- list and finite-map reference operations ----------------------------------- *)
Definition insert_at {A} (l : list A) (i : nat) (v : A) : list A := firstn i l ++ v :: skipn i l.
Definition remove_at {A} (l : list A) (i : nat) : list A := firstn i l ++ skipn (S i) l.
