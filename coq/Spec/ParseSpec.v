(* Spec/ParseSpec.v — what property C07 demands of the result of parser.Parse.

   Written from the language description (ecal.md: expressions, assignments, import, sink,
   func, return, if/elif/else, for, try/except/otherwise/finally, mutex), from the template
   keys of the pretty printer ("plus_1", "plus_2", "import_2", "function_3", ... : node kind
   and number of children) and from the child accesses of the runtime components in
   interpreter/rt_*.go (Children[0], Children[1], "last child is the finally block", ...).
   It does not mention parser.go.

   A tree is well formed when every node has a known kind and its children have the number
   and the kinds that kind requires.  Value-level demands that validation and evaluation
   check themselves and report as errors (the target of := is an identifier or a list, the
   head of a for-in loop is a variable, the entries of a map literal are key:value pairs) are
   not part of this structural predicate. *)
From Coq Require Import List String Bool Arith BinInt.
From Ecal Require Import Common.Ast.
Import ListNotations.
Local Open Scope string_scope.
Local Open Scope nat_scope.
Local Open Scope list_scope.

Definition mem (x : string) (l : list string) : bool := existsb (String.eqb x) l.

(* terminals: no children *)
Definition leaf_kinds : list string :=
  ["number"; "string"; "true"; "false"; "null"; "break"; "continue"].
(* prefix operators and sink attributes: exactly one operand *)
Definition unary_kinds : list string :=
  ["not"; "let"; "kindmatch"; "scopematch"; "statematch"; "priority"; "suppresses"].
(* + and - are prefix or infix *)
Definition sign_kinds : list string := ["plus"; "minus"].
(* infix operators, key:value pairs, parameter presets: exactly two operands *)
Definition binary_kinds : list string :=
  [">="; "<="; "!="; "=="; ">"; "<"; "kvp"; "preset"; "times"; "div"; "divint"; "modint";
   ":="; "and"; "or"; "like"; "in"; "hasprefix"; "hassuffix"; "notin"].
(* sequences: any number of children *)
Definition seq_kinds : list string := ["funccall"; "list"; "map"; "params"; "statements"].

(* children of an identifier: any number of calls / bracket accesses, then at most one
   further identifier (the next segment of a dotted path, which carries the rest) *)
Fixpoint drop_accesses (ks : list string) : list string :=
  match ks with
  | k :: r => if mem k ["funccall"; "compaccess"] then drop_accesses r else ks
  | [] => []
  end.
Definition ident_kids (ks : list string) : bool :=
  match drop_accesses ks with
  | [] => true
  | [k] => String.eqb k "identifier"
  | _ => false
  end.

(* if: one or more (guard, statements) pairs *)
Fixpoint guard_pairs (ks : list string) : bool :=
  match ks with
  | [] => true
  | g :: s :: r => String.eqb g "guard" && String.eqb s "statements" && guard_pairs r
  | _ => false
  end.

(* try: statements, then except blocks, then optionally otherwise, then optionally finally *)
Fixpoint drop_kind (kind : string) (ks : list string) : list string :=
  match ks with
  | k :: r => if String.eqb k kind then drop_kind kind r else ks
  | [] => []
  end.
Definition try_tail (ks : list string) : bool :=
  match drop_kind "except" ks with
  | [] => true
  | [k] => mem k ["otherwise"; "finally"]
  | [k1; k2] => String.eqb k1 "otherwise" && String.eqb k2 "finally"
  | _ => false
  end.

(* except: error names (strings), optionally "as <identifier>" or a bare identifier, the block *)
Definition except_kids (ks : list string) : bool :=
  match drop_kind "string" ks with
  | [s] => String.eqb s "statements"
  | [b; s] => mem b ["as"; "identifier"] && String.eqb s "statements"
  | _ => false
  end.

(* sink: name, attributes, block last *)
Definition sink_kids (ks : list string) : bool :=
  match ks with
  | n :: r => String.eqb n "identifier" &&
              match rev r with s :: _ => String.eqb s "statements" | [] => false end
  | [] => false
  end.

Definition list_eqb (a b : list string) : bool :=
  Nat.eqb (List.length a) (List.length b) && forallb (fun p => String.eqb (fst p) (snd p)) (combine a b).

(* the shapes a node kind allows, given the kinds of the children: one entry per group of kinds *)
Definition shapes (name : string) (kids : list string) : list bool := [
  mem name leaf_kinds && Nat.eqb (List.length kids) 0;
  mem name unary_kinds && Nat.eqb (List.length kids) 1;
  mem name sign_kinds && (Nat.eqb (List.length kids) 1 || Nat.eqb (List.length kids) 2);
  mem name binary_kinds && Nat.eqb (List.length kids) 2;
  mem name seq_kinds;
  String.eqb name "identifier" && ident_kids kids;
  String.eqb name "compaccess" && Nat.eqb (List.length kids) 1;
  String.eqb name "guard" && Nat.eqb (List.length kids) 1;
  String.eqb name "import" && list_eqb kids ["string"; "identifier"];
  String.eqb name "sink" && sink_kids kids;
  String.eqb name "function" &&
    (list_eqb kids ["params"; "statements"] || list_eqb kids ["identifier"; "params"; "statements"]);
  String.eqb name "return" && Nat.leb (List.length kids) 1;
  String.eqb name "if" && negb (Nat.eqb (List.length kids) 0) && guard_pairs kids;
  String.eqb name "loop" &&
    (list_eqb kids ["guard"; "statements"] || list_eqb kids ["in"; "statements"]);
  String.eqb name "try" &&
    match kids with s :: r => String.eqb s "statements" && try_tail r | [] => false end;
  String.eqb name "except" && except_kids kids;
  String.eqb name "as" && list_eqb kids ["identifier"];
  String.eqb name "otherwise" && list_eqb kids ["statements"];
  String.eqb name "finally" && list_eqb kids ["statements"];
  String.eqb name "mutex" && list_eqb kids ["identifier"; "statements"]
].

(* the kind is known and the children match one of the shapes the kind allows *)
Definition shape_ok (name : string) (kids : list string) : bool :=
  existsb (fun b => b) (shapes name kids).

(* every node of the tree has an allowed shape; a missing (nil) child is serialised by the
   harness as a node of kind "<nil>", which is no kind at all *)
Fixpoint wfb (n : node) : bool :=
  match n with
  | Node name _ _ _ _ cs => shape_ok name (map n_name cs) && forallb wfb cs
  end.

Definition wf (n : node) : Prop := wfb n = true.

(* ---- the result of a parse ------------------------------------------------------- *)

(* a parser error (Go ints: the column the lexer computes can be <= 0): class (1 unexpected end, 2 lexical error, 3 unknown term, 4 term cannot
   start an expression, 5 term can only start an expression, 6 unexpected term), line, column *)
Record perr := E { e_kind : nat; e_line : nat; e_pos : Z }.

(* "either a positioned error and no tree, or a tree and no error" *)
Definition exclusive (t : option node) (e : option perr) : Prop :=
  (exists n, t = Some n /\ e = None) \/ (exists x, t = None /\ e = Some x).

Definition exclusiveb (t : option node) (e : option perr) : bool :=
  match t, e with Some _, None => true | None, Some _ => true | _, _ => false end.

(* the error carries the (line, column) of one of the given positions; the end of the input
   is reported as the zero position (printed without a line by Error()) *)
Definition positioned (e : perr) (positions : list (nat * Z)) : Prop :=
  In (e_line e, e_pos e) ((0, 0%Z) :: positions).
