(* Spec/PrioritySpec.v — what property C10 demands, written from the property text.

   (1) Root monitor's highest-priority report: "equals the lowest number among its monitors
       that were activated by a triggering event and have not finished (-1 if none)".
   (2) Taking the next event of a cascade: "the one with the lowest priority number among the
       events queued for that cascade, oldest first among equals".
   (3) Rule sequence of one event: "one after another in ascending priority number"; with
       fail-on-first-error "no further rule runs for an event after one of its rules failed,
       yet events the failing rule had added are still processed; with it disabled every
       triggered rule runs and all failures are reported". *)
From Coq Require Import List ZArith Bool Sorting.Sorted Permutation.
From Ecal Require Import Model.Monitor.
Import ListNotations.
Open Scope Z_scope.

(* ---- (1) monitors ------------------------------------------------------------------ *)
(* A history is the sequence of monitor API calls made on one cascade.  Monitor handles are
   creation indices: 0 = the root monitor (priority 0), then one per NewChild. *)
Definition created (hist : list op) : list Z :=
  0 :: flat_map (fun o => match o with NewChild p => [p] | _ => [] end) hist.

Definition prio_in (hist : list op) (m : nat) (p : Z) : Prop := nth_error (created hist) m = Some p.

(* activated by a triggering event (AddEvent calls Activate exactly for those; a
   non-triggering event makes it call Skip) and not finished *)
Definition active_in (hist : list op) (m : nat) : Prop :=
  In (Activate m) hist /\ ~ In (Finish m) hist.

Definition HighestIs (hist : list op) (v : Z) : Prop :=
  (v = -1 /\ forall m, ~ active_in hist m) \/
  (exists m, active_in hist m /\ prio_in hist m v /\
             forall m' p', active_in hist m' -> prio_in hist m' p' -> v <= p').

(* The API protocol (the assertions of monitor.go say the same): a monitor is activated or
   skipped at most once, and only an existing one; it is finished once, after its activation. *)
Definition op_allowed (done : list op) (o : op) : Prop :=
  match o with
  | NewChild _ => True
  | Activate m | Skip m =>
      (m < length (created done))%nat /\ ~ In (Activate m) done /\ ~ In (Skip m) done
  | Finish m => In (Activate m) done /\ ~ In (Finish m) done
  end.

Fixpoint protocol_from (done rest : list op) : Prop :=
  match rest with
  | [] => True
  | o :: r => op_allowed done o /\ protocol_from (done ++ [o]) r
  end.
Definition protocol_ok (hist : list op) : Prop := protocol_from [] hist.

(* ---- (2) taking the next event of a cascade ------------------------------------------- *)
From Ecal Require Import Model.TaskQueue.

(* what is queued for one cascade, in arrival order (oldest first): (priority number, task) *)
Definition qitem := (Z * nat)%type.

(* [x] is taken out of [l], leaving [r]: everything older has a strictly larger priority
   number, everything newer a larger or equal one — "the lowest priority number among the
   events queued for that cascade, oldest first among equals" *)
Definition Takes (l : list qitem) (x : qitem) (r : list qitem) : Prop :=
  exists a b, l = a ++ x :: b /\ r = a ++ b /\
              (forall y, In y a -> fst x < fst y) /\ (forall y, In y b -> fst x <= fst y).

(* executable form *)
Fixpoint pick (l : list qitem) : option (qitem * list qitem) :=
  match l with
  | [] => None
  | x :: t => match pick t with
              | None => Some (x, [])
              | Some (y, t') => if Z.ltb (fst y) (fst x) then Some (y, x :: t') else Some (x, t)
              end
  end.

Definition squeues := nat -> list qitem.
Definition sq_set (S : squeues) (k : nat) (l : list qitem) : squeues :=
  fun k' => if Nat.eqb k' k then l else S k'.

(* priorities are >= 0, the queue clamps negative ones *)
Definition clamp (p : Z) : Z := if Z.ltb p 0 then 0 else p.

Inductive spec_step : squeues -> tq_label -> squeues -> Prop :=
| SPush S root prio task : spec_step S (TPush root prio task) (sq_set S root (S root ++ [(clamp prio, task)]))
| SPop S cleaned root task x r : Takes (S root) x r -> snd x = task ->
    spec_step S (TPop cleaned root task) (sq_set S root r)
| SPopNil S cleaned : (forall k, S k = []) -> spec_step S (TPopNil cleaned) S.

Inductive spec_run : squeues -> list tq_label -> squeues -> Prop :=
| SRnil S : spec_run S [] S
| SRcons S l S1 t S2 : spec_step S l S1 -> spec_run S1 t S2 -> spec_run S (l :: t) S2.

(* ---- (3) the rule sequence of one event ----------------------------------------------- *)
Definition prio_le (a b : rule) : Prop := r_prio a <= r_prio b.

Definition RuleSequence (flag : bool) (triggered executed : list rule) (errors : list nat) : Prop :=
  exists order, Permutation order triggered /\ StronglySorted prio_le order /\
    if flag then
      ((forall r, In r order -> r_fails r = false) /\ executed = order /\ errors = []) \/
      (exists a r b, order = a ++ r :: b /\ (forall x, In x a -> r_fails x = false) /\ r_fails r = true /\
                     executed = a ++ [r] /\ errors = [r_id r])
    else executed = order /\ errors = map r_id (filter r_fails order).
