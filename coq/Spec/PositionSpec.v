(* Spec/PositionSpec.v — what C18 demands, written from the property text:
   "Every token's reported line and column equal the line and column (bytes, from 1) of its
    first character in the source text".

   The line/column of byte offset [off] in a text:
     line = 1 + number of newline bytes (10) among the first [off] bytes,
     col  = 1 + off - (offset just after the last such newline, 0 if there is none).
   [linecol_walk] is the same thing the way an editor counts: walk over the first [off]
   bytes starting at (1,1); a newline moves to (line+1, 1), any other byte to (line, col+1).
   Proofs/LexerProofs.v proves the two equal (linecol_walk_eq).  Columns count bytes. *)
From Coq Require Import ZArith.
From Ecal Require Import Common.Bytes.
Open Scope N_scope.

Definition NL : N := 10.

(* number of newlines in input[0, off) *)
Fixpoint nl_count (input : bytes) (off : nat) : nat :=
  match off with
  | O => O
  | S q => if nth q input 0 =? NL then S (nl_count input q) else nl_count input q
  end.

(* offset just after the last newline in input[0, off); 0 if there is none *)
Fixpoint nl_last (input : bytes) (off : nat) : nat :=
  match off with
  | O => O
  | S q => if nth q input 0 =? NL then S q else nl_last input q
  end.

Definition linecol (input : bytes) (off : nat) : Z * Z :=
  (1 + Z.of_nat (nl_count input off), 1 + Z.of_nat off - Z.of_nat (nl_last input off))%Z.

Fixpoint walk (s : bytes) (n : nat) (line col : Z) : Z * Z :=
  match n, s with
  | S k, b :: t => if b =? NL then walk t k (line + 1)%Z 1%Z else walk t k line (col + 1)%Z
  | _, _ => (line, col)
  end.

Definition linecol_walk (input : bytes) (off : nat) : Z * Z := walk input off 1%Z 1%Z.

(* the text of length n found at offset off *)
Definition text_at (input : bytes) (off n : nat) : bytes := firstn n (skipn off input).

(* "Pos is the byte offset of the token's first character", as far as it can be said from
   the token alone.  [kind]: 0 = the token's text is its value (identifier, keyword, symbol,
   number), 1 = quoted or raw string (Pos is the opening quote, or the r before it),
   2 = line comment (value = the text following the # at Pos-1), 3 = block comment (value =
   the text following the slash-star that ends at Pos). *)
Definition byte_at (input : bytes) (i : nat) : option N := nth_error input i.

Definition opt_is (o : option N) (b : N) : bool :=
  match o with Some x => x =? b | None => false end.

Definition anchored (input : bytes) (kind pos : nat) (val : bytes) : bool :=
  match kind with
  | 0%nat => negb (Nat.eqb (length val) 0) && bytes_eqb (text_at input pos (length val)) val
  | 1%nat => opt_is (byte_at input pos) 34 || opt_is (byte_at input pos) 39
             || (opt_is (byte_at input pos) 114
                 && (opt_is (byte_at input (S pos)) 34 || opt_is (byte_at input (S pos)) 39))
  | 2%nat => Nat.leb 1 pos && opt_is (byte_at input (pos - 1)) 35
             && bytes_eqb (text_at input pos (length val)) val
  | _ => Nat.leb 2 pos && opt_is (byte_at input (pos - 2)) 47 && opt_is (byte_at input (pos - 1)) 42
         && bytes_eqb (text_at input pos (length val)) val
  end.
