(* Spec/CascadeSpec.v — what C02 demands, written from the property text and engine.md
   ("AddEventAndWait ... waits for the resulting event cascade to finish", "the finish
   handler is called once the monitor has finished", "AllErrors returns all errors which
   have been collected"), over the observables of a system state:

     returned actions and their results   m_stamps   (ghost: written when an action returns)
     AllErrors()                           r_errors + the ErrorMap of each listed monitor
     finished messages / handler calls     r_posted, r_handler
     the waiter was released               r_released  (wg.Done called), r_apc = ARet (call returned)
     IsFinished of a monitor               not (unfinb phase)
     assertion panics                      s_panic                                              *)
From Ecal Require Export Model.Cascade.

(* nothing of cascade r runs, is queued or can still start: every monitor created under r has
   been counted down (a monitor is counted down only after ProcessEvent for it returned) *)
Definition quiet (s : state) (r : nat) : Prop :=
  forall m M, mons s m = Some M -> m_root M = r -> unfinb (m_phase M) = false.

(* "the call returns only after every rule action ... has returned": the waiter is released
   (and so the call can return) only in quiet states *)
Definition spec_wait (s : state) : Prop :=
  forall r R, roots s r = Some R -> r_released R = true -> quiet s r.

(* a waiting call that has returned for a triggering event was released *)
Definition spec_return (s : state) : Prop :=
  forall r R, roots s r = Some R -> r_wait R = true -> r_trig R = true -> r_apc R = ARet -> r_released R = true.

(* "the finish notification fires exactly once": never more than once ... *)
Definition spec_at_most_once (s : state) : Prop :=
  forall r R, roots s r = Some R -> r_posted R <= 1 /\ r_handler R <= 1 /\ (r_posted R = 1 -> quiet s r).

(* ... and once the cascade has nothing left to do, exactly once *)
Definition spec_exactly_once (s : state) : Prop :=
  forall r R, roots s r = Some R -> settledb s r = true ->
    r_posted R = 1 /\ r_handler R = b2n (r_trig R) /\ (r_wait R = true -> r_trig R = true -> r_released R = true).

(* "every monitor that was handed to the processor with an event ends finished" *)
Definition spec_all_finished (s : state) : Prop :=
  forall r R, roots s r = Some R -> 1 <= r_posted R -> quiet s r.

(* "the error report holds exactly one entry per (event, rule) whose action returned an error,
   attributed to that event and rule, and nothing belonging to another cascade" *)
Definition spec_errors (s : state) : Prop :=
  forall r R, roots s r = Some R -> 1 <= r_posted R ->
    NoDup (r_errors R) /\
    forall m, In m (r_errors R) <->
              exists M, mons s m = Some M /\ m_root M = r /\ failed_of M <> [].
(* the ErrorMap reported for a listed monitor m is [failed_of M]: the rules of m's event whose
   action returned an error ([all_errors]) *)

Definition spec_no_panic (s : state) : Prop := s_panic s = None.

(* "it does return whenever the actions terminate and a worker is available": an unsettled
   cascade always has an enabled step.  LPop being enabled for a queued task is the
   assumption on the pool ("an idle worker takes a queued task", C09); every started action
   can end (LActEnd) is the assumption that actions terminate. *)
Definition label_mon (l : label) : nat :=
  match l with
  | LNewRoot r _ | LObsWaiter r | LObsHandler r | LCleanup r | LAdderNext r | LWaitReturn r => r
  | LSkip m | LActivate m | LPush m | LPop m | LActStart m _ | LChild m _ | LActEnd m _ _
  | LProcEnd m | LErrAttach m | LFinish m | LPost m | LWaiterDone m | LHandler m | LCbRemove m
  | LTqCheck m => m
  end.
Definition of_root (s : state) (l : label) (r : nat) : Prop :=
  match l with
  | LNewRoot _ _ => False
  | _ => exists M, mons s (label_mon l) = Some M /\ m_root M = r
  end.
Definition spec_progress (s : state) : Prop :=
  forall r R, roots s r = Some R -> settledb s r = false ->
    exists l s', step s l = Some s' /\ of_root s l r.
