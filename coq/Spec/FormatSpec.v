(* Spec/FormatSpec.v — C08.  What the property demands of a formatter, written from the
   property text: "the pretty-printed text parses again to a tree equal to the original up to
   token positions, comments and blank lines: same node kinds, values, nesting and
   raw-versus-interpolating string kind ... Pretty printing that result again yields the same
   text."  Stated for an arbitrary printer / parser pair over an arbitrary token type, so it
   does not depend on how the model prints. *)
From Coq Require Import List.
From Ecal Require Import Common.Ast.

Section FormatSpec.
  Variable tokens : Type.
  Variable print : node -> tokens.
  Variable parse : tokens -> option node.
  (* the part of a tree the property speaks about: kinds, values, nesting, string kind *)
  Variable observable : node -> node.

  (* formatting preserves the program *)
  Definition RoundTrip (t : node) : Prop := parse (print t) = Some (observable t).

  (* formatting the formatted program changes nothing *)
  Definition Idempotent (t : node) : Prop :=
    exists t', parse (print t) = Some t' /\ print t' = print t.

  (* the format tool never replaces a file by text that does not parse, or parses differently *)
  Definition FormatSafe (t : node) : Prop :=
    exists t', parse (print t) = Some t' /\ observable t' = observable t.
End FormatSpec.

(* String literals: printing a value of either kind and lexing the literal gives back the
   value and the kind (whatever follows the literal in the input). *)
Section LiteralSpec.
  Variable print_lit : bool -> bytes -> bytes.
  Variable lex_lit : bytes -> option (bytes * bool * bytes).

  Definition LiteralRoundTrip (allow : bool) (v : bytes) : Prop :=
    forall rest, lex_lit (print_lit allow v ++ rest) = Some (v, allow, rest).
End LiteralSpec.
