(* Spec/RuleSpec.v — what property C01 demands: which rules fire for an event.
   Written from the property text and engine.md ("Rules", "Events", "Processor"), not from
   the code.  It also fixes the vocabulary (values, rules, events, scope definitions) that
   the models in Model/RuleIndex.v, Model/RuleScope.v and Model/Processor.v use.

   Strings (kind / scope segments, state keys, names, string values) are numeric ids; the
   harness maps them injectively.  Segment id 0 is the wildcard "*".
   Regular expressions are oracle ids: [rx id v] says whether regex [id] matches value [v]
   (a Section variable in every theorem; a table measured on the implementation in the
   correspondence cases). *)
From Coq Require Export List NArith ZArith Bool Arith Lia.
Export ListNotations.
Open Scope N_scope.

Definition seg := N.
Definition WILD : seg := 0.                 (* "*" *)
Definition path := list seg.                (* a dotted name, split at "." *)

(* Event state values and required values.  Lists and maps are reference objects for
   which neither Go nor ECAL defines an equality: they are equal to nothing. *)
Inductive value :=
| VNull | VBool (b : bool) | VNum (z : Z) | VStr (s : N) | VList (id : N) | VMap (id : N).

Definition val_equal (a b : value) : bool :=
  match a, b with
  | VNull, VNull => true
  | VBool x, VBool y => Bool.eqb x y
  | VNum x, VNum y => Z.eqb x y
  | VStr x, VStr y => N.eqb x y
  | _, _ => false
  end.

(* A state requirement of a rule: a value (VNull = NULL, the wildcard) or a regex. *)
Inductive req := RVal (v : value) | RRegex (id : N).

Record rule := mkRule {
  r_name : N;
  r_kinds : list path;                      (* KindMatch, each split at "." *)
  r_scopes : list path;                     (* ScopeMatch, each split at "." *)
  r_state : option (list (N * req));        (* StateMatch: None = no state match *)
  r_prio : Z;
  r_suppress : list N                       (* SuppressionList: rule names *)
}.

Record event := mkEvent {
  e_name : N;
  e_kind : path;
  e_state : list (N * value)                (* string-keyed entries of the event state *)
}.

Fixpoint assoc {A} (k : N) (l : list (N * A)) : option A :=
  match l with
  | [] => None
  | (k', a) :: l' => if k' =? k then Some a else assoc k l'
  end.

Definition memN (x : N) (l : list N) : bool := existsb (N.eqb x) l.

(* ---- kind pattern: segment by segment, "*" any one segment, same number of segments *)
Fixpoint kind_matches (p k : path) : bool :=
  match p, k with
  | [], [] => true
  | s :: p', t :: k' => ((s =? WILD) || (s =? t)) && kind_matches p' k'
  | _, _ => false
  end.

Section Spec.
  Variable rx : N -> value -> bool.

  (* ---- state pattern: every required key present; NULL matches any value, otherwise an
     equal value or a matching regular expression *)
  Definition req_ok (rq : req) (ov : option value) : bool :=
    match ov with
    | None => false
    | Some v =>
      match rq with
      | RVal VNull => true
      | RVal w => val_equal w v
      | RRegex id => rx id v
      end
    end.

  Definition state_matches (r : rule) (ev : event) : bool :=
    match r_state r with
    | None => true
    | Some st => forallb (fun kr => req_ok (snd kr) (assoc (fst kr) (e_state ev))) st
    end.

  Definition rule_matches (r : rule) (ev : event) : bool :=
    existsb (fun p => kind_matches p (e_kind ev)) (r_kinds r) && state_matches r ev.

  (* the rules an index must return for an event *)
  Definition spec_matches (rules : list rule) (ev : event) : list rule :=
    filter (fun r => rule_matches r ev) rules.

  (* ---- scope: a cascade scope is a set of definitions path -> allow/deny (a later
     definition of the same path replaces an earlier one); a path is allowed iff the
     longest defined prefix of it says so; nothing defined: not allowed *)
  Definition scope_defs := list (path * bool).

  Fixpoint path_eqb (a b : path) : bool :=
    match a, b with
    | [], [] => true
    | x :: a', y :: b' => (x =? y) && path_eqb a' b'
    | _, _ => false
    end.

  Fixpoint scope_def (defs : scope_defs) (p : path) : option bool :=
    match defs with
    | [] => None
    | (q, b) :: defs' =>
      match scope_def defs' p with
      | Some b' => Some b'
      | None => if path_eqb q p then Some b else None
      end
    end.

  (* all prefixes, shortest first *)
  Fixpoint prefixes (p : path) : list path :=
    match p with
    | [] => [[]]
    | s :: p' => [] :: map (cons s) (prefixes p')
    end.

  Fixpoint last_defined (F : path -> option bool) (ps : list path) (acc : bool) : bool :=
    match ps with
    | [] => acc
    | q :: ps' => last_defined F ps' (match F q with Some b => b | None => acc end)
    end.

  Definition scope_allowed (defs : scope_defs) (p : path) : bool :=
    last_defined (scope_def defs) (prefixes p) false.

  Definition in_scope (defs : scope_defs) (r : rule) : bool :=
    forallb (scope_allowed defs) (r_scopes r).

  (* ---- the rules that fire *)
  Definition candidate (defs : scope_defs) (ev : event) (r : rule) : bool :=
    rule_matches r ev && in_scope defs r.

  (* named in the suppression list of ANOTHER matching, in-scope rule *)
  Definition suppressed (defs : scope_defs) (rules : list rule) (ev : event) (r : rule) : bool :=
    existsb (fun r' => negb (r_name r' =? r_name r) && candidate defs ev r'
                       && memN (r_name r) (r_suppress r')) rules.

  Definition fires (defs : scope_defs) (rules : list rule) (ev : event) : list rule :=
    filter (fun r => candidate defs ev r && negb (suppressed defs rules ev r)) rules.
End Spec.

(* ---- domain of the property *)
Definition names (rules : list rule) : list N := map r_name rules.

(* what Go's types guarantee for a rule accepted by AddRule: at least one kind pattern,
   strings.Split never returns an empty slice, StateMatch is a map (distinct keys) *)
Definition wf_rule (r : rule) : Prop :=
  r_kinds r <> [] /\ (forall p, In p (r_kinds r) -> p <> []) /\
  match r_state r with Some st => NoDup (map fst st) | None => True end.

Definition wf_rules (rules : list rule) : Prop :=
  NoDup (names rules) /\ Forall wf_rule rules.

(* "another such rule": a rule naming itself in its suppression list is outside the domain *)
Definition no_self_suppress (rules : list rule) : Prop :=
  forall r, In r rules -> memN (r_name r) (r_suppress r) = false.
