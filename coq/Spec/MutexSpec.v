(* Spec/MutexSpec.v — what C12 demands, written from the property text (no reference to
   the implementation's tables):

   "At any moment at most one thread executes inside mutex blocks carrying the same name,
    while blocks with different names do not exclude each other; a thread already inside a
    block may enter a nested block of the same name without blocking.  The mutex is
    released on every way out of the block (normal end, error, return, break, continue),
    so a later entrant always gets in and shared variables updated only inside such
    blocks never lose an update."

   The Spec speaks about (1) a view "thread i is inside name n" of a system state and
   (2) the sequence of block entries and exits seen by an observer (occupancy events). *)
From Coq Require Export List NArith Bool Arith.
Export ListNotations.

(* (1) state view: inside i n = thread number i executes inside a block named n *)
Definition Exclusive (inside : nat -> N -> Prop) : Prop :=
  forall i j n, inside i n -> inside j n -> i = j.

(* (2) occupancy events: thread t enters / leaves a block named n *)
Inductive occ_event := OccEnter (t n : N) | OccLeave (t n : N).

(* occupant and nesting depth per name; depth 0 = nobody inside *)
Definition occ := N -> (N * nat).
Definition occ_empty : occ := fun _ => (0%N, 0).

Definition occ_upd (o : occ) (n : N) (v : N * nat) : occ :=
  fun m => if N.eqb m n then v else o m.

(* An entry is acceptable when nobody is inside the name or the entering thread itself is
   (nesting); an exit must be made by the occupant.  Names never interact. *)
Definition occ_step (o : occ) (e : occ_event) : option occ :=
  match e with
  | OccEnter t n =>
      let '(h, d) := o n in
      match d with
      | O => Some (occ_upd o n (t, 1))
      | S _ => if N.eqb h t then Some (occ_upd o n (t, S d)) else None
      end
  | OccLeave t n =>
      let '(h, d) := o n in
      match d with
      | O => None
      | S d' => if N.eqb h t then Some (occ_upd o n (t, d')) else None
      end
  end.

Fixpoint occ_run (o : occ) (tr : list occ_event) : option occ :=
  match tr with
  | [] => Some o
  | e :: r => match occ_step o e with Some o' => occ_run o' r | None => None end
  end.

(* a trace respects the exclusion demand *)
Definition occ_ok (tr : list occ_event) : bool :=
  match occ_run occ_empty tr with Some _ => true | None => false end.

(* index of the first event that breaks it (diagnostics) *)
Fixpoint occ_first_bad (o : occ) (tr : list occ_event) (i : nat) : option nat :=
  match tr with
  | [] => None
  | e :: r => match occ_step o e with Some o' => occ_first_bad o' r (S i) | None => Some i end
  end.

(* everybody has left every name at the end of the trace (release matches entry) *)
Definition occ_all_left (tr : list occ_event) (names : list N) : bool :=
  match occ_run occ_empty tr with
  | Some o => forallb (fun n => Nat.eqb (snd (o n)) 0) names
  | None => false
  end.
