(* Spec/ExprSemSpec.v — what property C03 demands of the VALUE of an operator application,
   written from the property text:

     "float arithmetic with `//` as floor division and `%` as integer remainder, numeric (or,
      for strings, lexical) comparison, and/or/not over booleans, like/hasPrefix/hasSuffix
      on strings, in/notin on lists ... an arithmetic or boolean operator applied to an
      operand of the wrong kind yields a runtime error that names the operand, not a value."

   [spec_bin o a b r] : the outcome r is what the text demands for `a o b`.  Where the text
   is silent (comparison of operands of different kinds, string operators on non-strings,
   `%` with a zero divisor or beyond the int64 range, lists inside lists) every outcome is
   allowed; [fixed_bin] says where the text does determine the outcome.  When both operands
   of an arithmetic/boolean operator are of the wrong kind the text does not say which one
   is named: either is allowed. *)
From Coq Require Import List String NArith ZArith Bool Arith Floats.
From Ecal Require Import Common.Bytes Model.Expr Spec.ExprGrammarSpec.
Import ListNotations.
Local Open Scope Z_scope.

(* the documented outcome: a value, or an error of a class naming operand 0 / 1 *)
Inductive sres := SVal (v : value) | SErr (c : ecls) (operand : nat).

Definition is_num (v : value) : bool := match v with VNum _ => true | _ => false end.
Definition is_bool (v : value) : bool := match v with VBool _ => true | _ => false end.
Definition is_scalar (v : value) : bool := match v with VList _ => false | _ => true end.

(* floor of the rational (+-m) * 2^e, e < 0: Z.div rounds towards minus infinity *)
Definition spec_floorZ (neg : bool) (m : positive) (e : Z) : Z :=
  (if neg then Z.neg m else Z.pos m) / 2 ^ (- e).

(* the mathematical floor of a float, as a float: integral floats (e >= 0), zeros,
   infinities and NaN are their own floor *)
Definition spec_floor (x : float) : float :=
  match Prim2SF x with
  | S754_finite s m e =>
    if 0 <=? e then x
    else let z := spec_floorZ s m e in
         if z <? 0 then PrimFloat.opp (float_of_Z (- z)) else float_of_Z z
  | _ => x
  end.

(* integer remainder of the operands truncated to integers (sign of the dividend), defined
   for a non-zero divisor and operands within the int64 range *)
Definition spec_mod (x y : float) : option float :=
  match float_trunc x, float_trunc y with
  | Some a, Some b => if b =? 0 then None else Some (float_of_int64 (a - b * Z.quot a b))
  | _, _ => None
  end.

Definition spec_arith (o : binop) (x y : float) : option (option float) :=
  match o with
  | OPlus => Some (Some (PrimFloat.add x y))
  | OMinus => Some (Some (PrimFloat.sub x y))
  | OTimes => Some (Some (PrimFloat.mul x y))
  | ODiv => Some (Some (PrimFloat.div x y))
  | ODivInt => Some (Some (spec_floor (PrimFloat.div x y)))
  | OModInt => Some (spec_mod x y)
  | _ => None
  end.

Definition spec_numcmp (o : binop) (x y : float) : option bool :=
  match o with
  | OGeq => Some (PrimFloat.leb y x) | OGt => Some (PrimFloat.ltb y x)
  | OLeq => Some (PrimFloat.leb x y) | OLt => Some (PrimFloat.ltb x y)
  | _ => None
  end.
(* lexical order on byte strings *)
Fixpoint lex_lt (a b : bytes) : bool :=
  match a, b with
  | _, [] => false
  | [], _ :: _ => true
  | x :: a', y :: b' => if (x <? y)%N then true else if (y <? x)%N then false else lex_lt a' b'
  end.
Definition spec_strcmp (o : binop) (a b : bytes) : option bool :=
  match o with
  | OGeq => Some (negb (lex_lt a b)) | OGt => Some (lex_lt b a)
  | OLeq => Some (negb (lex_lt b a)) | OLt => Some (lex_lt a b)
  | _ => None
  end.

(* equality of scalar values of the same kind *)
Definition scalar_eq (a b : value) : option bool :=
  match a, b with
  | VNull, VNull => Some true
  | VBool x, VBool y => Some (Bool.eqb x y)
  | VNum x, VNum y => Some (PrimFloat.eqb x y)
  | VStr x, VStr y => Some (bytes_eqb x y)
  | _, _ => None
  end.
(* ... and across kinds: values of different kinds are different *)
Definition scalar_eq_any (a b : value) : bool :=
  match scalar_eq a b with Some r => r | None => false end.

Section Spec.
  Variable rx : list (bytes * bytes * option bool).

  Definition wrong (isk : value -> bool) (c : ecls) (a b : value) (r : sres) : Prop :=
    match r with
    | SErr c' 0%nat => c' = c /\ isk a = false
    | SErr c' 1%nat => c' = c /\ isk b = false
    | _ => False
    end.

  Definition spec_bin (o : binop) (a b : value) (r : sres) : Prop :=
    match o with
    | OPlus | OMinus | OTimes | ODiv | ODivInt | OModInt =>
      match a, b with
      | VNum x, VNum y =>
        match spec_arith o x y with
        | Some (Some z) => r = SVal (VNum z)
        | _ => True
        end
      | _, _ => wrong is_num ENotANumber a b r
      end
    | OAnd | OOr =>
      match a, b with
      | VBool x, VBool y => r = SVal (VBool (match o with OAnd => andb x y | _ => orb x y end))
      | _, _ => wrong is_bool ENotABoolean a b r
      end
    | OGeq | OGt | OLeq | OLt =>
      match a, b with
      | VNum x, VNum y => match spec_numcmp o x y with Some t => r = SVal (VBool t) | None => True end
      | VStr x, VStr y => match spec_strcmp o x y with Some t => r = SVal (VBool t) | None => True end
      | _, _ => True
      end
    | OEq | ONeq =>
      if is_scalar a && is_scalar b
      then r = SVal (VBool (match o with OEq => scalar_eq_any a b | _ => negb (scalar_eq_any a b) end))
      else True
    | OHasPrefix =>
      match a, b with VStr x, VStr y => r = SVal (VBool (prefixb y x)) | _, _ => True end
    | OHasSuffix =>
      match a, b with VStr x, VStr y => r = SVal (VBool (prefixb (rev y) (rev x))) | _, _ => True end
    | OLike =>
      match a, b with
      | VStr x, VStr y => match rx_get rx y x with Some (Some t) => r = SVal (VBool t) | _ => True end
      | _, _ => True
      end
    | OIn | ONotIn =>
      match b with
      | VList l =>
        if is_scalar a && forallb is_scalar l
        then r = SVal (VBool (match o with OIn => existsb (scalar_eq_any a) l
                                         | _ => negb (existsb (scalar_eq_any a) l) end))
        else True
      | _ => True
      end
    | OAssign => True
    end.

  Definition spec_pre (o : preop) (a : value) (r : sres) : Prop :=
    match o, a with
    | PNeg, VNum x => r = SVal (VNum (PrimFloat.opp x))
    | PPos, VNum x => r = SVal (VNum x)
    | PNot, VBool x => r = SVal (VBool (negb x))
    | PNot, _ => r = SErr ENotABoolean 0
    | _, _ => r = SErr ENotANumber 0
    end.

  (* where the text determines the outcome (up to the choice of the named operand) *)
  Definition fixed_bin (o : binop) (a b : value) : bool :=
    match o with
    | OPlus | OMinus | OTimes | ODiv | ODivInt => true
    | OModInt =>
      match a, b with
      | VNum x, VNum y => match spec_mod x y with Some _ => true | None => false end
      | _, _ => true
      end
    | OAnd | OOr => true
    | OGeq | OGt | OLeq | OLt =>
      match a, b with VNum _, VNum _ | VStr _, VStr _ => true | _, _ => false end
    | OEq | ONeq => is_scalar a && is_scalar b
    | OHasPrefix | OHasSuffix => match a, b with VStr _, VStr _ => true | _, _ => false end
    | OLike =>
      match a, b with
      | VStr x, VStr y => match rx_get rx y x with Some (Some _) => true | _ => false end
      | _, _ => false
      end
    | OIn | ONotIn =>
      match b with VList l => is_scalar a && forallb is_scalar l | _ => false end
    | OAssign => false
    end.
End Spec.
