(* Spec/IsolationSpec.v — what C11 demands, written from the property text:
   "each invocation sees its own `event` value and its own local variables, and the success
   or failure (type, detail, data) recorded for an invocation is exactly what that
   invocation's code produced for that event.  No invocation's error is lost, duplicated or
   reported for a different event, and the interpreter's own bookkeeping never faults because
   two invocations overlapped."

   The demand does not mention schedules: whatever the overlap, the i-th invocation's
   observation is a function of the i-th event alone.  [produced i ev] is what invocation i's
   code yields for event ev when it runs alone (the index only names the invocation: scope
   and monitor identities). *)
From Coq Require Import List.
Import ListNotations.

Section Spec.
  Variables (event obs : Type).
  Variable produced : nat -> event -> obs.

  (* one observation per invocation, each exactly what its own event dictates *)
  Definition Isolated (evs : list event) (report : list obs) : Prop :=
    length report = length evs /\
    forall i ev, nth_error evs i = Some ev -> nth_error report i = Some (produced i ev).

  (* the same, decided on finite data *)
  Variable obs_eqb : obs -> obs -> bool.

  Fixpoint isolated_from (i : nat) (evs : list event) (report : list obs) : bool :=
    match evs, report with
    | [], [] => true
    | ev :: evs', o :: report' => obs_eqb o (produced i ev) && isolated_from (S i) evs' report'
    | _, _ => false
    end.
  Definition isolatedb := isolated_from 0.
End Spec.

(* The ways of violating the demand that the property text names (for an error report
   [option E]: None = the invocation succeeded). *)
Section Failures.
  Variables (event E : Type).
  Variable produced : nat -> event -> option E.

  (* invocation i's code failed but the report says it succeeded *)
  Definition Lost (evs : list event) (report : list (option E)) (i : nat) : Prop :=
    exists ev e, nth_error evs i = Some ev /\ produced i ev = Some e /\ nth_error report i = Some None.

  (* invocation i's code succeeded but an error is reported for it — the one another
     invocation j produced *)
  Definition Misattributed (evs : list event) (report : list (option E)) (i j : nat) : Prop :=
    i <> j /\
    exists ev evj e, nth_error evs i = Some ev /\ produced i ev = None /\
                     nth_error evs j = Some evj /\ nth_error report i = Some (Some e).

  Lemma Lost_not_Isolated evs report i : Lost evs report i -> ~ Isolated event (option E) produced evs report.
  Proof.
    intros (ev & e & He & Hp & Hr) [_ H]. specialize (H i ev He). rewrite Hr, Hp in H. discriminate.
  Qed.

  Lemma Misattributed_not_Isolated evs report i j :
    Misattributed evs report i j -> ~ Isolated event (option E) produced evs report.
  Proof.
    intros (_ & ev & evj & e & He & Hp & _ & Hr) [_ H]. specialize (H i ev He).
    rewrite Hr, Hp in H. discriminate.
  Qed.
End Failures.
