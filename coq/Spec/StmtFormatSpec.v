(* Spec/StmtFormatSpec.v — C08, statement level.  What the property demands of the formatter
   on whole programs ("the pretty-printed text parses again to a tree equal to the original up
   to token positions ... Pretty printing that result again yields the same text"), stated for
   a printer producing tokens with line breaks and the parser reading tokens with line numbers,
   and the explicit well-formedness guards under which the theorems of Props/C08.v hold. *)
From Coq Require Import List String NArith Bool Arith ZArith.
From Ecal Require Import Common.Bytes Common.Ast gen.Tokens gen.Grammar Model.Printer
     Proofs.PrinterProofs Model.StmtPrinter.
From Ecal Require Model.Parser.
Import ListNotations.
Local Open Scope string_scope.
Local Open Scope nat_scope.

(* ---------------------------------------------------------------------------------- *)
(* Guards *)

(* expression leaves: [wf_expr] of Proofs/PrinterProofs.v (excludes `times` over a right `div`
   and raw strings the printer cannot write raw — known findings) without the EOF terminal *)
Inductive wfe : node -> Prop :=
| WeAtom id v i a ln :
    is_term id || is_ident id = true -> id <> TokenEOF ->
    (Nat.eqb id TokenSTRING = true -> str_allow v a = a) ->
    wfe (Node (name_of id) v i a ln [])
| WeBin id v i a ln l r :
    is_infix id = true -> wfe l -> wfe r -> exempt_at id r = false ->
    wfe (Node (name_of id) v i a ln [l; r])
| WePre id v i a ln x :
    is_prefix id = true -> eligible (name_of id) = true -> wfe x ->
    wfe (Node (name_of id) v i a ln [x]).

(* statement kinds covered by the theorem; the others are in the syntax (and in the printer
   equality) but not in the round-trip theorem *)
Fixpoint wfS (s : stmt) : Prop :=
  match s with
  | SExpr e => wfe e
  | SReturn0 => True
  | SReturn1 e => wfe e
  | SIf g b r => wfe g /\ wfB b /\ wfT r
  | SFor g b => wfe g /\ wfB b
  | SMutex x b => wfB b
  | STry b ex ow fin => False
  | SFunc x ps b => False
  end
with wfB (b : sblock) : Prop :=
  match b with
  | BNil => True
  | BCons s r => wfS s /\ wfB r
  end
with wfT (r : iftail) : Prop :=
  match r with
  | INone => True
  | IElse b => wfB b
  | IElif g b r' =>
    (* a final `elif true` IS the else branch (same embedded tree); it is written IElse *)
    wfe g /\ wfB b /\ wfT r' /\ match r' with INone => n_name g <> NodeTRUE | _ => True end
  end.

Fixpoint last_is_return0 (b : sblock) : bool :=
  match b with
  | BNil => false
  | BCons SReturn0 BNil => true
  | BCons _ r => last_is_return0 r
  end.

(* a program: at least one statement; a bare `return` as the last top-level statement reads
   the end-of-file token as its value when that is on the same line, so no source text that
   parses ends that way *)
Definition wfP (b : sblock) : Prop := b <> BNil /\ wfB b /\ last_is_return0 b = false.

(* ---------------------------------------------------------------------------------- *)
(* The demands *)

Section StmtFormatSpec.
  Variable parse : list Parser.tok -> option node.

  (* every layout of the printed program — first line l0, the EOF token anywhere — is read
     back as the program, up to token positions *)
  Definition StmtRoundTrip (b : sblock) : Prop :=
    forall l0 le epos,
    exists t', parse (source_tokens l0 le epos (pp_prog b)) = Some t' /\ strip t' = embed_prog b.

  (* formatting the formatted program changes nothing *)
  Definition StmtIdempotent (b : sblock) : Prop :=
    forall l0 le epos,
    exists t', parse (source_tokens l0 le epos (pp_prog b)) = Some t' /\ pp t' = pp_prog b.
End StmtFormatSpec.
