(* Spec/ImportSpec.v — what C17 demands, from the property text:

     "For every import path string the file-based import locator either returns the content
      of a file that lies lexically inside its root directory or returns an error.  It never
      opens a path outside the root through `..` segments, absolute paths, repeated or
      trailing separators, or any combination of them, for absolute and relative roots alike."

   "Lexically inside the root directory": the opened path is the root directory itself, in
   its canonical spelling (what filepath.Clean documents: "the shortest path name equivalent
   to path by purely lexical processing"), or is reached from it by descending through
   ordinary entry names only — names that are not empty, contain no separator and are
   neither "." nor "..".  Nothing else ever appears behind the root: no "..", no "." and no
   second separator, so the opened path cannot denote anything above or beside the root.  *)
From Ecal Require Export Model.PathClean.

(* an ordinary directory-entry name *)
Definition plain_name (s : bytes) : Prop :=
  s <> [] /\ ~ In SLASH s /\ s <> DOT /\ s <> DOTDOT.

(* the path of entry [name] of directory [dir] *)
Definition child (dir name : bytes) : bytes :=
  if bytes_eqb dir DOT then name                      (* "." : the current directory *)
  else if bytes_eqb dir [SLASH] then SLASH :: name    (* "/" : the file-system root *)
  else dir ++ SLASH :: name.

(* descend from [dir] through [names] *)
Fixpoint descend (dir : bytes) (names : list bytes) : bytes :=
  match names with
  | [] => dir
  | n :: rest => descend (child dir n) rest
  end.

(* [p] lies lexically inside directory [root] *)
Definition inside (root p : bytes) : Prop :=
  exists names, Forall plain_name names /\ p = descend (clean root) names.

(* The demand on the locator's decision function [res : root -> path -> option opened_path]
   (None = error, nothing opened). *)
Definition confined (res : bytes -> bytes -> option bytes) : Prop :=
  forall root path p, res root path = Some p -> inside root p.

(* A second reading of "lexically inside" that does not mention Clean at all: the position a
   path string denotes when its elements are walked one by one from its starting directory
   (the working directory, or "/" for a rooted path) — how many levels above the start, then
   which names below that (deepest first).  "" and "." stay, ".." leaves the directory entered
   last, or goes one level above the start (at "/" it stays), a name enters. *)
Definition position := (nat * list bytes)%type.

Definition step (rt : bool) (pos : position) (e : bytes) : position :=
  let (u, d) := pos in
  if bytes_eqb e [] then pos
  else if bytes_eqb e DOT then pos
  else if bytes_eqb e DOTDOT then
    match d with
    | _ :: d' => (u, d')
    | [] => if rt then pos else (S u, [])
    end
  else (u, e :: d).

Definition position_of (s : bytes) : position :=
  fold_left (step (rooted s)) (split s) (0%nat, []).

(* [p] denotes the directory [root] denotes, or something reached from it through ordinary names *)
Definition below (root p : bytes) : Prop :=
  rooted p = rooted root /\
  exists names, Forall plain_name names /\
    position_of p = (fst (position_of root), rev names ++ snd (position_of root)).
