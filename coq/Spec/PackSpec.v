(* Spec/PackSpec.v — what C20 demands of the marker scan, written from the property text:
   "For every interpreter binary, of any size and content, and every project directory,
   the file produced by the pack tool, when started, locates the embedded archive ...
   It never falls through to the normal command line, or fails, because the archive
   marker was missed or misread."

   The pack tool (documentation of CLIPacker.Pack: "build a standalone executable from a
   given source binary and the collected files") writes a copy of the binary B, then the
   marker, then a zip archive Z.  Locating the archive = answering the offset of Z's
   first byte, |B| + |marker|.  Nothing here refers to buffers, blocks or reads. *)
From Ecal Require Export Common.Bytes Common.Outcome.

(* the file the pack tool produces *)
Definition packed (marker B Z : bytes) : bytes := B ++ marker ++ Z.

(* where the archive starts in it *)
Definition archive_offset (marker B : bytes) : nat := (length B + length marker)%nat.

(* A zip archive with at least one entry (the pack tool always writes the entry file
   first) starts with the local file header signature "PK". *)
Definition is_zip (Z : bytes) : Prop := exists Z', Z = 80 :: 75 :: Z'.

(* The answer of a scanner: Ok (Some off) = archive found at off, Ok None = this file has
   no archive (the caller then continues with the normal command line), anything else
   (Panic, OutOfFuel = endless loop) = the scanner itself failed. *)
Definition locates (r : outcome (option nat)) (marker B : bytes) : Prop :=
  r = Ok (Some (archive_offset marker B)).

(* The format has one inherent ambiguity that no scanner can resolve: the separator is
   recognised by content, so the first place where the marker text can be read must be
   the one the packer wrote.  That fails exactly when the marker text can already be read
   in B followed by the marker without its last byte (i.e. inside B itself, or straddling
   the end of B and the beginning of the real marker).  The marker is assembled at run
   time in pack.go precisely so that the interpreter binary does not contain it. *)
Definition unambiguous (marker B : bytes) : Prop := ~ occurs marker (B ++ removelast marker).

(* A file that is not a packed executable (the plain interpreter) *)
Definition no_marker (marker F : bytes) : Prop := ~ occurs marker F.
