(* Spec/LexSpec.v — reference semantics (executable, fuelled) of the part of ECAL that
   property C05 talks about, written from the property text and ecal.md:

     global / block / function scopes, `let`, assignment (nearest enclosing definition or
     else define here), functions as first-class closures over their DEFINITION scope,
     positional parameters with defaults (missing arguments: default or null, surplus
     arguments ignored), a fresh frame per call, scalars by value and lists / maps by
     reference, access paths with dot and bracket, len / add / del / concat, object
     templates, `new` with (multiple) inheritance through `super`, `this`, `init`.

   What the reference semantics leaves open is the explicit result [RUnspec] (such programs
   are not compared): keys that the flattened access path cannot represent (strings with
   '.', numeric-looking strings, non number/string keys), use of a list after it was handed
   to add / del ("Only the returned value should be used further", ecal.md), `==` and `<`
   on containers and functions, conditions that are not booleans, and programs that depend
   on what a block left behind at its previous entry (the implementation re-uses the scope
   of a block that is entered again; the Spec gives every entry a new frame and says
   "unspecified" as soon as a lookup would be answered by a left-over variable, or a
   closure created by a superseded entry is called).

   Numbers are integers (Z); the generators only produce small ones. *)
From Coq Require Import ZArith String.
From Ecal Require Import Common.Bytes Model.Scope Model.Builtins Spec.ScopeSpec.
Open Scope nat_scope.

(* ---- syntax ------------------------------------------------------------------------- *)
Inductive binop := OpAdd | OpSub | OpEq | OpLt.
Inductive builtin := BLen | BAdd | BDel | BConcat | BNew.

Inductive expr :=
| ENull
| EBool (b : bool)
| ENum (z : Z)
| EStr (s : bytes)
| EList (es : list expr)
| EMap (kvs : list (expr * expr))
| EPath (x : name) (accs : list acc)                      (* x   x.f   x[e]   x.f[e].g *)
| ECall (x : name) (accs : list acc) (args : list expr)   (* the function found at the path *)
| EBuiltin (b : builtin) (args : list expr)
| EBin (op : binop) (a b : expr)
| EFunc (params : list (name * option expr)) (body : list stmt)
with acc :=
| ADot (f : bytes)
| AIdx (e : expr)
with stmt :=
| SAssign (x : name) (accs : list acc) (e : expr)
| SLet (x : name) (e : expr)
| SFunc (x : name) (params : list (name * option expr)) (body : list stmt)
| SIf (id : nat) (c : expr) (th el : list stmt)           (* id: the block's identity *)
| SFor (id : nat) (x : name) (e : expr) (body : list stmt)
| SReturn (e : expr)
| SExpr (e : expr)
| SMark (e : expr).                                        (* observation point *)

(* ---- state -------------------------------------------------------------------------- *)
Record frame := mkFrame {
  fr_parent : option nat;
  fr_vars : list (name * val);
  fr_block : nat;                 (* 0: a function / global frame; otherwise the block's id *)
  fr_ghost : list name;           (* names earlier entries of this block defined here *)
  fr_stale : bool                 (* a later entry of the same block superseded this frame *)
}.

Record closure := mkClo {
  cl_params : list (name * option expr);
  cl_body : list stmt;
  cl_env : nat;                   (* the frame the function was DEFINED in *)
  cl_this : option val;
  cl_super : option val
}.

Inductive lcell := LList (l : list val) | LMap (m : list (key * val)) | LDead.

Record state := mkState {
  st_frames : list frame;
  st_heap : list lcell;
  st_clos : list closure;
  st_trace : list bytes;          (* most recent first *)
  st_calls : nat
}.

Definition CALL_BUDGET : nat := 60.

Inductive res (A : Type) :=
| ROk (a : A)
| RRet (v : val)      (* a `return` travelling to its function *)
| RErr                (* an error ends the program *)
| RUnspec             (* left open by the reference semantics *)
| RFuel.
Arguments ROk {A} a.
Arguments RRet {A} v.
Arguments RErr {A}.
Arguments RUnspec {A}.
Arguments RFuel {A}.

Definition M (A : Type) := state -> state * res A.
Definition ret {A} (a : A) : M A := fun st => (st, ROk a).
Definition stop {A} (r : res A) : M A := fun st => (st, r).
Definition bind {A B} (m : M A) (f : A -> M B) : M B :=
  fun st => let '(st1, r) := m st in
            match r with
            | ROk a => f a st1
            | RRet v => (st1, RRet v)
            | RErr => (st1, RErr)
            | RUnspec => (st1, RUnspec)
            | RFuel => (st1, RFuel)
            end.
Notation "x <- m ;; k" := (bind m (fun x => k)) (at level 61, m at next level, right associativity).
Notation "m ;;; k" := (bind m (fun _ => k)) (at level 61, right associativity).
Definition gets {A} (f : state -> A) : M A := fun st => (st, ROk (f st)).
(* an error inside m is "left open" instead *)
Definition err_unspec {A} (m : M A) : M A :=
  fun st => let '(st1, r) := m st in (st1, match r with RErr => RUnspec | x => x end).

(* ---- primitives that change the state -------------------------------------------------- *)
Definition set_frames (st : state) (fs : list frame) : state :=
  mkState fs (st_heap st) (st_clos st) (st_trace st) (st_calls st).
Definition set_heap (st : state) (h : list lcell) : state :=
  mkState (st_frames st) h (st_clos st) (st_trace st) (st_calls st).

Definition m_alloc_frame (parent : option nat) (block : nat) (ghost : list name) : M nat :=
  fun st => (set_frames st (st_frames st ++ [mkFrame parent [] block ghost false]),
             ROk (length (st_frames st))).

Definition frame_set (fr : frame) (x : name) (v : val) : frame :=
  mkFrame (fr_parent fr) (store_set x v (fr_vars fr)) (fr_block fr) (fr_ghost fr) (fr_stale fr).

(* bind or update x in frame G *)
Definition m_set_var (G : nat) (x : name) (v : val) : M unit :=
  fun st => match nth_error (st_frames st) G with
            | Some fr => (set_frames st (list_upd (st_frames st) G (frame_set fr x v)), ROk tt)
            | None => (st, RUnspec)
            end.

Definition m_mark_stale (G : nat) : M unit :=
  fun st => match nth_error (st_frames st) G with
            | Some fr => (set_frames st (list_upd (st_frames st) G
                            (mkFrame (fr_parent fr) (fr_vars fr) (fr_block fr) (fr_ghost fr) true)), ROk tt)
            | None => (st, RUnspec)
            end.

Definition m_heap_alloc (c : lcell) : M val :=
  fun st => (set_heap st (st_heap st ++ [c]), ROk (VRef (length (st_heap st)))).
Definition m_heap_upd (a : nat) (c : lcell) : M unit :=
  fun st => (set_heap st (list_upd (st_heap st) a c), ROk tt).
Definition m_add_clo (c : closure) : M val :=
  fun st => (mkState (st_frames st) (st_heap st) (st_clos st ++ [c]) (st_trace st) (st_calls st),
             ROk (VFun (length (st_clos st)))).
Definition m_trace (b : bytes) : M unit :=
  fun st => (mkState (st_frames st) (st_heap st) (st_clos st) (b :: st_trace st) (st_calls st), ROk tt).
Definition m_tick : M unit :=
  fun st => if CALL_BUDGET <? S (st_calls st) then (st, RUnspec)
            else (mkState (st_frames st) (st_heap st) (st_clos st) (st_trace st) (S (st_calls st)), ROk tt).

(* ---- names ------------------------------------------------------------------------------ *)
Definition mem_name (x : name) (l : list name) : bool := existsb (bytes_eqb x) l.

(* The frame that holds x, seen from F: the nearest one on the chain F, parent F, ...;
   unspecified when the answer would come from what an earlier entry of a block left. *)
Fixpoint lookup (fuel : nat) (fs : list frame) (F : nat) (x : name) : res (option nat) :=
  match fuel with
  | O => RFuel
  | S k =>
    match nth_error fs F with
    | None => RUnspec
    | Some fr =>
      if store_has x (fr_vars fr) then ROk (Some F)
      else if mem_name x (fr_ghost fr) then RUnspec
      else match fr_parent fr with
           | Some p => lookup k fs p x
           | None => ROk None
           end
    end
  end.

Definition m_lookup (F : nat) (x : name) : M (option nat) :=
  fun st => (st, lookup (S F) (st_frames st) F x).

Definition frame_var (fs : list frame) (G : nat) (x : name) : val :=
  match nth_error fs G with
  | Some fr => match store_get x (fr_vars fr) with Some v => v | None => VNull end
  | None => VNull
  end.

(* reading a name: an unbound name reads as null *)
Definition m_read_var (F : nat) (x : name) : M (val * bool) :=
  r <- m_lookup F x ;;
  match r with
  | Some G => v <- gets (fun st => frame_var (st_frames st) G x) ;; ret (v, true)
  | None => ret (VNull, false)
  end.

(* x := v: the nearest enclosing definition, or else define x here *)
Definition m_assign_var (F : nat) (x : name) (v : val) : M unit :=
  r <- m_lookup F x ;;
  match r with
  | Some G => m_set_var G x v
  | None => m_set_var F x v
  end.

(* a closure may only be called while no frame of its definition chain was superseded *)
Fixpoint chain_stale (fuel : nat) (fs : list frame) (F : nat) : res bool :=
  match fuel with
  | O => RFuel
  | S k =>
    match nth_error fs F with
    | None => RUnspec
    | Some fr =>
      if fr_stale fr then ROk true
      else match fr_parent fr with
           | Some p => chain_stale k fs p
           | None => ROk false
           end
    end
  end.

(* entering the block [id] from frame F: a new frame; the frame of the previous entry from
   the same F (if any) is superseded and its names become ghosts *)
Fixpoint find_prev (fs : list frame) (i : nat) (F id : nat) : option (nat * frame) :=
  match fs with
  | [] => None
  | fr :: fs' =>
    match find_prev fs' (S i) F id with
    | Some r => Some r                  (* the latest one *)
    | None =>
      match fr_parent fr with
      | Some p => if (p =? F) && (fr_block fr =? id) && negb (fr_stale fr) then Some (i, fr) else None
      | None => None
      end
    end
  end.

Definition m_enter_block (F id : nat) : M nat :=
  prev <- gets (fun st => find_prev (st_frames st) 0 F id) ;;
  match prev with
  | Some (G, fr) => m_mark_stale G ;;; m_alloc_frame (Some F) id (map fst (fr_vars fr) ++ fr_ghost fr)
  | None => m_alloc_frame (Some F) id []
  end.

(* ---- keys and containers ------------------------------------------------------------------ *)
(* string keys the flattened access path can represent unambiguously *)
Definition plain_key (s : bytes) : bool :=
  match s with
  | [] => false
  | _ => nodot s && match atoi s with Some _ => false | None => true end
  end.

Definition key_of (v : val) : res key :=
  match v with
  | VNum z => ROk (KNum z)
  | VStr s => if plain_key s then ROk (KStr s) else RUnspec
  | _ => RUnspec
  end.

Definition norm_index (len : nat) (z : Z) : option nat :=
  let i := if (z <? 0)%Z then (Z.of_nat len + z)%Z else z in
  if (0 <=? i)%Z && (i <? Z.of_nat len)%Z then Some (Z.to_nat i) else None.

(* c[k] *)
Definition sread (h : list lcell) (c : val) (k : key) : res val :=
  match c with
  | VRef a =>
    match nth_error h a with
    | Some (LMap m) => ROk (match map_get k m with Some v => v | None => VNull end)
    | Some (LList l) =>
      match k with
      | KNum z => match norm_index (length l) z with Some i => ROk (nth i l VNull) | None => RErr end
      | KStr _ => RErr
      end
    | Some LDead => RUnspec
    | None => RUnspec
    end
  | _ => RErr
  end.

Fixpoint sread_path (h : list lcell) (c : val) (ks : list key) : res val :=
  match ks with
  | [] => ROk c
  | k :: ks' =>
    match sread h c k with
    | ROk v => sread_path h v ks'
    | r => r
    end
  end.

(* c[k] := v *)
Definition swrite (h : list lcell) (c : val) (k : key) (v : val) : res (list lcell) :=
  match c with
  | VRef a =>
    match nth_error h a with
    | Some (LMap m) => ROk (list_upd h a (LMap (map_set k v m)))
    | Some (LList l) =>
      match k with
      | KNum z => match norm_index (length l) z with
                  | Some i => ROk (list_upd h a (LList (list_upd l i v)))
                  | None => RErr
                  end
      | KStr _ => RErr
      end
    | Some LDead => RUnspec
    | None => RUnspec
    end
  | _ => RErr
  end.

Definition key_list_eqb (a b : list key) : bool :=
  (length a =? length b) && forallb (fun p => key_eqb (fst p) (snd p)) (combine a b).

(* ---- canonical text of a value (what the marker trace and the probes record) -------------- *)
Fixpoint bytes_ltb (a b : bytes) : bool :=
  match a, b with
  | [], [] => false
  | [], _ :: _ => true
  | _ :: _, [] => false
  | x :: a', y :: b' => if N.ltb x y then true else if N.ltb y x then false else bytes_ltb a' b'
  end.

Fixpoint insert_sorted (e : bytes * bytes) (l : list (bytes * bytes)) : list (bytes * bytes) :=
  match l with
  | [] => [e]
  | e' :: l' => if bytes_ltb (fst e') (fst e) then e' :: insert_sorted e l' else e :: l
  end.
Definition sort_entries (l : list (bytes * bytes)) : list (bytes * bytes) :=
  fold_right insert_sorted [] l.

Fixpoint join_with (sep : N) (l : list bytes) : bytes :=
  match l with
  | [] => []
  | [x] => x
  | x :: l' => x ++ sep :: join_with sep l'
  end.

(* None: the value reaches a list that must not be used any more *)
Fixpoint render (depth : nat) (h : list lcell) (v : val) : option bytes :=
  match v with
  | VNull => Some [78]%N                                   (* N *)
  | VBool true => Some [84]%N                              (* T *)
  | VBool false => Some [70]%N                             (* F *)
  | VNum z => Some (z_to_bytes z)
  | VStr s => Some (34 :: s ++ [34])%N                     (* "s" *)
  | VFun _ => Some [60; 102; 62]%N                         (* <f> *)
  | VRef a =>
    match depth with
    | O => Some [126]%N                                    (* ~ *)
    | S d =>
      match nth_error h a with
      | Some (LList l) =>
        let fix go (l : list val) : option (list bytes) :=
          match l with
          | [] => Some []
          | x :: l' => match render d h x, go l' with
                       | Some b, Some bs => Some (b :: bs)
                       | _, _ => None
                       end
          end in
        match go l with
        | Some bs => Some (91 :: join_with 44 bs ++ [93])%N          (* [a,b] *)
        | None => None
        end
      | Some (LMap m) =>
        let fix go (m : list (key * val)) : option (list (bytes * bytes)) :=
          match m with
          | [] => Some []
          | (k, x) :: m' => match render d h x, go m' with
                            | Some b, Some bs => Some ((key_text k, b) :: bs)
                            | _, _ => None
                            end
          end in
        match go m with
        | Some es => Some (123 :: join_with 44 (map (fun e => fst e ++ 58 :: snd e) (sort_entries es)) ++ [125])%N
        | None => None
        end
      | Some LDead => None
      | None => None
      end
    end
  end.

Definition RENDER_DEPTH : nat := 5.

(* ---- operators ------------------------------------------------------------------------------ *)
Definition scalar_eq (a b : val) : res val :=
  match a, b with
  | VRef _, _ | _, VRef _ | VFun _, _ | _, VFun _ => RUnspec
  | VNull, VNull => ROk (VBool true)
  | VBool x, VBool y => ROk (VBool (Bool.eqb x y))
  | VNum x, VNum y => ROk (VBool (Z.eqb x y))
  | VStr x, VStr y => ROk (VBool (bytes_eqb x y))
  | _, _ => ROk (VBool false)
  end.

Definition binop_sem (op : binop) (a b : val) : res val :=
  match op with
  | OpAdd => match a, b with VNum x, VNum y => ROk (VNum (x + y)) | _, _ => RErr end
  | OpSub => match a, b with VNum x, VNum y => ROk (VNum (x - y)) | _, _ => RErr end
  | OpEq => scalar_eq a b
  | OpLt => match a, b with VNum x, VNum y => ROk (VBool (x <? y)%Z) | _, _ => RUnspec end
  end.

(* ---- the list / map built-ins (reference: insert_at / remove_at / concat / finite map) ------ *)
Definition live_list (h : list lcell) (v : val) : res (nat * list val) :=
  match v with
  | VRef a => match nth_error h a with
              | Some (LList l) => ROk (a, l)
              | Some (LMap _) => RErr
              | _ => RUnspec
              end
  | _ => RErr
  end.

Fixpoint live_lists (h : list lcell) (vs : list val) : res (list (list val)) :=
  match vs with
  | [] => ROk []
  | v :: vs' =>
    match live_list h v with
    | ROk (_, l) => match live_lists h vs' with ROk ls => ROk (l :: ls) | r => r end
    | RRet x => RRet x | RErr => RErr | RUnspec => RUnspec | RFuel => RFuel
    end
  end.

Definition b_len (args : list val) : M val :=
  match args with
  | [VRef a] =>
    c <- gets (fun st => nth_error (st_heap st) a) ;;
    match c with
    | Some (LList l) => ret (VNum (Z.of_nat (length l)))
    | Some (LMap m) => ret (VNum (Z.of_nat (length m)))
    | _ => stop RUnspec
    end
  | [_] => stop RErr
  | [] => stop RErr
  | _ => stop RUnspec
  end.

(* add(l, v [, i]): a NEW list; l itself must not be used any more *)
Definition b_add (args : list val) : M val :=
  match args with
  | [lv; v] =>
    r <- (fun st => (st, live_list (st_heap st) lv)) ;;
    let '(a, l) := r in
    m_heap_upd a LDead ;;; m_heap_alloc (LList (l ++ [v]))
  | [lv; v; VNum i] =>
    r <- (fun st => (st, live_list (st_heap st) lv)) ;;
    let '(a, l) := r in
    if (0 <=? i)%Z && (i <=? Z.of_nat (length l))%Z
    then m_heap_upd a LDead ;;; m_heap_alloc (LList (insert_at l (Z.to_nat i) v))
    else stop RErr
  | [_; _; _] => stop RUnspec
  | [] | [_] => stop RErr
  | _ => stop RUnspec
  end.

(* del(l, i): a NEW list without position i; del(m, k): the map itself without key k *)
Definition b_del (args : list val) : M val :=
  match args with
  | [VRef a; kv] =>
    c <- gets (fun st => nth_error (st_heap st) a) ;;
    match c with
    | Some (LList l) =>
      match kv with
      | VNum i =>
        if (0 <=? i)%Z && (i <? Z.of_nat (length l))%Z
        then m_heap_upd a LDead ;;; m_heap_alloc (LList (remove_at l (Z.to_nat i)))
        else stop RErr
      | _ => stop RUnspec
      end
    | Some (LMap m) =>
      k <- stop (key_of kv) ;;
      m_heap_upd a (LMap (map_del k m)) ;;; ret (VRef a)
    | _ => stop RUnspec
    end
  | [_; _] => stop RErr
  | _ => stop RErr
  end.

(* concat(l1, l2, ...): a new list; the arguments stay usable *)
Definition b_concat (args : list val) : M val :=
  match args with
  | [] | [_] => stop RErr
  | _ =>
    ls <- (fun st => (st, live_lists (st_heap st) args)) ;;
    m_heap_alloc (LList (concat ls))
  end.

(* ---- objects ---------------------------------------------------------------------------------- *)
Definition K_SUPER : key := KStr [115;117;112;101;114]%N.
Definition K_INIT : key := KStr [105;110;105;116]%N.
Definition N_THIS : name := [116;104;105;115]%N.
Definition N_SUPER : name := [115;117;112;101;114]%N.

Definition as_map (h : list lcell) (v : val) : option (list (key * val)) :=
  match v with
  | VRef a => match nth_error h a with Some (LMap m) => Some m | _ => None end
  | _ => None
  end.

(* copy the properties of one template into the object [obj]: functions become methods of
   the object (this = obj); the constructor gets the list of super constructors *)
Fixpoint copy_props (obj : nat) (inits : option val) (m : list (key * val)) : M val :=
  match m with
  | [] => ret VNull
  | (k, v) :: m' =>
    v' <- match v with
          | VFun c =>
            oc <- gets (fun st => nth_error (st_clos st) c) ;;
            match oc with
            | Some cl =>
              m_add_clo (mkClo (cl_params cl) (cl_body cl) (cl_env cl) (Some (VRef obj))
                               (if key_eqb k K_INIT then inits else None))
            | None => stop RUnspec
            end
          | _ => ret v
          end ;;
    om <- gets (fun st => nth_error (st_heap st) obj) ;;
    match om with
    | Some (LMap o) => m_heap_upd obj (LMap (map_set k v' o))
    | _ => stop RUnspec
    end ;;;
    rest <- copy_props obj inits m' ;;
    ret (if key_eqb k K_INIT then (match v with VFun _ => v' | _ => rest end) else rest)
  end.

(* the properties of all super templates first (in list order, depth first), then the
   template's own: the result is the constructor this template contributes (or null) *)
Fixpoint add_supers (fuel : nat) (obj : nat) (tmpl : list (key * val)) : M val :=
  match fuel with
  | O => stop RFuel
  | S k =>
    inits <-
      match map_get K_SUPER tmpl with
      | None => ret []
      | Some sv =>
        sl <- (fun st => (st, match live_list (st_heap st) sv with
                                   | ROk r => ROk r
                                   | _ => RUnspec          (* "super" must be a list of templates *)
                                   end)) ;;
        (fix go (l : list val) : M (list val) :=
           match l with
           | [] => ret []
           | s :: l' =>
             om <- gets (fun st => as_map (st_heap st) s) ;;
             match om with
             | Some sm => i <- add_supers k obj sm ;; r <- go l' ;; ret (i :: r)
             | None => stop RUnspec
             end
           end) (snd sl)
      end ;;
    il <- match inits with
          | [] => ret None
          | _ => a <- m_heap_alloc (LList inits) ;; ret (Some a)
          end ;;
    copy_props obj il tmpl
  end.

(* ---- the interpreter ---------------------------------------------------------------------------- *)
Definition unit_val : M unit := ret tt.

Fixpoint eval (n : nat) (F : nat) (e : expr) {struct n} : M val :=
  match n with
  | O => stop RFuel
  | S k =>
    match e with
    | ENull => ret VNull
    | EBool b => ret (VBool b)
    | ENum z => ret (VNum z)
    | EStr s => ret (VStr s)
    | EList es => vs <- eval_list k F es ;; m_heap_alloc (LList vs)
    | EMap kvs => m <- eval_entries k F kvs ;; m_heap_alloc (LMap m)
    | EPath x accs =>
      ks <- eval_keys k F accs ;;
      r <- m_read_var F x ;;
      let '(c, bound) := r in
      match ks with
      | [] => ret c
      | _ => if bound then (fun st => (st, sread_path (st_heap st) c ks)) else stop RUnspec
      end
    | ECall x accs args =>
      ks <- eval_keys k F accs ;;
      r <- m_read_var F x ;;
      let '(c, bound) := r in
      fv <- match ks with
            | [] => ret c
            | _ => if bound then (fun st => (st, sread_path (st_heap st) c ks)) else stop RUnspec
            end ;;
      match fv with
      | VFun cid => vs <- eval_list k F args ;; apply k cid vs
      | _ => stop RErr                                   (* not a function *)
      end
    | EBuiltin b args =>
      vs <- eval_list k F args ;;
      match b with
      | BLen => b_len vs
      | BAdd => b_add vs
      | BDel => b_del vs
      | BConcat => b_concat vs
      | BNew =>
        match vs with
        | [] => stop RErr
        | t :: cargs =>
          om <- gets (fun st => as_map (st_heap st) t) ;;
          match om with
          | None => (match t with VRef _ => stop RUnspec | _ => stop RErr end)
          | Some tm =>
            o <- m_heap_alloc (LMap []) ;;
            match o with
            | VRef obj =>
              add_supers k obj tm ;;;
              om' <- gets (fun st => as_map (st_heap st) o) ;;
              match om' with
              | Some om'' =>
                match map_get K_INIT om'' with
                | Some (VFun cid) => apply k cid cargs ;;; ret o     (* init runs once *)
                | _ => ret o
                end
              | None => stop RUnspec
              end
            | _ => stop RUnspec
            end
          end
        end
      end
    | EBin OpLt a b =>
      (* the implementation evaluates the operands of < a second time when they are not two
         numbers or fail: such comparisons are left open *)
      err_unspec (va <- eval k F a ;; vb <- eval k F b ;; stop (binop_sem OpLt va vb))
    | EBin op a b =>
      va <- eval k F a ;; vb <- eval k F b ;; stop (binop_sem op va vb)
    | EFunc params body => m_add_clo (mkClo params body F None None)
    end
  end

with eval_list (n : nat) (F : nat) (es : list expr) {struct n} : M (list val) :=
  match n with
  | O => stop RFuel
  | S k =>
    match es with
    | [] => ret []
    | e :: es' => v <- eval k F e ;; vs <- eval_list k F es' ;; ret (v :: vs)
    end
  end

with eval_entries (n : nat) (F : nat) (kvs : list (expr * expr)) {struct n} : M (list (key * val)) :=
  match n with
  | O => stop RFuel
  | S k =>
    match kvs with
    | [] => ret []
    | (ke, ve) :: kvs' =>
      kv <- eval k F ke ;; key <- stop (key_of kv) ;;
      v <- eval k F ve ;;
      rest <- eval_entries k F kvs' ;;
      (* entries are stored left to right: a later duplicate key wins *)
      ret (if map_has key rest then rest else (key, v) :: rest)
    end
  end

with eval_keys (n : nat) (F : nat) (accs : list acc) {struct n} : M (list key) :=
  match n with
  | O => stop RFuel
  | S k =>
    match accs with
    | [] => ret []
    | ADot f :: accs' =>
      if plain_key f then (ks <- eval_keys k F accs' ;; ret (KStr f :: ks)) else stop RUnspec
    | AIdx e :: accs' =>
      v <- eval k F e ;; key <- stop (key_of v) ;;
      ks <- eval_keys k F accs' ;; ret (key :: ks)
    end
  end

(* a call: budget, a NEW frame whose parent is the definition frame, this / super,
   parameters (argument, else default evaluated in the definition scope, else null) *)
with apply (n : nat) (cid : nat) (args : list val) {struct n} : M val :=
  match n with
  | O => stop RFuel
  | S k =>
    m_tick ;;;
    oc <- gets (fun st => nth_error (st_clos st) cid) ;;
    match oc with
    | None => stop RUnspec
    | Some cl =>
      stale <- (fun st => (st, chain_stale (S (cl_env cl)) (st_frames st) (cl_env cl))) ;;
      if (stale : bool) then stop RUnspec else
      G <- m_alloc_frame (Some (cl_env cl)) 0 [] ;;
      match cl_this cl with Some t => m_set_var G N_THIS t | None => unit_val end ;;;
      match cl_super cl with Some s => m_set_var G N_SUPER s | None => unit_val end ;;;
      bind_params k G (cl_env cl) (cl_params cl) args ;;;
      (fun st => let '(st1, r) := exec_block k G (cl_body cl) st in
                 match r with
                 | ROk _ => (st1, ROk VNull)
                 | RRet v => (st1, ROk v)
                 | RErr => (st1, RErr)
                 | RUnspec => (st1, RUnspec)
                 | RFuel => (st1, RFuel)
                 end)
    end
  end

with bind_params (n : nat) (G D : nat) (ps : list (name * option expr)) (args : list val) {struct n} : M unit :=
  match n with
  | O => stop RFuel
  | S k =>
    match ps with
    | [] => ret tt                                        (* surplus arguments are ignored *)
    | (p, dflt) :: ps' =>
      v <- match args with
           | a :: _ => ret a
           | [] => match dflt with Some e => eval k D e | None => ret VNull end
           end ;;
      m_set_var G p v ;;;
      bind_params k G D ps' (tl args)
    end
  end

with exec (n : nat) (F : nat) (s : stmt) {struct n} : M unit :=
  match n with
  | O => stop RFuel
  | S k =>
    match s with
    | SAssign x [] e => v <- eval k F e ;; m_assign_var F x v
    | SAssign x accs e =>
      (* c[k] must be readable, the right hand side must not change where it goes *)
      ks1 <- eval_keys k F accs ;;
      r1 <- m_read_var F x ;;
      (if snd r1 then (fun st => (st, sread_path (st_heap st) (fst r1) ks1)) else stop RUnspec) ;;;
      v <- eval k F e ;;
      ks <- eval_keys k F accs ;;
      r <- m_read_var F x ;;
      if negb (key_list_eqb ks1 ks) then stop RUnspec else
      if negb (snd r) then stop RUnspec else
      c <- (fun st => (st, sread_path (st_heap st) (fst r) (removelast ks))) ;;
      h' <- (fun st => (st, swrite (st_heap st) c (last ks (KNum 0)) v)) ;;
      (fun st => (set_heap st h', ROk tt))
    | SLet x e => m_set_var F x VNull ;;; v <- eval k F e ;; m_assign_var F x v
    | SFunc x params body => f <- m_add_clo (mkClo params body F None None) ;; m_assign_var F x f
    | SIf id c th el =>
      B <- m_enter_block F id ;;
      cv <- eval k B c ;;
      match cv with
      | VBool true => exec_block k B th
      | VBool false => exec_block k B el
      | _ => stop RUnspec
      end
    | SFor id x e body =>
      L <- m_enter_block F id ;;
      lv <- eval k L e ;;
      match lv with
      | VRef a =>
        r <- (fun st => (st, match live_list (st_heap st) lv with
                                  | ROk r => ROk r
                                  | _ => RUnspec            (* only lists are iterated here *)
                                  end)) ;;
        for_loop k L x a 0 (length (snd r)) body
      | _ => stop RUnspec
      end
    | SReturn e => v <- eval k F e ;; stop (RRet v)
    | SExpr e => eval k F e ;;; ret tt
    | SMark e =>
      v <- eval k F e ;;
      t <- gets (fun st => render RENDER_DEPTH (st_heap st) v) ;;
      match t with Some b => m_trace b | None => stop RUnspec end
    end
  end

with exec_block (n : nat) (F : nat) (ss : list stmt) {struct n} : M unit :=
  match n with
  | O => stop RFuel
  | S k =>
    match ss with
    | [] => ret tt
    | s :: ss' => exec k F s ;;; exec_block k F ss'
    end
  end

(* the loop block is ONE scope: the loop variable is assigned, then the body runs, for the
   positions 0 .. len-1 of the list as it is at that moment *)
with for_loop (n : nat) (L : nat) (x : name) (a i len : nat) (body : list stmt) {struct n} : M unit :=
  match n with
  | O => stop RFuel
  | S k =>
    if len <=? i then ret tt else
    c <- gets (fun st => nth_error (st_heap st) a) ;;
    match c with
    | Some (LList l) =>
      match nth_error l i with
      | Some item => m_assign_var L x item ;;; exec_block k L body ;;; for_loop k L x a (S i) len body
      | None => stop RUnspec
      end
    | _ => stop RUnspec
    end
  end.

(* ---- whole programs -------------------------------------------------------------------------------- *)
Definition init_state : state := mkState [mkFrame None [] 0 [] false] [] [] [] 0.

Definition FUEL : nat := 400.

(* the program, then the probe expressions (each one marks its value), all in the global frame *)
Fixpoint run_probes (n : nat) (ps : list expr) (st : state) : state * list (res unit) :=
  match ps with
  | [] => (st, [])
  | p :: ps' =>
    let '(st1, r) := exec n 0 (SMark p) st in
    let '(st2, rs) := run_probes n ps' st1 in
    (st2, r :: rs)
  end.

Definition run_program (prog : list stmt) : state * res unit := exec_block FUEL 0 prog init_state.

(* GetValue on the global scope *)
Definition global_value (st : state) (x : name) : option bytes :=
  match nth_error (st_frames st) 0 with
  | Some fr => render RENDER_DEPTH (st_heap st)
                 (match store_get x (fr_vars fr) with Some v => v | None => VNull end)
  | None => None
  end.
