(* Spec/ExprGrammarSpec.v — what property C03 demands of the grammar of expressions, written
   from the property text (not from the parser):

     "Multiplicative operators bind tighter than additive ones, those tighter than comparison
      and membership operators, then and, then or, with assignment loosest; binary operators
      associate to the left, prefix minus/plus bind tightest and `not` applies to the
      following comparison."

   An expression tree [expr]; a parenthesised writing of it [pexpr] (a tree with explicit
   parenthesis nodes); [wfp] = the writing contains at least the parentheses the documented
   precedence requires; [toks] = the token sequence of the writing (any line layout: every
   token carries its own line); [unparse] = the writing with the minimal parentheses.
   The tree the parser has to deliver for a writing is [node_of (erase p)].

   Nothing here refers to binding powers: the levels below are the documented ones. *)
From Coq Require Import List String NArith Bool Arith.
From Ecal Require Import Common.Bytes Common.Ast gen.Tokens Model.Pratt.
Import ListNotations.
Local Open Scope nat_scope.

Inductive binop :=
| OTimes | ODiv | ODivInt | OModInt           (* multiplicative *)
| OPlus | OMinus                              (* additive *)
| OGeq | OLeq | ONeq | OEq | OGt | OLt        (* comparison *)
| OLike | OIn | OHasPrefix | OHasSuffix | ONotIn   (* membership / string matching *)
| OAnd | OOr | OAssign.

Inductive preop := PNeg | PPos | PNot.

Inductive atomk := ANum | AStr | ATrue | AFalse | ANull | AIdent.

(* documented precedence levels *)
Definition level (o : binop) : nat :=
  match o with
  | OTimes | ODiv | ODivInt | OModInt => 6
  | OPlus | OMinus => 5
  | OGeq | OLeq | ONeq | OEq | OGt | OLt | OLike | OIn | OHasPrefix | OHasSuffix | ONotIn => 4
  | OAnd => 2
  | OOr => 1
  | OAssign => 0
  end.
(* `not` applies to the following comparison: it sits between `and` and the comparisons;
   prefix minus/plus bind tightest; atoms and parenthesised writings above everything *)
Definition plevel (o : preop) : nat := match o with PNot => 3 | PNeg | PPos => 7 end.
Definition atom_level : nat := 9.

Definition bin_id (o : binop) : nat :=
  match o with
  | OTimes => TokenTIMES | ODiv => TokenDIV | ODivInt => TokenDIVINT | OModInt => TokenMODINT
  | OPlus => TokenPLUS | OMinus => TokenMINUS
  | OGeq => TokenGEQ | OLeq => TokenLEQ | ONeq => TokenNEQ | OEq => TokenEQ
  | OGt => TokenGT | OLt => TokenLT
  | OLike => TokenLIKE | OIn => TokenIN | OHasPrefix => TokenHASPREFIX
  | OHasSuffix => TokenHASSUFFIX | ONotIn => TokenNOTIN
  | OAnd => TokenAND | OOr => TokenOR | OAssign => TokenASSIGN
  end.
Definition bin_name (o : binop) : string :=
  match o with
  | OTimes => NodeTIMES | ODiv => NodeDIV | ODivInt => NodeDIVINT | OModInt => NodeMODINT
  | OPlus => NodePLUS | OMinus => NodeMINUS
  | OGeq => NodeGEQ | OLeq => NodeLEQ | ONeq => NodeNEQ | OEq => NodeEQ
  | OGt => NodeGT | OLt => NodeLT
  | OLike => NodeLIKE | OIn => NodeIN | OHasPrefix => NodeHASPREFIX
  | OHasSuffix => NodeHASSUFFIX | ONotIn => NodeNOTIN
  | OAnd => NodeAND | OOr => NodeOR | OAssign => NodeASSIGN
  end.
Definition pre_id (o : preop) : nat :=
  match o with PNeg => TokenMINUS | PPos => TokenPLUS | PNot => TokenNOT end.
Definition pre_name (o : preop) : string :=
  match o with PNeg => NodeMINUS | PPos => NodePLUS | PNot => NodeNOT end.
Definition atom_id (k : atomk) : nat :=
  match k with
  | ANum => TokenNUMBER | AStr => TokenSTRING | ATrue => TokenTRUE | AFalse => TokenFALSE
  | ANull => TokenNULL | AIdent => TokenIDENTIFIER
  end.
Definition atom_name (k : atomk) : string :=
  match k with
  | ANum => NodeNUMBER | AStr => NodeSTRING | ATrue => NodeTRUE | AFalse => NodeFALSE
  | ANull => NodeNULL | AIdent => NodeIDENTIFIER
  end.

(* what the lexer attaches to a token besides its kind: value, flags, line *)
Record tinfo := mkTI { ti_val : bytes; ti_ident : bool; ti_esc : bool; ti_line : nat }.
Definition tok_of (id : nat) (i : tinfo) : token :=
  mkTok id (ti_val i) (ti_ident i) (ti_esc i) (ti_line i).
Definition leaf_of (name : string) (i : tinfo) (cs : list node) : node :=
  Node name (ti_val i) (ti_ident i) (ti_esc i) (ti_line i) cs.

Inductive expr :=
| EAtom (k : atomk) (i : tinfo)
| EPre (o : preop) (i : tinfo) (e : expr)
| EBin (o : binop) (i : tinfo) (a b : expr).

Inductive pexpr :=
| PAtom (k : atomk) (i : tinfo)
| PParen (l r : tinfo) (p : pexpr)            (* "(" p ")" *)
| PPre (o : preop) (i : tinfo) (p : pexpr)
| PBin (o : binop) (i : tinfo) (a b : pexpr).

Fixpoint erase (p : pexpr) : expr :=
  match p with
  | PAtom k i => EAtom k i
  | PParen _ _ q => erase q
  | PPre o i q => EPre o i (erase q)
  | PBin o i a b => EBin o i (erase a) (erase b)
  end.

(* the tree demanded: operator node over its operands, parentheses leave no trace *)
Fixpoint node_of (e : expr) : node :=
  match e with
  | EAtom k i => leaf_of (atom_name k) i []
  | EPre o i a => leaf_of (pre_name o) i [node_of a]
  | EBin o i a b => leaf_of (bin_name o) i [node_of a; node_of b]
  end.

Fixpoint toks (p : pexpr) : list token :=
  match p with
  | PAtom k i => [tok_of (atom_id k) i]
  | PParen l r q => tok_of TokenLPAREN l :: toks q ++ [tok_of TokenRPAREN r]
  | PPre o i q => tok_of (pre_id o) i :: toks q
  | PBin o i a b => toks a ++ tok_of (bin_id o) i :: toks b
  end.

(* level of the outermost construct of a writing *)
Definition plev (p : pexpr) : nat :=
  match p with
  | PAtom _ _ | PParen _ _ _ => atom_level
  | PPre o _ _ => plevel o
  | PBin o _ _ _ => level o
  end.

(* enough parentheses: a left operand may be of the same level (left associativity), a
   right operand must be strictly tighter, the operand of a prefix operator at least as
   tight as the operator itself *)
Fixpoint wfp (p : pexpr) : bool :=
  match p with
  | PAtom _ _ => true
  | PParen _ _ q => wfp q
  | PPre o _ q => wfp q && Nat.leb (plevel o) (plev q)
  | PBin o _ a b => wfp a && wfp b && Nat.leb (level o) (plev a) && Nat.ltb (level o) (plev b)
  end.

Definition elev (e : expr) : nat :=
  match e with
  | EAtom _ _ => atom_level
  | EPre o _ _ => plevel o
  | EBin o _ _ _ => level o
  end.

(* minimal parentheses; [par] supplies the token information of an inserted pair *)
Section Unparse.
  Variable par : tinfo.
  Definition wrap (need : bool) (p : pexpr) : pexpr := if need then PParen par par p else p.
  Fixpoint unparse (e : expr) : pexpr :=
    match e with
    | EAtom k i => PAtom k i
    | EPre o i a => PPre o i (wrap (Nat.ltb (elev a) (plevel o)) (unparse a))
    | EBin o i a b =>
      PBin o i (wrap (Nat.ltb (elev a) (level o)) (unparse a))
               (wrap (Nat.leb (elev b) (level o)) (unparse b))
    end.
End Unparse.
