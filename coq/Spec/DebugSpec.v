(* Spec/DebugSpec.v — what property C15 demands, written from the property text:

   "Attaching the debugger, setting, disabling or removing any breakpoints and driving any
    sequence of resume / step-in / step-over / step-out commands that keeps resuming
    suspended threads never changes a program's results, log output or final variables
    compared with an undebugged run.  A thread suspends whenever it arrives, from a
    different line, at a line with an active breakpoint; a thread reported as suspended is
    released by the next continue command addressed to it (no wake-up is lost); and
    stopping all threads releases every suspended one." *)
From Coq Require Import List Arith Bool.
From Ecal Require Import Common.Sched.
Import ListNotations.

(* --- breakpoints: a history of edits; a line carries an active breakpoint iff the last
   edit of that line set it (Some true); disabling (Some false) and removing (None) both
   leave it inactive *)
Definition bp_edit := (nat * option bool)%type.

Fixpoint active_after (edits : list bp_edit) (line : nat) : bool :=
  match edits with
  | [] => false
  | (l, b) :: r =>
      (* the later edits decide; this one only if none of them concerns the line *)
      if existsb (fun e => Nat.eqb (fst e) line) r then active_after r line
      else if Nat.eqb l line then match b with Some true => true | _ => false end
      else false
  end.

(* --- "suspends whenever it arrives, from a different line, at a line with an active
   breakpoint": the demand on the decision of one visit *)
Definition must_suspend (active : nat -> bool) (from line : nat) : bool :=
  active line && negb (Nat.eqb from line).

(* --- a suspension must have a cause the user asked for: an active breakpoint, a pending
   step command, break-on-start or break-on-error *)
Inductive cause := AtBreakpoint | Stepping | OnStart | OnError.

(* --- resumability, for a transition system with thread-own steps:
   [Released step own at_large s t]: thread t gets out of its suspension by its own steps
   alone — no further command is needed *)
Section Release.
  Variables (state label : Type).
  Variable step : state -> label -> option state.
  Variable own : nat -> label.                 (* the label of thread t's own next step *)
  Variable at_large : state -> nat -> Prop.    (* t is not held by the debugger *)

  Definition Released (s : state) (t : nat) : Prop :=
    exists n s', n <= 2 /\ run step s (repeat (own t) n) = Some s' /\ at_large s' t.
End Release.

(* --- transparency: whatever the debugger and its user do, the program computes what it
   computes without them: every run under the debugger, with the debugger's own steps
   erased, is a run of the plain program ending in the same program state (result, log
   and variables are part of the program state) *)
Section Transparent.
  Variables (P S L : Type).
  Variable plain : P -> nat -> option P.
  Variable debugged : P * S -> L -> option (P * S).
  Variable erase : list L -> list nat.

  Definition Transparent : Prop :=
    forall p d sched p' d',
      run debugged (p, d) sched = Some (p', d') -> run plain p (erase sched) = Some p'.
End Transparent.
