(* Run/RunC05Interp.v — THREE-WAY tie for C05: the reference semantics of the mini-language
   (Spec/LexSpec.v), the unified interpreter model (Model/Interp.v) and the REAL interpreter, on
   the same generated program of stream P.

   The harness (harness/c05_interp.go) renders the program a second time in PURE ECAL: `mark` is
   an ECAL function appending a deep copy (zsnap) of its argument to the global list zL, the
   statements of the program stay at the top level, the probes run afterwards inside try blocks,
   and the text ends with

       [zT, [a, b, c, d, e, g], [zP0, zP1, ...]]

   (zT the marker trace of the program; zPi = [0, marks of probe i] or [1] when it failed), so
   that the whole observation is one ECAL value.  When the program ends in an error, the trace
   so far and the globals are read from the global scope instead (c5_errstate = [zL, globals]).
   The real parser's tree of that text is evaluated by the real runtime (c5_obs, c5_errstate)
   and, here, by Model/Interp.v; the reference semantics runs on the program term and its
   canonical texts (trace, globals, probes: exactly what Run/RunC05.v compares) are compared
   with the text of the observed values.

   verdict 0: reference semantics = implementation = interpreter model. *)
From Coq Require Import List String NArith ZArith Bool Arith Floats.
From Ecal Require Import Common.Bytes Common.Ast Model.Scope Model.Builtins Spec.LexSpec.
From Ecal Require Model.Expr Model.Interp.
From Ecal Require Import Run.RunC06Interp.
Import ListNotations.
Local Open Scope nat_scope.

Record case5 := mkC5I {
  c5_id : N;
  c5_prog : list stmt;                   (* the program of the mini-language *)
  c5_probes : list expr;
  c5_tree : node;                        (* real tree of the pure rendering *)
  c5_nums : list (bytes * Z);
  c5_strs : list (bytes * option Z);
  c5_obs : obs;                          (* the real runtime on that tree *)
  c5_errstate : oval                     (* after an error: [zL, [a, b, c, d, e, g]] of the global scope *)
}.

Definition IFUEL : nat := 3000.          (* the interpreter model's fuel *)

Definition GLOBALS : list name := [[97]; [98]; [99]; [100]; [101]; [103]]%N.   (* a b c d e g *)
Definition N_ZL : bytes := [122; 76]%N.                                          (* zL *)

(* ---- the canonical text (harness/c05.go c05render, Spec/LexSpec.v render) of an observed value *)
(* an integral float64 from its bit pattern, as strconv.FormatInt prints it; "?" otherwise *)
Definition num_text (bits : Z) : bytes :=
  let sign := Z.testbit bits 63 in
  let E := ((bits / 2 ^ 52) mod 2048)%Z in
  let frac := (bits mod 2 ^ 52)%Z in
  let mag : option Z :=
    if (E =? 0)%Z then (if (frac =? 0)%Z then Some 0%Z else None)
    else if (E =? 2047)%Z then None
    else
      let m := (2 ^ 52 + frac)%Z in
      if (1075 <=? E)%Z then Some (m * 2 ^ (E - 1075))%Z
      else let sh := (2 ^ (1075 - E))%Z in
           if (m mod sh =? 0)%Z then Some (m / sh)%Z else None in
  match mag with
  | Some z => z_to_bytes (if sign then (- z)%Z else z)
  | None => [63]%N
  end.

Definition okey_text (k : oval) : bytes :=
  match k with
  | ONum b => num_text b
  | OStr s => s
  | _ => [63]%N
  end.

Fixpoint orender (d : nat) (v : oval) : bytes :=
  match v with
  | ONull => [78]%N
  | OBool true => [84]%N
  | OBool false => [70]%N
  | ONum b => num_text b
  | OStr s => (34 :: s ++ [34])%N
  | OFun => [60; 102; 62]%N
  | OOther => match d with O => [126]%N | _ => [63]%N end
  | OList l =>
    match d with
    | O => [126]%N
    | S d' => (91 :: join_with 44 (map (orender d') l) ++ [93])%N
    end
  | OMap m =>
    match d with
    | O => [126]%N
    | S d' =>
      (123 :: join_with 44 (map (fun e => fst e ++ 58 :: snd e)
                 (sort_entries (map (fun kv => (okey_text (fst kv), orender d' (snd kv))) m))) ++ [125])%N
    end
  end.

Definition otext (v : oval) : bytes := orender RENDER_DEPTH v.

Fixpoint list_bytes_eqb (a b : list bytes) : bool :=
  match a, b with
  | [], [] => true
  | x :: a', y :: b' => bytes_eqb x y && list_bytes_eqb a' b'
  | _, _ => false
  end.

(* ---- what the reference semantics prescribes, compared with the observed value
   (the three checks are those of Run/RunC05.v verdict_prog, on texts computed here) *)
Definition trace_of (v : oval) : option (list bytes) :=
  match v with
  | OList l => Some (map otext l)
  | ONull => Some []                      (* the run failed before zL := [] *)
  | _ => None
  end.

(* a probe: [0, marks] -> Some (the marks joined by "|"), [1] -> None (it failed) *)
Definition probe_of (v : oval) : option (option bytes) :=
  match v with
  | OList [_; OList ms] => Some (Some (join_with 124 (map otext ms)))
  | OList [_] => Some None
  | _ => None
  end.

Fixpoint spec_globals (ns : list name) (gs : list oval) (st : LexSpec.state) : nat :=
  match ns, gs with
  | [], [] => 0
  | x :: ns', g :: gs' =>
    match global_value st x with
    | Some b => if bytes_eqb b (otext g) then spec_globals ns' gs' st else 37
    | None => 0
    end
  | _, _ => 39
  end.

Fixpoint spec_probes (ps : list expr) (os : list oval) (st : LexSpec.state) : nat :=
  match ps, os with
  | [], [] => 0
  | p :: ps', o :: os' =>
    match probe_of o with
    | None => 39
    | Some ob =>
      let before := st_trace st in
      let '(st1, r) := LexSpec.exec LexSpec.FUEL 0 (SMark p) st in
      match r with
      | LexSpec.ROk _ =>
        let fresh := rev (firstn (length (st_trace st1) - length before) (st_trace st1)) in
        match ob with
        | Some b => if bytes_eqb b (join_with 124 fresh) then spec_probes ps' os' st1 else 38
        | None => 38
        end
      | LexSpec.RErr | LexSpec.RRet _ => match ob with None => spec_probes ps' os' st1 | Some _ => 38 end
      | LexSpec.RUnspec | LexSpec.RFuel => 0
      end
    end
  | _, _ => 39
  end.

Definition spec_trace (st : LexSpec.state) (tr : oval) : nat :=
  match trace_of tr with
  | Some t => if list_bytes_eqb (rev (st_trace st)) t then 0 else 31
  | None => 39
  end.

(* 0 agree  3 left open  4 fuel  31 trace  32 error / no error  37 global  38 probe
   39 the observation does not have the shape the rendering produces *)
Definition spec_check (c : case5) : nat :=
  let '(st, r) := run_program (c5_prog c) in
  match r with
  | LexSpec.RUnspec => 3
  | LexSpec.RFuel => 4
  | _ =>
    let spec_ok := match r with LexSpec.ROk _ => true | _ => false end in
    match c5_obs c with
    | ObsPanic => 101
    | ObsValue v =>
      if negb spec_ok then 32 else
      match v with
      | OList [tr; OList gl; OList ps] =>
        match spec_trace st tr with
        | 0 => match spec_globals GLOBALS gl st with
               | 0 => spec_probes (c5_probes c) ps st
               | n => n
               end
        | n => n
        end
      | _ => 39
      end
    | ObsError _ =>
      if spec_ok then 32 else
      match c5_errstate c with
      | OList [tr; OList gl] =>
        match spec_trace st tr with
        | 0 => spec_globals GLOBALS gl st
        | n => n
        end
      | _ => 39
      end
    end
  end.

(* ---- the interpreter model on the real tree *)
Section Model.
  Variable c : case5.
  Let NOps := float_ops (c5_nums c) (c5_strs c).

  Definition gvar (st : @Interp.state NOps) (x : bytes) : oval :=
    match nth_error (Interp.st_scopes st) 0 with
    | Some sc =>
      match Interp.v_get x (Interp.sc_vars sc) with
      | Some v => @reify NOps Expr.float_bits 11 st v
      | None => ONull
      end
    | None => OOther
    end.

  Definition err_state (st : @Interp.state NOps) : oval :=
    OList [gvar st N_ZL; OList (map (gvar st) GLOBALS)].

  (* 0 agree; 102 .. 109 as in Run/RunC06Interp.v; 110: same error type, but the trace / the
     globals left in the global scope differ *)
  Definition model_check : nat :=
    let r := m_eval (c5_nums c) (c5_strs c) IFUEL (c5_tree c) in
    match fst r, c5_obs c with
    | _, ObsPanic => 101
    | Interp.ROk v, ObsValue w =>
      if oval_eqb (@reify NOps Expr.float_bits 12 (snd r) v) w then 0 else 102
    | Interp.RErr e, ObsError cls =>
      if bytes_eqb (Interp.err_type_text e) cls then
        (if oval_eqb (err_state (snd r)) (c5_errstate c) then 0 else 110)
      else 103
    | Interp.ROk _, ObsError _ => 104
    | Interp.RErr _, ObsValue _ => 105
    | Interp.RPanic _, _ => 106
    | Interp.RFuel, _ => 107
    | Interp.RUnmod _, _ => 108
    | Interp.RInvalid _, _ => 109
    end.
End Model.

(* 0    agree (reference semantics = implementation = interpreter model)
   101  the implementation panicked
   31 32 37 38  the implementation differs from the reference semantics (trace, error class,
        a global, a probe) on the pure rendering
   39   malformed observation
   102 .. 110  interpreter model and implementation differ (although the implementation agrees
        with the reference semantics, or the reference semantics leaves the program open)
   3 4  left open by the reference semantics / its fuel, and interpreter model = implementation *)
Definition verdict5 (c : case5) : nat :=
  match c5_obs c with
  | ObsPanic => 101
  | _ =>
    match spec_check c with
    | 0 => model_check c
    | 3 => match model_check c with 0 => 3 | n => n end
    | 4 => match model_check c with 0 => 4 | n => n end
    | n => n
    end
  end.

Definition check_all (cs : list case5) : list (N * nat) :=
  filter (fun p => negb (Nat.eqb (snd p) 0)) (map (fun c => (c5_id c, verdict5 c)) cs).

(* for debugging a replay *)
Definition spec_view (c : case5) :=
  let '(st, r) := run_program (c5_prog c) in (r, rev (st_trace st), map (global_value st) GLOBALS).
Definition model_view (c : case5) : oval :=
  let r := m_eval (c5_nums c) (c5_strs c) IFUEL (c5_tree c) in
  match fst r with
  | Interp.ROk v => @reify (float_ops (c5_nums c) (c5_strs c)) Expr.float_bits 12 (snd r) v
  | _ => err_state c (snd r)
  end.
