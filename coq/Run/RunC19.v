(* Run/RunC19.v — correspondence for C19: what the real ECALFunctionAdapter.Run did with a
   Go function of a given signature and behaviour on a given argument vector (class of the
   outcome, canonicalised result, what the function received) against the model, and
   against the demands of the Spec that are decidable on one observation. *)
From Coq Require Import ZArith NArith List Bool String Floats.SpecFloat.
From Ecal Require Import Common.Outcome Model.Adapter.
Import ListNotations.
Local Open Scope Z_scope.

(* ---------------------------------------------------------------- equality of observed values *)

Definition num_eqb (x y : num) : bool :=
  match x, y with
  | S754_zero a, S754_zero b => Bool.eqb a b
  | S754_infinity a, S754_infinity b => Bool.eqb a b
  | S754_nan, S754_nan => true
  | S754_finite s1 m1 e1, S754_finite s2 m2 e2 =>
    Bool.eqb s1 s2 && (let e := Z.min e1 e2 in Zpos m1 * 2 ^ (e1 - e) =? Zpos m2 * 2 ^ (e2 - e))
  | _, _ => false
  end.

Fixpoint listN_eqb (a b : list N) : bool :=
  match a, b with
  | [], [] => true
  | x :: a', y :: b' => N.eqb x y && listN_eqb a' b'
  | _, _ => false
  end.

Fixpoint gval_eqb (a b : gval) {struct a} : bool :=
  match a, b with
  | GNil, GNil => true
  | GBool x, GBool y => Bool.eqb x y
  | GInt k1 z1, GInt k2 z2 => ikind_eqb k1 k2 && (z1 =? z2)
  | GF32 x, GF32 y => num_eqb x y
  | GF64 x, GF64 y => num_eqb x y
  | GStr x, GStr y => listN_eqb x y
  | GSlice t1 l1, GSlice t2 l2 =>
    gtype_eqb t1 t2 &&
    (fix go (l1 l2 : list gval) {struct l1} : bool :=
       match l1, l2 with
       | [], [] => true
       | x :: xs, y :: ys => gval_eqb x y && go xs ys
       | _, _ => false
       end) l1 l2
  | GMap x, GMap y => N.eqb x y
  | GFunc x, GFunc y => N.eqb x y
  | GErr x, GErr y => N.eqb x y
  | _, _ => false
  end.

Fixpoint gvals_eqb (a b : list gval) : bool :=
  match a, b with
  | [], [] => true
  | x :: a', y :: b' => gval_eqb x y && gvals_eqb a' b'
  | _, _ => false
  end.

(* ---------------------------------------------------------------- behaviours of the synthetic functions *)

Inductive rexpr := RArg (i : nat) | RConst (v : gval).

Inductive beh :=
| BRet (l : list rexpr)   (* returns these: received parameter i, or a constant *)
| BPanic
| BOpaque.                (* a library function: returns values of its result types, never fails *)

Definition zero_of (t : gtype) : gval :=
  match t with
  | TInt k => GInt k 0
  | TF32 => GF32 (S754_zero false)
  | TF64 => GF64 (S754_zero false)
  | TStr => GStr []
  | TBool => GBool false
  | TSlice e => GSlice e []
  | _ => GNil
  end.

Definition callee_of (b : beh) (outs : list gtype) : callee :=
  fun recv =>
    match b with
    | BRet l => CRet (map (fun e => match e with RArg i => nth i recv GNil | RConst v => v end) l)
    | BPanic => CPanic
    | BOpaque => CRet (map zero_of outs)
    end.

(* the check leaves the implementation-dependent conversions alone (see [in_guard]) *)
Definition oor0 : ikind -> num -> Z := fun _ _ => 0.

(* ---------------------------------------------------------------- cases *)

Inductive ocls := OOk (res : gval) | OErrCallee | OErr.

Record case := mkCase {
  c_id : N;                         (* N, not nat: ids run into the hundred thousands *)
  c_sig : sig;
  c_beh : beh;
  c_args : list gval;
  c_cls : ocls;                     (* implementation: outcome of Run *)
  c_recv : option (list gval)       (* implementation: parameters the Go function was entered with *)
}.

(* every number given for an integer parameter truncates into the range of its kind *)
Fixpoint in_guard (ins : list gtype) (args : list gval) : bool :=
  match args, ins with
  | GF64 x :: r, TInt k :: ts =>
    match trunc x with Some t => in_range k t | None => false end && in_guard ts r
  | _ :: r, _ :: ts => in_guard ts r
  | _, _ => true
  end.

Definition matchesb (t : gtype) (a : gval) : bool :=
  match t, a with
  | TInt _, GF64 _ | TF32, GF64 _ | TF64, GF64 _ => true
  | TStr, GStr _ => true
  | TBool, GBool _ => true
  | TSlice TIface, GSlice TIface _ => true
  | TMap, GMap _ => true
  | _, _ => false
  end.

Fixpoint all_match (ins : list gtype) (args : list gval) : bool :=
  match ins, args with
  | [], [] => true
  | t :: ts, a :: r => matchesb t a && all_match ts r
  | _, _ => false
  end.

Definition n_results (s : sig) : nat :=
  if gtype_eqb (last (s_out s) TIface) TErr then Nat.pred (List.length (s_out s)) else List.length (s_out s).

Definition unpack (n : nat) (res : gval) : option (list gval) :=
  if Nat.eqb n 1 then Some [res]
  else match res with
       | GSlice TIface l => if Nat.eqb (List.length l) n then Some l else None
       | _ => None
       end.

(* numeric result positions: observed component equals the expected one *)
Fixpoint numeric_results_ok (outs : list gtype) (exp obs : list gval) : bool :=
  match outs, exp, obs with
  | t :: ts, e :: es, o :: os =>
    (if is_numeric t then gval_eqb e o else true) && numeric_results_ok ts es os
  | _, _, _ => true
  end.

Fixpoint numeric_results_shape (outs : list gtype) (obs : list gval) : bool :=
  match outs, obs with
  | t :: ts, o :: os =>
    (if is_numeric t then match o with GF64 _ => true | _ => false end else true)
    && numeric_results_shape ts os
  | _, _ => true
  end.

(* numeric parameters among the fixed ones: what arrived equals the conversion *)
Fixpoint numeric_args_ok (n : nat) (ins : list gtype) (args recv : list gval) : bool :=
  match n, ins, args, recv with
  | S n', t :: ts, a :: r, v :: vs =>
    (match a with
     | GF64 _ => if is_numeric t then gval_eqb (convert_number oor0 t a) v else true
     | _ => true
     end) && numeric_args_ok n' ts r vs
  | _, _, _, _ => true
  end.

Definition returns_error (b : beh) (s : sig) : bool :=
  gtype_eqb (last (s_out s) TIface) TErr &&
  match b with
  | BRet l => match last l (RConst GNil) with RConst (GErr _) => true | _ => false end
  | _ => false
  end.

Definition cls_code (c : ocls) : nat :=
  match c with OOk _ => 0 | OErrCallee => 1 | OErr => 2 end%nat.

Definition model_code (r : outcome gval) : nat :=
  match r with
  | Ok _ => 0
  | Err e => if String.eqb e E_CALLEE then 1 else 2
  | _ => 3
  end%nat.

Definition is_some {A} (o : option A) : bool := match o with Some _ => true | None => false end.

(* 0 agree
   1 too many / too few arguments or NULL, but the call succeeded                      (Spec)
   2 the function returned a non-nil trailing error, the call did not fail with it     (Spec)
   3 a number did not arrive as the conversion the Spec fixes (within the range guard) (Spec)
   4 a numeric result did not come back as the ECAL number of that value               (Spec)
   5 outcome class differs from the model
   6 received parameters differ from the model (within the guard)
   7 result differs from the model (within the guard)
   8 a non-variadic call with arguments of the matching kinds did not enter the function (Spec)
   9 entered / not entered differs from the model *)
Definition verdict (c : case) : nat :=
  let s := c_sig c in
  let args := c_args c in
  let f := callee_of (c_beh c) (s_out s) in
  let guard := in_guard (s_in s) args in
  let mrecv := match received oor0 s args with Ok r => Some r | _ => None end in
  let mrun := run oor0 s f args in
  let bad_arity := (Nat.ltb (List.length (s_in s)) (List.length args)
                    || Nat.ltb (List.length args) (fixed_count s)
                    || existsb is_nil args)%bool in
  if (bad_arity && (Nat.eqb (cls_code (c_cls c)) 0 || is_some (c_recv c)))%bool then 1%nat
  else if (negb (s_variadic s) && all_match (s_in s) args && negb (is_some (c_recv c)))%bool then 8%nat
  else if (is_some (c_recv c) && returns_error (c_beh c) s && negb (Nat.eqb (cls_code (c_cls c)) 1))%bool then 2%nat
  else if (guard && match c_recv c with
                    | Some rv => negb (numeric_args_ok (fixed_count s) (s_in s) args rv)
                    | None => false
                    end)%bool then 3%nat
  else if (match c_cls c, c_recv c with
           | OOk res, Some rv =>
             match unpack (n_results s) res with
             | None => true
             | Some obs =>
               match c_beh c with
               | BOpaque => negb (numeric_results_shape (s_out s) obs)
               | _ =>
                 match after_call s (f rv) with
                 | Ok ev =>
                   match unpack (n_results s) ev with
                   | Some exp => negb (numeric_results_ok (s_out s) exp obs)
                   | None => false
                   end
                 | _ => false
                 end
               end
             end
           | _, _ => false
           end) then 4%nat
  else if negb (Nat.eqb (cls_code (c_cls c)) (model_code mrun)) then 5%nat
  else if negb (Bool.eqb (is_some (c_recv c)) (is_some mrecv)) then 9%nat
  else if (guard && match c_beh c with BOpaque => false | _ => true end &&
           match c_recv c, mrecv with
                    | Some a, Some b => negb (gvals_eqb a b)
                    | _, _ => false
                    end)%bool then 6%nat
  else if (guard && match c_beh c with BOpaque => false | _ => true end &&
           match c_cls c, mrun with
           | OOk a, Ok b => negb (gval_eqb a b)
           | _, _ => false
           end)%bool then 7%nat
  else 0%nat.

Definition check_all (cs : list case) : list (N * nat) :=
  filter (fun p => negb (Nat.eqb (snd p) 0)) (map (fun c => (c_id c, verdict c)) cs).

(* short names used by the case files *)
Definition F (s : bool) (m : positive) (e : Z) : num := S754_finite s m e.
Definition Z0f : num := S754_zero false.

(* monomorphic list / option builders: nothing for coqc to infer in the case files *)
Definition L0 : list gval := [].
Definition L1 (a : gval) : list gval := [a].
Definition L2 (a b : gval) : list gval := [a; b].
Definition L3 (a b c : gval) : list gval := [a; b; c].
Definition L4 (a b c d : gval) : list gval := [a; b; c; d].
Definition LC (a : gval) (l : list gval) : list gval := a :: l.
Definition SomeL (l : list gval) : option (list gval) := Some l.
Definition NoneL : option (list gval) := None.
