(* Run/RunC11.v — correspondence: per-event observations of the implementation (error report
   from the event's monitor, values echoed by the sink body under that monitor) against the
   model of the action closure without shared variables, run on the schedule the harness
   enforced (controlled overlap) or on any schedule (free-running overlap: by C11_isolation
   the result does not depend on it; the sequential one is used).  Since model = Spec is a
   theorem, a difference is a Spec violation with the case as replay. *)
From Coq Require Import List Bool Arith NArith.
From Ecal Require Import Common.Sched Model.SinkInv.
Import ListNotations.
Local Open Scope nat_scope.

(* What the harness saw, as constructors over binary numbers (cheap to parse; converted to
   the model's nat below). *)
(* event payload: id, kind (0 succeed, 1 raise, 2 runtime error, 3 return), type, detail, data *)
Inductive pay := P (id kind ty detail data : N).
(* the error recorded for the event: class, type, detail, data, id of the `event` found in
   the scope attached to the error (0 = no scope / no event) *)
Inductive ores := RNone | RErr (class ty detail data env : N).
(* values reported from the body under the event's monitor: id at first read, id at second
   read, local variable, value returned by the shared global function for the local *)
Inductive echo := E (id1 id2 loc g : N).
(* controlled schedule: D invocation hold-point: 4 = held inside the body, 7 = held before
   `return err`, 8 = returned *)
Inductive dir := D (t target : N).

Record oobs := mkO { o_res : ores; o_echo : list echo }.

Record case := mkCase {
  c_id : N;
  c_pays : list pay;
  c_dirs : list dir;        (* [] = no enforced schedule (free-running) *)
  c_obs : list oobs;
  (* the variable `event` of the declaring (global) scope: number it was set to before the
     sinks were declared (0 = the script declares none) and the number found in it after all
     invocations returned (0 = none, or no longer that kind of value) *)
  c_outer : N;
  c_outer_after : N }.

Definition payload_of (p : pay) : cpayload :=
  let '(P i k t d a) := p in mkP (N.to_nat i) (N.to_nat k) (N.to_nat t) (N.to_nat d) (N.to_nat a).
Definition c_events (c : case) : list cpayload := map payload_of (c_pays c).

Fixpoint drive (fuel : nat) (s : cstate) (t target : nat) (acc : list nat) : list nat * cstate :=
  match fuel with
  | 0 => (acc, s)
  | S f =>
      match nth_error (g_threads s) t with
      | None => (acc, s)
      | Some th =>
          if pc_index (t_pc th) <? target
          then match cstep no_sharing s t with
               | Some s' => drive f s' t target (t :: acc)
               | None => (acc, s)
               end
          else (acc, s)
      end
  end.

Fixpoint sched_of (s : cstate) (dirs : list dir) (acc : list nat) : list nat :=
  match dirs with
  | [] => rev acc
  | D t target :: rest => let '(acc', s') := drive 9 s (N.to_nat t) (N.to_nat target) acc in sched_of s' rest acc'
  end.

Definition sequential (n : nat) : list dir := map (fun i => D (N.of_nat i) 8) (seq 0 n).

(* the model's result of invocation i in the harness's terms *)
Inductive mres := MNone | MErr (class ty detail data env : nat).
Definition res_of (evs : list cpayload) (r : option (rerr cerr)) : mres :=
  match r with
  | None => MNone
  | Some e =>
      let b := r_base e in
      MErr (e_class b) (e_ty b) (e_detail b) (e_data b)
           (match r_env e with
            | Some i => match nth_error evs i with Some p => p_id p | None => 0 end
            | None => 0
            end)
  end.

Definition res_eqb (a : mres) (b : ores) : bool :=
  match a, b with
  | MNone, RNone => true
  | MErr a1 a2 a3 a4 a5, RErr b1 b2 b3 b4 b5 =>
      let '(b1, b2, b3, b4, b5) := (N.to_nat b1, N.to_nat b2, N.to_nat b3, N.to_nat b4, N.to_nat b5) in
      (* the attached scope is compared only when the implementation attaches one: it must
         then be the invocation's own (b = observed) *)
      Nat.eqb a1 b1 && Nat.eqb a2 b2 && Nat.eqb a3 b3 && Nat.eqb a4 b4 && (Nat.eqb a5 b5 || Nat.eqb b5 0)
  | _, _ => false
  end.

Definition echo_ok (th : thread cpayload cerr) (o : oobs) : bool :=
  match t_echo th, o_echo o with
  | Some (Some i1, i2, Some l), [E a b c d] =>
      Nat.eqb (N.to_nat a) i1 && Nat.eqb (N.to_nat b) i2 && Nat.eqb (N.to_nat c) l && Nat.eqb (N.to_nat d) l
  | _, _ => false
  end.

Fixpoint compare (evs : list cpayload) (ths : list (thread cpayload cerr)) (os : list oobs) : nat :=
  match ths, os with
  | [], [] => 0
  | th :: ths', o :: os' =>
      if negb (res_eqb (res_of evs (match t_ret th with Some r => r | None => None end)) (o_res o)) then 1
      else if negb (echo_ok th o) then 2
      else compare evs ths' os'
  | _, _ => 3
  end.

Definition outer_of (n : N) : option nat := if N.eqb n 0 then None else Some (N.to_nat n).
Definition outer_eqb (a b : option nat) : bool :=
  match a, b with Some x, Some y => Nat.eqb x y | None, None => true | _, _ => false end.

(* 0 = agree; 1 = the error recorded for an event is not what that event dictates;
   2 = the values echoed under an event's monitor are not that event's;
   3 = the case is malformed (the model cannot follow the schedule to the end);
   4 = the declaring scope's own variable `event` was changed by the invocations *)
Definition verdict (c : case) : nat :=
  let evs := c_events c in
  let dirs := match c_dirs c with [] => sequential (List.length evs) | d => d end in
  let s0 := cinit_with (outer_of (c_outer c)) evs in
  let sched := sched_of s0 dirs [] in
  match run (cstep no_sharing) s0 sched with
  | None => 3
  | Some s' =>
      if negb (all_done s') then 3
      else match compare evs (g_threads s') (c_obs c) with
           | 0 => if outer_eqb (g_outer s') (outer_of (c_outer_after c)) then 0 else 4
           | v => v
           end
  end.

Definition check_all (cs : list case) : list (N * nat) :=
  filter (fun p => negb (Nat.eqb (snd p) 0)) (map (fun c => (c_id c, verdict c)) cs).

(* self-test of the checker on the defect's witness: a lost error is flagged *)
Example verdict_flags_lost_error :
  verdict (mkCase 1 [P 1 1 11 12 13; P 2 0 0 0 0] [D 0 7; D 1 8; D 0 8]
                  [mkO RNone [E 1 1 1 1]; mkO RNone [E 2 2 2 2]] 0 0) = 1.
Proof. vm_compute. reflexivity. Qed.

Example verdict_accepts_exact_report :
  verdict (mkCase 1 [P 1 1 11 12 13; P 2 0 0 0 0] [D 0 7; D 1 8; D 0 8]
                  [mkO (RErr 1 11 12 13 1) [E 1 1 1 1]; mkO RNone [E 2 2 2 2]] 4242 4242) = 0.
Proof. vm_compute. reflexivity. Qed.

Example verdict_flags_overwritten_outer_event :
  verdict (mkCase 1 [P 1 0 0 0 0] [] [mkO RNone [E 1 1 1 1]] 4242 0) = 4.
Proof. vm_compute. reflexivity. Qed.
