(* Run/RunC03Interp.v — THREE-WAY tie for C03: the focused expression model / operator Spec
   (Model/Expr.v, proved to refine Spec/ExprSemSpec.v in Props/C03.v), the unified interpreter
   model (Model/Interp.v) and the REAL interpreter, on the same expression.

   The harness (harness/c03_interp.go) takes an expression of the first C03 streams and builds
   a whole PROGRAM in pure ECAL: one assignment per variable of the scope (`n0 := 0` ...), then

       R := null
       try { R := [0, <expr>] } except e { R := [1, e.type] }
       R

   so that the observation - value or error type of the expression - is one ECAL value.  The
   real parser's tree of that text is evaluated by the real runtime (observation c3_obs) and,
   here, by Model/Interp.v.  The focused model is evaluated on the real tree of the BARE
   expression in the environment of those variables, exactly as Run/RunC03.v does
   (RunC03.value_of, RunC03.determined, Expr.eval env rx [] tree), and its result is translated
   to the value the program must produce.

   verdict 0: focused model / Spec = implementation = interpreter model. *)
From Coq Require Import List String NArith ZArith Bool Arith Floats.
From Ecal Require Model.Expr Run.RunC03.
From Ecal Require Import Common.Bytes Common.Ast gen.Tokens Model.Interp Run.RunC06Interp.
Import ListNotations.
Local Open Scope nat_scope.

Record case3 := mkC3I {
  c3_id : N;
  c3_expr : node;                        (* real tree of the bare expression *)
  c3_envo : list (bytes * oval);         (* the variables the program assigns first *)
  c3_tree : node;                        (* real tree of the program *)
  c3_nums : list (bytes * Z);
  c3_strs : list (bytes * option Z);
  c3_obs : obs                           (* the real runtime on the program's tree *)
}.

Definition IFUEL : nat := 1000.          (* the interpreter model's fuel (a depth bound) *)

(* ---- the focused model on the bare expression, as in Run/RunC03.v *)
Fixpoint to_c03 (o : oval) : RunC03.ovalue :=
  match o with
  | ONull => RunC03.ONull
  | OBool b => RunC03.OBool b
  | ONum z => RunC03.ONum z
  | OStr s => RunC03.OStr s
  | OList l => RunC03.OList (map to_c03 l)
  | OMap _ | OFun | OOther => RunC03.OOther
  end.

Definition c3_env (c : case3) : list (bytes * Expr.value) :=
  map (fun p => (fst p, RunC03.value_of (to_c03 (snd p)))) (c3_envo c).

Definition focused (c : case3) : Expr.eres := Expr.eval (c3_env c) [] [] (c3_expr c).

(* ---- the value the program must produce for a result of the focused model *)
Definition onat (n : nat) : oval := ONum (Expr.float_bits (Expr.float_of_int64 (Z.of_nat n))).

Fixpoint oval_of (v : Expr.value) : oval :=
  match v with
  | Expr.VNull => ONull
  | Expr.VBool b => OBool b
  | Expr.VNum f => ONum (Expr.float_bits f)
  | Expr.VStr s => OStr s
  | Expr.VList l => OList (map oval_of l)
  end.

(* the type string e.type shows for an error class (Proofs/InterpExprRefine.v ty_of) *)
Definition ty_text (c : Expr.ecls) : bytes :=
  match c with
  | Expr.ENotANumber => bs "Operand is not a number"
  | Expr.ENotABoolean => bs "Operand is not a boolean"
  | Expr.ENotAList => bs "Operand is not a list"
  | Expr.ERegex => bs "Runtime error"
  end.

(* None: not comparable - the focused model does not model the outcome (number formatting
   beyond 15 digits, int64 conversion beyond 2^63 ...) or answers "Go panic", which it does for
   `% 0` and for == / != on lists and maps, where the repaired code returns a runtime error *)
Definition expected (r : Expr.eres) : option obs :=
  match r with
  | Expr.RVal v => Some (ObsValue (OList [onat 0; oval_of v]))
  | Expr.RErr cl _ _ _ => Some (ObsValue (OList [onat 1; OStr (ty_text cl)]))
  | Expr.RPanic _ | Expr.RUnmodelled _ => None
  end.

Definition obs_matches (e o : obs) : bool :=
  match e, o with
  | ObsValue a, ObsValue b => oval_eqb a b
  | ObsError a, ObsError b => bytes_eqb a b
  | _, _ => false
  end.

(* ---- the rendering: the program's tree contains the bare expression's tree (lines aside) at
   try / statements / := / list / second element *)
Fixpoint node_eq_nolines (a b : node) : bool :=
  match a, b with
  | Node n1 v1 i1 a1 _ c1, Node n2 v2 i2 a2 _ c2 =>
    String.eqb n1 n2 && bytes_eqb v1 v2 && Bool.eqb i1 i2 && Bool.eqb a1 a2 &&
    (fix go (x y : list node) : bool :=
       match x, y with
       | [], [] => true
       | p :: r1, q :: r2 => node_eq_nolines p q && go r1 r2
       | _, _ => false
       end) c1 c2
  end.

Definition kid (i : nat) (n : option node) : option node :=
  match n with Some m => nth_error (n_children m) i | None => None end.

Definition expr_of_prog (t : node) : option node :=
  let tr := find (fun n => String.eqb (n_name n) NodeTRY) (n_children t) in
  let blk := kid 0 tr in
  let asg := if match blk with Some b => String.eqb (n_name b) NodeSTATEMENTS | None => false end
             then kid 0 blk else blk in
  kid 1 (kid 1 asg).

Definition rendering_ok (c : case3) : bool :=
  match expr_of_prog (c3_tree c) with
  | Some e => node_eq_nolines e (c3_expr c)
  | None => false
  end.

(* ---- interpreter model = implementation (as Run/RunC06Interp.v, Run/RunC04Interp.v) *)
Definition interp_verdict (c : case3) : nat :=
  let r := m_eval (c3_nums c) (c3_strs c) IFUEL (c3_tree c) in
  match fst r, c3_obs c with
  | _, ObsPanic => 101
  | ROk v, ObsValue w =>
    if oval_eqb (@reify (float_ops (c3_nums c) (c3_strs c)) Expr.float_bits 12 (snd r) v) w then 0 else 102
  | RErr e, ObsError cls => if bytes_eqb (err_type_text e) cls then 0 else 103
  | ROk _, ObsError _ => 104
  | RErr _, ObsValue _ => 105
  | RPanic _, _ => 106
  | RFuel, _ => 107
  | RUnmod _, _ => 108
  | RInvalid _, _ => 109
  end.

(* 0   agree (focused model / Spec = implementation = interpreter model)
   30  the focused model is not comparable on this expression (unmodelled outcome, or its
       "Go panic" where the repaired code returns a runtime error); interpreter model =
       implementation was checked and holds                                          [skip]
   31  the implementation's value / error type contradicts the documented operator semantics
       (the operators' operands have the documented kinds, or a wrong-kind operand of an
       arithmetic / boolean operator did not give the documented error)              [spec]
   32  the program's tree does not contain the bare expression's tree (rendering)    [model]
   33  focused model and implementation differ where the property text is silent     [model]
   34  the implementation panicked (belongs to property C06)                         [skip]
   35  neither model is comparable (both answer "unmodelled": fmt.Sprint of an infinity ...) [skip]
   102 .. 105  interpreter model and implementation differ although the implementation agrees
               with the focused model
   106 model Panic   107 model fuel   109 model says invalid                         [model]
   108 the interpreter model answers "outside the modelled fragment" (the harness filters the
       constructs; what remains depends on values: number formatting outside the modelled
       domain); focused model = implementation was checked and holds                 [skip] *)
Definition verdict3 (c : case3) : nat :=
  match c3_obs c with
  | ObsPanic => 34
  | o =>
    if negb (rendering_ok c) then 32
    else
      let r := focused c in
      let spec_code :=
        match expected r with
        | None => 30
        | Some e =>
          if obs_matches e o then 0
          else match r with
               | Expr.RErr Expr.ENotANumber _ _ _ | Expr.RErr Expr.ENotABoolean _ _ _ => 31
               | _ => if RunC03.determined (c3_env c) [] (c3_expr c) then 31 else 33
               end
        end in
      match spec_code with
      | 31 => 31
      | 33 => 33
      | k => match interp_verdict c with
             | 0 => k
             | 108 => match k with 30 => 35 | _ => 108 end
             | m => m
             end
      end
  end.

Definition check_all (cs : list case3) : list (N * nat) :=
  filter (fun p => negb (Nat.eqb (snd p) 0)) (map (fun c => (c3_id c, verdict3 c)) cs).

(* for replays / debugging *)
Definition model_interp (c : case3) := fst (m_eval (c3_nums c) (c3_strs c) IFUEL (c3_tree c)).
