From Coq Require Import NArith.
(* Run/RunC04.v — correspondence for C04: the marker trace and the completion observed on
   the implementation for a rendered skeleton program, against the Spec (and, as a
   safeguard, against the model of the repaired code, which Props/C04 proves equal to it).
   A mismatch is classified by the variant switch of Model/Control.v that explains it. *)
From Ecal Require Import Model.ControlSyntax Model.Control Spec.ControlSpec Proofs.ControlProofs.

Record case := mkCase {
  c_id : N;
  c_prog : block;          (* the skeleton program *)
  c_trace : trace;         (* implementation: events in order *)
  c_compl : compl          (* implementation: how Runtime.Eval ended *)
}.

Definition FUEL : nat := 40.

Definition opt_nat_eqb (a b : option nat) : bool :=
  match a, b with
  | None, None => true
  | Some x, Some y => Nat.eqb x y
  | _, _ => false
  end.

Definition event_eqb (a b : event) : bool :=
  match a, b with
  | EvMark n, EvMark m => Nat.eqb n m
  | EvIter x, EvIter y => Z.eqb x y
  | EvKey k, EvKey l => key_eqb k l
  | EvCaught s, EvCaught t => ety_eqb s t
  | EvRet v, EvRet w => opt_nat_eqb v w
  | _, _ => false
  end.

Fixpoint trace_eqb (a b : trace) : bool :=
  match a, b with
  | [], [] => true
  | x :: a', y :: b' => event_eqb x y && trace_eqb a' b'
  | _, _ => false
  end.

Definition compl_eqb (a b : compl) : bool :=
  match a, b with
  | Normal, Normal => true
  | Raised s, Raised t => ety_eqb s t
  | Returned v, Returned w => Nat.eqb v w
  | Broke, Broke => true
  | Continued, Continued => true
  | _, _ => false
  end.

Definition result_eqb (r : result) (t : trace) (c : compl) : bool :=
  match r with
  | None => false
  | Some (t', c') => trace_eqb t' t && compl_eqb c' c
  end.

(* the model with exactly one of the legacy behaviours *)
Definition only (k : nat) : variant :=
  mkVariant (Nat.eqb k 1) (Nat.eqb k 2) (Nat.eqb k 3) (Nat.eqb k 4) (Nat.eqb k 5) (Nat.eqb k 6).

Definition explains (V : variant) (c : case) : bool :=
  result_eqb (decode (mprog V FUEL (c_prog c))) (c_trace c) (c_compl c).

(* 0  agree
   1  trace differs from the Spec        2  completion differs from the Spec
   11 .. 15  differs from the Spec exactly as the code with the legacy behaviour
             1 except-by-child-count, 2 signals offered to except, 3 condition loop keeps
             break, 4 finally result dropped, 5 range from==to empty   would
   17 differs from the Spec exactly as an ifRuntime would in which a later guard overwrites
      the error of an earlier guard
   16 differs from the Spec exactly as the unchanged code would
   3  agrees with the Spec but not with the model of the repaired code (cannot happen: theorem)
   9  the Spec runs out of fuel on this program (not comparable) *)
Definition verdict (c : case) : nat :=
  match sprog FUEL (c_prog c) with
  | None => 9
  | Some (t, k) =>
    if trace_eqb t (c_trace c) && compl_eqb k (c_compl c) then
      (if explains repaired c then 0 else 3)
    else if explains (only 1) c then 11
    else if explains (only 2) c then 12
    else if explains (only 3) c then 13
    else if explains (only 4) c then 14
    else if explains (only 5) c then 15
    else if explains (only 6) c then 17
    else if explains unchanged c then 16
    else if negb (trace_eqb t (c_trace c)) then 1
    else 2
  end%nat.

Definition check_all (cs : list case) : list (N * nat) :=
  filter (fun p => negb (Nat.eqb (snd p) 0)) (map (fun c => (c_id c, verdict c)) cs).

Definition spec_out (c : case) : result := sprog FUEL (c_prog c).
Definition model_out (c : case) : result := decode (mprog repaired FUEL (c_prog c)).
