(* Run/RunC10.v — correspondence: observations made on the implementation replayed against the
   models.  Three kinds of cases:
     CMon    a history of monitor API calls on one cascade with HighestPriority() sampled (zero or more times)
             after each call;
     CQueue  a totally ordered trace of task-queue pushes and pops (cascade choice taken from
             the observation);
     CRules  one event: its triggered rules, the observed sequence of action starts and the
             observed error report, under a setting of fail-on-first-error. *)
From Coq Require Import List ZArith Bool Arith.
From Ecal Require Import Common.Outcome Common.Sched Model.IntHeap Model.Monitor Model.TaskQueue.
Import ListNotations.

Inductive case :=
| CMon (id : N) (ops : list op) (obs : list (list Z))
| CQueue (id : N) (trace : list tq_label)
| CRules (id : N) (flag : bool) (rules : list rule) (executed : list nat) (errors : list nat).

Definition c_id (c : case) : N :=
  match c with CMon i _ _ => i | CQueue i _ => i | CRules i _ _ _ _ => i end.

(* monitor: after every operation, a sampled report must be the model's *)
Fixpoint mon_check (s : rootmon) (ops : list op) (obs : list (list Z)) : nat :=
  match ops, obs with
  | [], [] => 0
  | o :: ops', ob :: obs' =>
    match mon_step s o with
    | Ok s' =>
      if forallb (fun v => Z.eqb v (highest_priority s')) ob then mon_check s' ops' obs' else 1
    | _ => 9                      (* the history breaks the API protocol: generator fault *)
    end
  | _, _ => 9
  end.

Fixpoint index_of (x : nat) (l : list nat) (i : nat) : option nat :=
  match l with
  | [] => None
  | y :: t => if Nat.eqb x y then Some i else index_of x t (S i)
  end.

Fixpoint list_nat_eqb (a b : list nat) : bool :=
  match a, b with
  | [], [] => true
  | x :: a', y :: b' => Nat.eqb x y && list_nat_eqb a' b'
  | _, _ => false
  end.

Fixpoint insert_nat (x : nat) (l : list nat) : list nat :=
  match l with [] => [x] | y :: t => if Nat.leb x y then x :: l else y :: insert_nat x t end.
Definition sort_nat (l : list nat) : list nat := fold_right insert_nat [] l.

(* rules: the tie-break among equal priorities is read off the observation (rules that did not
   run come last), everything else is the model's *)
Definition rules_check (flag : bool) (rules : list rule) (executed errors : list nat) : nat :=
  let tie := fun r => match index_of (r_id r) executed 0 with Some i => i | None => (length executed + r_id r)%nat end in
  let res := process_event (ins_sort tie) flag rules in
  if negb (list_nat_eqb (map r_id (fst res)) executed) then 3
  else if negb (list_nat_eqb (sort_nat (snd res)) (sort_nat errors)) then 4
  else 0.

Definition verdict (c : case) : nat :=
  match c with
  | CMon _ ops obs =>
    let v := mon_check new_root ops obs in
    (* 5 instead of 1 when the history contains a Skip (two repaired defects, two findings) *)
    if Nat.eqb v 1 && existsb (fun o => match o with Skip _ => true | _ => false end) ops then 5 else v
  | CQueue _ trace => match run tq_step [] trace with Some _ => 0 | None => 2 end
  | CRules _ flag rules executed errors => rules_check flag rules executed errors
  end.

(* ---- compact wire format ---------------------------------------------------------------
   Long constructor terms are slow to parse, so the harness writes every case as
   (kind, id, flat list of integers):
     kind 0  monitor history: per call  code (0 NewChild, 1 Activate, 2 Skip, 3 Finish), argument,
             number k of samples, k samples
     kind 1  queue trace: per label  code (0 push, 1 pop, 2 pop-nil), cascade, priority, task
     kind 2  rule sequence: flag, number of rules, per rule (id, priority, fails), number of
             action starts, the rule ids, number of reported failures, the rule ids *)
Definition raw := (Z * Z * list Z)%type.

Definition dec_op (code arg : Z) : option op :=
  if Z.eqb code 0 then Some (NewChild arg)
  else if Z.eqb code 1 then Some (Activate (Z.to_nat arg))
  else if Z.eqb code 2 then Some (Skip (Z.to_nat arg))
  else if Z.eqb code 3 then Some (Finish (Z.to_nat arg))
  else None.

Fixpoint dec_mon (fuel : nat) (l : list Z) : option (list op * list (list Z)) :=
  match fuel with
  | O => None
  | S f =>
    match l with
    | [] => Some ([], [])
    | code :: arg :: k :: rest =>
      let n := Z.to_nat k in
      match dec_op code arg, dec_mon f (skipn n rest) with
      | Some o, Some (ops, obss) =>
        if Nat.leb n (length rest) then Some (o :: ops, firstn n rest :: obss) else None
      | _, _ => None
      end
    | _ => None
    end
  end.

Fixpoint dec_queue (fuel : nat) (l : list Z) : option (list tq_label) :=
  match fuel with
  | O => None
  | S f =>
    match l with
    | [] => Some []
    | code :: root :: prio :: task :: rest =>
      match dec_queue f rest with
      | Some t =>
        if Z.eqb code 0 then Some (TPush (Z.to_nat root) prio (Z.to_nat task) :: t)
        else if Z.eqb code 1 then Some (TPop [] (Z.to_nat root) (Z.to_nat task) :: t)
        else if Z.eqb code 2 then Some (TPopNil [] :: t)
        else None
      | None => None
      end
    | _ => None
    end
  end.

Fixpoint dec_rules (n : nat) (l : list Z) : option (list rule * list Z) :=
  match n with
  | O => Some ([], l)
  | S n' =>
    match l with
    | id :: prio :: fails :: rest =>
      match dec_rules n' rest with
      | Some (rs, rest') => Some (mkRule (Z.to_nat id) prio [] (negb (Z.eqb fails 0)) :: rs, rest')
      | None => None
      end
    | _ => None
    end
  end.

Definition dec_counted (l : list Z) : option (list nat * list Z) :=
  match l with
  | k :: rest =>
    let n := Z.to_nat k in
    if Nat.leb n (length rest) then Some (map Z.to_nat (firstn n rest), skipn n rest) else None
  | [] => None
  end.

Definition decode (r : raw) : option case :=
  let '(kind, id, l) := r in
  let i := Z.to_N id in
  if Z.eqb kind 0 then
    match dec_mon (S (length l)) l with Some (ops, obs) => Some (CMon i ops obs) | None => None end
  else if Z.eqb kind 1 then
    match dec_queue (S (length l)) l with Some t => Some (CQueue i t) | None => None end
  else if Z.eqb kind 2 then
    match l with
    | flag :: nr :: rest =>
      match dec_rules (Z.to_nat nr) rest with
      | Some (rules, rest1) =>
        match dec_counted rest1 with
        | Some (ex, rest2) =>
          match dec_counted rest2 with
          | Some (er, []) => Some (CRules i (negb (Z.eqb flag 0)) rules ex er)
          | _ => None
          end
        | None => None
        end
      | None => None
      end
    | _ => None
    end
  else None.

(* 8 = the harness wrote something that does not decode *)
Definition verdict_raw (r : raw) : nat :=
  match decode r with Some c => verdict c | None => 8 end.

Definition check_all (cs : list raw) : list (N * nat) :=
  filter (fun p => negb (Nat.eqb (snd p) 0)) (map (fun r => (Z.to_N (snd (fst r)), verdict_raw r)) cs).
