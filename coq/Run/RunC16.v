(* Run/RunC16.v — correspondence for C16: the harness measures the real debugger's state with
   "status" (threads: id, stack depth, interrogated?/running?, error?; break points), sends one
   command line and reports result-or-error and the break points afterwards.  The model state is
   rebuilt from the measurement, the model handles the same (abstracted) line; what the scopes
   and the expression evaluator answered is not observable, so the observed class must be one
   the model produces for SOME oracle. *)
From Coq Require Import List String ZArith NArith Bool.
From Ecal Require Import Model.DebugCmd.
Import ListNotations.

Record tinfo := mkTI {
  ti_id : N;
  ti_depth : nat;              (* len(callStack) *)
  ti_is : option bool;         (* "threadRunning" present: Some running *)
  ti_err : bool                (* "error" not null *)
}.

(* the state measured before the line *)
Record pre := mkPre {
  p_global : bool;             (* debugger created with a global scope *)
  p_refs : bool;               (* some code was evaluated already *)
  p_bos : bool;
  p_bps : list ((N * Z) * bool);
  p_threads : list tinfo
}.

Record case := mkCase {
  c_id : N;                    (* binary: ids run into the ten thousands *)
  c_pre : pre;
  c_line : list token;
  c_obs : nat;                 (* 0 = result, 1 = error *)
  c_bps_after : list ((N * Z) * bool)
}.

Definition thread_of (t : tinfo) : thread :=
  mkT (ti_id t) (repeat [] (ti_depth t))
      (match ti_is t with
       | Some r => Some (mkIS r IStop 0 true [] (if ti_err t then Some GNull else None) 0)
       | None => None
       end).

Definition state_of (c : case) : dstate :=
  let p := c_pre c in
  mkD (p_bps p) (p_bos p) [] (map thread_of (p_threads p)) (p_global p) (p_refs p) 0.

Definition oracles : list oracle :=
  flat_map (fun g => flat_map (fun e => map (fun st => mkOracle g (if e : bool then Some GNum else None) st)
                                            [true; false]) [true; false]) [true; false].

(* 0 = result, 1 = error, 2 = panic, 3 = blocked *)
Definition class_of (r : res) : nat :=
  match r with ROk _ => 0 | RErr => 1 | RPanic _ => 2 | RBlocked => 3 end.

Definition bpe_eqb (a b : (N * Z) * bool) : bool := bp_eqb (fst a) (fst b) && Bool.eqb (snd a) (snd b).
Definition bps_subset (a b : list ((N * Z) * bool)) : bool :=
  forallb (fun x => existsb (bpe_eqb x) b) a.
Definition bps_same (a b : list ((N * Z) * bool)) : bool := bps_subset a b && bps_subset b a.

(* 0 = agree, 1 = result/error class differs for every oracle, 2 = break points afterwards differ,
   3 = the model reaches a panic site or blocks in the measured state *)
Definition verdict (c : case) : nat :=
  let s := state_of c in
  let outs := map (fun o => handle s o (c_line c)) oracles in
  if existsb (fun p => Nat.leb 2 (class_of (snd p))) outs then 3
  else if negb (existsb (fun p => Nat.eqb (class_of (snd p)) (c_obs c)) outs) then 1
  else if negb (existsb (fun p => Nat.eqb (class_of (snd p)) (c_obs c)
                                  && bps_same (d_bps (fst p)) (c_bps_after c)) outs) then 2
  else 0.

Definition check_all (cs : list case) : list (N * nat) :=
  filter (fun p => negb (Nat.eqb (snd p) 0)) (map (fun c => (c_id c, verdict c)) cs).
