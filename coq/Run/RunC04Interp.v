(* Run/RunC04Interp.v — THREE-WAY tie for C04: the clean big-step Spec of the control skeleton
   language (Spec/ControlSpec.v), the unified interpreter model (Model/Interp.v) and the REAL
   interpreter, on the same program.

   The harness (harness/c04_interp.go) renders a skeleton program a second time in PURE ECAL:
   the logging functions mark / iter / kv / caught / retv are ECAL functions that append to a
   global list L (instead of Go functions registered in the scope), the program is the body of
   `func main()`, and the text ends with

       R := null
       try { R := [0, main()] } except e { R := [1, e.type] }
       [L, R]

   so that the whole observation is one ECAL value.  The real parser's tree of that text is
   evaluated by the real runtime (observation c_obs) and, here, by Model/Interp.v; the Spec's
   (trace, completion) of the skeleton is translated to the value the text must produce.

   verdict 0: Spec = implementation = interpreter model. *)
From Coq Require Import List String NArith ZArith Bool Arith Floats.
From Ecal Require Import Common.Bytes Common.Ast Model.Expr Model.Interp
     Model.ControlSyntax Spec.ControlSpec Run.RunC06Interp.
Import ListNotations.
Local Open Scope nat_scope.

Record case4 := mkC4I {
  c4_id : N;
  c4_prog : block;                       (* the skeleton *)
  c4_tree : node;                        (* real tree of the pure rendering *)
  c4_nums : list (bytes * Z);
  c4_strs : list (bytes * option Z);
  c4_obs : obs                           (* the real runtime on that tree *)
}.

Definition SFUEL : nat := 40.            (* the Spec's fuel (as in RunC04.v) *)
Definition IFUEL : nat := 3000.          (* the interpreter model's fuel *)

(* ---- the value the pure rendering must produce for a Spec result *)
Definition onat (n : nat) : oval := ONum (float_bits (float_of_int64 (Z.of_nat n))).
Definition oz (z : Z) : oval := ONum (float_bits (float_of_int64 z)).

Fixpoint dec_aux (fuel n : nat) (acc : bytes) : bytes :=
  match fuel with
  | O => acc
  | S f =>
    let d := N.of_nat (n mod 10 + 48) in
    if n <? 10 then d :: acc else dec_aux f (n / 10) (d :: acc)
  end.
Definition dec (n : nat) : bytes := dec_aux 20 n [].

(* the type string of an error as e.type shows it; EOther: any string *)
Definition oety (t : ety) : oval :=
  match t with
  | EUser n => OStr (84%N :: dec n)                      (* "T<n>" *)
  | EUnknownConstruct => OStr (bs "Unknown construct")
  | EOther _ => OOther
  end.

Definition oevent (e : event) : oval :=
  match e with
  | EvMark n => OList [onat 1; onat n]
  | EvIter z => OList [onat 2; oz z]
  | EvKey k => OList [onat 3; OStr k; OStr (118%N :: k)]  (* value = "v" ++ key *)
  | EvCaught t => OList [onat 4; oety t]
  | EvRet None => OList [onat 5; ONull]
  | EvRet (Some v) => OList [onat 5; onat v]
  end.

Definition T_EOI_b : bytes := bs "End of iteration was reached".
Definition T_CONT_b : bytes := bs "End of iteration step - Continue iteration".

Definition expected (t : trace) (k : compl) : obs :=
  let L := OList (map oevent t) in
  match k with
  | Normal => ObsValue (OList [L; OList [onat 0; ONull]])
  | Returned v => ObsValue (OList [L; OList [onat 0; onat v]])
  | Raised e => ObsValue (OList [L; OList [onat 1; oety e]])
  | Broke => ObsError T_EOI_b
  | Continued => ObsError T_CONT_b
  end.

(* [obs_matches expected observed] *)
Definition obs_matches (e o : obs) : bool :=
  match e, o with
  | ObsValue a, ObsValue b => oval_eqb a b
  | ObsError a, ObsError b => bytes_eqb a b
  | _, _ => false
  end.

(* 0   agree (Spec = implementation = interpreter model)
   21  the implementation's value differs from what the Spec demands (pure rendering)
   101 the implementation panicked
   102 .. 105  interpreter model and implementation differ (as in RunC06Interp) although the
               implementation agrees with the Spec
   106 model Panic   107 model fuel   108 outside the modelled fragment   109 model says invalid
   9   the Spec runs out of fuel (not comparable) *)
Definition verdict4 (c : case4) : nat :=
  match sprog SFUEL (c4_prog c) with
  | None => 9
  | Some (t, k) =>
    match c4_obs c with
    | ObsPanic => 101
    | o =>
      if negb (obs_matches (expected t k) o) then 21
      else
        let r := m_eval (c4_nums c) (c4_strs c) IFUEL (c4_tree c) in
        match fst r, o with
        | ROk v, ObsValue w =>
          if oval_eqb (@reify (float_ops (c4_nums c) (c4_strs c)) float_bits 12 (snd r) v) w then 0 else 102
        | RErr e, ObsError cls => if bytes_eqb (err_type_text e) cls then 0 else 103
        | ROk _, ObsError _ => 104
        | RErr _, ObsValue _ => 105
        | RPanic _, _ => 106
        | RFuel, _ => 107
        | RUnmod _, _ => 108
        | RInvalid _, _ => 109
        | _, ObsPanic => 101
        end
    end
  end.

Definition check_all (cs : list case4) : list (N * nat) :=
  filter (fun p => negb (Nat.eqb (snd p) 0)) (map (fun c => (c4_id c, verdict4 c)) cs).
