(* Run/RunC20.v — correspondence for C20.  The harness packs a synthetic "interpreter
   binary" B with a project tree through CLIPacker.Pack, starts the produced file through
   RunPackedBinary (in-process, exit / error callbacks recorded) and writes one case: the
   constants read from the implementation (marker, b1, b2), B as run-length segments, the
   first bytes and the length of the archive as found in the produced file, and what was
   observed.  Here the model scans the same file (the archive body beyond its first bytes
   is filled with zeros: by C20_scan_leftmost_marker the answer cannot depend on it once
   the marker and a non-skipped byte were seen) and the observations are compared. *)
From Ecal Require Import Common.Bytes Common.Outcome Model.PackScan Spec.PackSpec.

Inductive seg := Rep (n : N) (b : N) | Lit (l : bytes).

Definition expand_seg (s : seg) : bytes :=
  match s with
  | Rep n b => repeat b (N.to_nat n)
  | Lit l => l
  end.

Definition expand (l : list seg) : bytes := flat_map expand_seg l.

Record case := mkCase {
  c_id : N;                  (* N, not nat: a unary case number costs more to parse than the case *)
  c_marker : bytes;          (* packmarker of the implementation *)
  c_b1 : N;                  (* b1 in effect *)
  c_b2 : N;                  (* b2 in effect *)
  c_bin : list seg;          (* the source binary B *)
  c_zhead : bytes;           (* first bytes of the archive in the produced file *)
  c_zlen : N;                (* length of the archive *)
  c_layout : bool;           (* produced file = B ++ marker ++ zip(project tree, entry) *)
  c_reached : bool;          (* exit callback reached, error handler saw no error *)
  c_rc_ok : bool;            (* ... with the entry file's return code *)
  c_files_ok : bool;         (* values the packed program obtained through imports = packed files *)
  c_off : option N           (* archive offset the implementation used (None: not observable) *)
}.

Definition file_of (c : case) : bytes :=
  expand (c_bin c) ++ c_marker c ++ c_zhead c
         ++ repeat 0 (N.to_nat (c_zlen c) - length (c_zhead c)).

(* the guard [unambiguous], decided *)
Definition unambiguousb (marker B : bytes) : bool :=
  match find_sub marker (B ++ removelast marker) with None => true | Some _ => false end.

Definition starts_pk (z : bytes) : bool :=
  match z with 80 :: 75 :: _ => true | _ => false end.

Definition off_differs (obs : option N) (m : nat) : bool :=
  match obs with Some o => negb (N.to_nat o =? m)%nat | None => false end.

(* 0 agree
   1 exit callback not reached (marker missed / misread, or the run failed)      spec
   2 reached, wrong return code                                                  spec
   3 reached, values seen through imports differ from the packed files           spec
   4 archive offset used by the implementation differs from the model            model
   5 the produced file is not B ++ marker ++ zip of the project                  spec
   6 model differs from the closed form |B| + |marker| although the guard holds  model (contradicts the theorem)
   7 b1 = 0: side condition of every theorem fails                               model
   8 case outside the theorem's hypotheses (archive does not start with "PK")    skip *)
Definition verdict (c : case) : nat :=
  if (c_b1 c =? 0)%N then 7%nat else
  let B := expand (c_bin c) in
  let r := scan (c_marker c) (N.to_nat (c_b1 c)) (N.to_nat (c_b2 c)) full_reads (file_of c) in
  if negb (c_layout c) then 5%nat else
  if negb (starts_pk (c_zhead c)) then 8%nat else
  match r with
  | Ok (Some m) =>
    if unambiguousb (c_marker c) B then
      if negb (m =? archive_offset (c_marker c) B)%nat then 6%nat
      else if negb (c_reached c) then 1%nat
      else if negb (c_rc_ok c) then 2%nat
      else if negb (c_files_ok c) then 3%nat
      else if off_differs (c_off c) m then 4%nat
      else 0%nat
    else
      (* the marker text can be read before the packer's marker: the Spec fixes nothing
         about the run; only the offset is compared *)
      if off_differs (c_off c) m then 4%nat else 0%nat
  | _ => 6%nat
  end.

Definition check_all (cs : list case) : list (N * nat) :=
  filter (fun p => negb (Nat.eqb (snd p) 0)) (map (fun c => (c_id c, verdict c)) cs).

Definition model_out (c : case) : scan_result :=
  scan (c_marker c) (N.to_nat (c_b1 c)) (N.to_nat (c_b2 c)) full_reads (file_of c).
