From Coq Require Import NArith.
(* Run/RunC01.v — correspondence for C01: one case = a rule set, a regex table measured on
   the implementation, a history of (scope definitions, event) pairs, and what the
   implementation did for every event of the history:
     - RuleIndex.Match   (names, sorted, with multiplicity)    - RuleIndex.IsTriggering
     - Processor.AddEvent returned a monitor (not skipped)      - the actions that ran
   the last two once per worker configuration that the harness found to differ (one entry
   when 1, 2 and 8 workers agree).  The model is run on the same history; the Spec is
   evaluated next to it. *)
From Ecal Require Import Model.Processor.
Open Scope N_scope.

Record case := mkCase {
  c_id : N;
  c_rules : list rule;
  c_rx : list (N * value * bool);
  c_hist : list (list (path * bool) * event);
  c_match : list (list N);
  c_trig : list bool;
  c_added : list (list bool);
  c_fired : list (list (list N));
  c_conc : bool          (* the processor observations come from the concurrent stream *)
}.

(* short constructors for the cases files *)
Definition R := mkRule.
Definition E := mkEvent.
Definition vn (z : Z) := VNum z.
Definition vs (s : N) := VStr s.
Definition vl (i : N) := VList i.
Definition vm (i : N) := VMap i.
Definition qv (v : value) := RVal v.
Definition qx (i : N) := RRegex i.

Definition value_same (a b : value) : bool :=
  match a, b with
  | VNull, VNull => true
  | VBool x, VBool y => Bool.eqb x y
  | VNum x, VNum y => Z.eqb x y
  | VStr x, VStr y => N.eqb x y
  | VList x, VList y => N.eqb x y
  | VMap x, VMap y => N.eqb x y
  | _, _ => false
  end.

Definition rx_of (tbl : list (N * value * bool)) (id : N) (v : value) : bool :=
  existsb (fun e => match e with (i, w, b) => (i =? id) && value_same w v && b end) tbl.

Fixpoint insN (x : N) (l : list N) : list N :=
  match l with
  | [] => [x]
  | y :: l' => if x <=? y then x :: l else y :: insN x l'
  end.
Definition sortN (l : list N) : list N := fold_right insN [] l.

Fixpoint eqNs (a b : list N) : bool :=
  match a, b with
  | [], [] => true
  | x :: a', y :: b' => (x =? y) && eqNs a' b'
  | _, _ => false
  end.

Definition names_of (l : list rule) : list N := sortN (map r_name l).

Definition first_nonzero (l : list nat) : nat :=
  fold_right (fun x acc => match x with O => acc | _ => x end) 0%nat l.

Fixpoint zip3 {A B C} (a : list A) (b : list B) (c : list C) : list (A * B * C) :=
  match a, b, c with
  | x :: a', y :: b', z :: c' => (x, y, z) :: zip3 a' b' c'
  | _, _, _ => []
  end.

Definition same_len {A B} (a : list A) (b : list B) : bool := Nat.eqb (length a) (length b).

(* verdict codes
   1  Match returned a different multiset of rules than the Spec        (spec)
   2  IsTriggering = false although some rule matches                   (spec)
   3  AddEvent skipped an event for which Spec.fires is non-empty       (spec)
   4  the actions that ran differ from Spec.fires                       (spec)
   6  IsTriggering differs from the model (not a Spec matter)           (model)
   7  AddEvent skipped/queued differs from the model, fires empty       (model)
   8  model and Spec differ on this case                                (model)
   9  the model rejects the rule set / malformed case                   (model)
   13, 14 = 3, 4 observed while events of the history were in flight concurrently   (spec) *)
Definition check_event (rx : N -> value -> bool) (rules : list rule) (rt : root)
           (de : list (path * bool) * event) (om : list N) (ot : bool) : nat :=
  let ev := snd de in
  let mm := names_of (match_ev rx rt ev) in
  let sm := names_of (spec_matches rx rules ev) in
  if negb (eqNs mm sm) then 8%nat
  else if negb (eqNs om sm) then 1%nat
  else if negb ot && negb (match sm with [] => true | _ => false end) then 2%nat
  else if negb (Bool.eqb ot (is_triggering rt ev)) then 6%nat
  else 0%nat.

Fixpoint check_run (rx : N -> value -> bool) (rules : list rule) (p : proc)
         (h : list (list (path * bool) * event)) (oa : list bool) (ofi : list (list N)) : nat :=
  match h, oa, ofi with
  | [], [], [] => 0%nat
  | (defs, ev) :: h', a :: oa', f :: ofi' =>
    let '(p', ma, ex) := run_event rx p (build_scope defs) ev in
    let sf := names_of (fires rx defs rules ev) in
    let mf := names_of ex in
    let nonempty := negb (match sf with [] => true | _ => false end) in
    if negb (eqNs mf sf) then 8%nat
    else if negb a && nonempty then 3%nat
    else if negb (eqNs f sf) then 4%nat
    else if negb (Bool.eqb a (match ma with Queued => true | Skipped => false end)) then 7%nat
    else check_run rx rules p' h' oa' ofi'
  | _, _, _ => 9%nat
  end.

Definition verdict_seq (c : case) : nat :=
  match build (c_rules c) with
  | Ok rt =>
    let rx := rx_of (c_rx c) in
    if negb (same_len (c_hist c) (c_match c) && same_len (c_hist c) (c_trig c) &&
             same_len (c_added c) (c_fired c)) then 9%nat
    else
      let v1 := first_nonzero (map (fun t => match t with (de, om, ot) =>
                                      check_event rx (c_rules c) rt de om ot end)
                                   (zip3 (c_hist c) (c_match c) (c_trig c))) in
      match v1 with
      | O => first_nonzero (map (fun af => check_run rx (c_rules c) (start rt) (c_hist c) (fst af) (snd af))
                                (combine (c_added c) (c_fired c)))
      | _ => v1
      end
  | _ => 9%nat
  end.

Definition verdict (c : case) : nat :=
  let v := verdict_seq c in
  if c_conc c then match v with 3%nat => 13%nat | 4%nat => 14%nat | _ => v end else v.

Definition check_all (cs : list case) : list (N * nat) :=
  filter (fun p => negb (Nat.eqb (snd p) 0)) (map (fun c => (c_id c, verdict c)) cs).
