(* Run/RunC13.v — correspondence for the forced interleavings: the harness parses n texts
   on n goroutines and lets them advance, one at a time, from one hook point
   ("parser.guard.block", right after Enter) to the next, following a schedule.  For every
   thread it reports whether tree / error differ from the sequential parse of the same text.
   The model runs the same schedule: the repaired protocol (New) predicts "never differs"
   (theorem C13_hook_schedules_sequential); the table-swapping protocol (Old) predicts which
   threads are hit, which classifies a violation as exactly the known defect. *)
From Coq Require Import String List NArith Bool.
Import ListNotations.
Local Open Scope list_scope.
From Ecal Require Import Common.Sched Model.ParseShared.

Record case := mkCase {
  c_id : N;
  c_progs : list (list action);   (* per thread: the actions of its parse (from the real token list) *)
  c_sched : list nat;             (* big steps: thread ids; complete (every thread ends) *)
  c_hooks : list nat;             (* implementation: hook hits of each text parsed alone *)
  c_seq_ok : list bool;           (* implementation: the text parses without error alone *)
  c_differs : list bool           (* implementation: result under the schedule <> result alone *)
}.

Fixpoint list_eqb {A} (eqb : A -> A -> bool) (a b : list A) : bool :=
  match a, b with
  | [], [] => true
  | x :: a', y :: b' => eqb x y && list_eqb eqb a' b'
  | _, _ => false
  end.

Definition count_enter (prog : list action) : nat :=
  List.length (filter (fun a => match a with Enter => true | _ => false end) prog).

(* per thread: does its look-up trace under the schedule differ from its trace alone? *)
Definition predicted (p : proto) (c : case) : option (list bool) :=
  match run_big p (c_progs c) (c_sched c) with
  | None => None
  | Some s =>
      if all_done s
      then Some (map (fun pt => negb (list_eqb entry_eqb (fst pt) (seq_trace p EMap (snd pt))))
                     (combine (traces s) (c_progs c)))
      else None
  end.

Fixpoint hooks_agree (progs : list (list action)) (hooks : list nat) (ok : list bool) : bool :=
  match progs, hooks, ok with
  | [], [], [] => true
  | pr :: progs', h :: hooks', o :: ok' =>
      (negb o || Nat.eqb (count_enter pr) h) && hooks_agree progs' hooks' ok'
  | _, _, _ => false
  end.

(* 0 = the implementation agrees with the repaired model: no thread differs
   1 = some thread differs from its sequential result, exactly as the table-swapping protocol predicts
   2 = some thread differs from its sequential result (not the pattern of the table swap)
   3 = the action lists derived from the token lists disagree with the hook hits observed
   4 = the schedule does not finish all threads in the model (case not comparable) *)
Definition verdict (c : case) : nat :=
  if negb (hooks_agree (c_progs c) (c_hooks c) (c_seq_ok c)) then 3
  else match predicted New c, predicted Old c with
       | Some pn, Some po =>
           if list_eqb Bool.eqb (c_differs c) pn then 0
           else if list_eqb Bool.eqb (c_differs c) po then 1
           else 2
       | _, _ => 4
       end.

Definition check_all (cs : list case) : list (N * nat) :=
  filter (fun p => negb (Nat.eqb (snd p) 0)) (map (fun c => (c_id c, verdict c)) cs).
