(* Run/RunC15.v — correspondence for C15.
   DecCase: one debugged thread of a real run: the events the debugger received for it
   (VisitState / VisitStepInState / VisitStepOutState calls, recorded by a wrapper around
   the real debugger), the breakpoint edits and the continue command given at each of its
   suspensions, and the indices of the events during which the implementation reached the
   hook point "debug.suspend".  The model ([run_events]) must predict the same indices.
   ProtoCase: a schedule of the suspend/continue protocol that the harness forced on the
   implementation with the hook points, and whether the thread got out of its suspension. *)
From Coq Require Import List Arith Bool NArith.
From Ecal Require Import Common.Sched Model.Debugger Spec.DebugSpec.
Import ListNotations.

Inductive case :=
| DecCase (id : N) (edits0 : list edit) (bos boe : bool) (evs : list event)
          (cmds : list (list edit * ctype)) (obs : list nat)
| ProtoCase (id : N) (sched : list label) (t : nat) (resumed : bool).

Definition c_id (c : case) : N :=
  match c with DecCase id _ _ _ _ _ _ => id | ProtoCase id _ _ _ => id end.

Definition stepping (d : dthr) : bool :=
  match d_is d with
  | Some i => match i_cmd i with CStop | CStepIn | CStepOver => true | _ => false end
  | None => false
  end.

Definition stepping_out (d : dthr) : bool :=
  match d_is d with
  | Some i => match i_cmd i with CStepOut | CKill => true | _ => false end
  | None => false
  end.

(* walk along the events while model and implementation agree; classify the first
   difference with the Spec predicates:
   1 = the implementation did not suspend although the thread arrived from a different line
       at an active breakpoint (and was not being stepped out of a function)
   2 = the implementation suspended at a node without an active breakpoint, pending step
       command or break-on-start
   3 = any other difference between model and implementation *)
Fixpoint classify (e : denv) (d : dthr) (evs : list event) (cmds : list (list edit * ctype))
         (idx : nat) (obs : list nat) : nat :=
  match evs with
  | [] => match obs with [] => 0 | _ => 3 end
  | ev :: rest =>
      let k := match cmds with (_, k) :: _ => k | [] => KResume end in
      let '(e', d', s) := handle e d ev k in
      let o := match obs with i :: _ => Nat.eqb i idx | [] => false end in
      if Bool.eqb s o then
        if s then
          match cmds with
          | (eds, _) :: cmds' =>
              classify (mkEnv (apply_edits (e_bps e') eds) (e_bos e') (e_boe e')) d' rest cmds' (S idx) (tl obs)
          | [] => classify e' d' rest [] (S idx) (tl obs)
          end
        else classify e' d' rest cmds (S idx) obs
      else if s then
        match ev with
        | EVisit line =>
            if must_suspend (bp_active (e_bps e)) (d_pos d) line && negb (stepping_out d) then 1 else 3
        | _ => 3
        end
      else
        match ev with
        | EVisit line =>
            if negb (bp_active (e_bps e) line) && negb (e_bos e) && negb (stepping d) then 2 else 3
        | _ => 3
        end
  end.

(* 4 = the model (for which release is a theorem) says the thread is running again after
       this schedule, the implementation's thread did not leave its suspension;
   5 = the forced schedule is not a schedule of the model / other difference *)
Definition verdict (c : case) : nat :=
  match c with
  | DecCase _ edits0 bos boe evs cmds obs =>
      classify (mkEnv (apply_edits [] edits0) bos boe) dthr0 evs cmds 0 obs
  | ProtoCase _ sched t resumed =>
      match run proto_new dinit sched with
      | Some s =>
          let m := pc_eqb (t_pc (threads s t)) PRun || pc_eqb (t_pc (threads s t)) PDead in
          if Bool.eqb m resumed then 0 else if m then 4 else 5
      | None => 5
      end
  end.

Definition check_all (cs : list case) : list (N * nat) :=
  filter (fun p => negb (Nat.eqb (snd p) 0)) (map (fun c => (c_id c, verdict c)) cs).

Definition model_out (c : case) : list nat :=
  match c with
  | DecCase _ edits0 bos boe evs cmds _ =>
      run_events (mkEnv (apply_edits [] edits0) bos boe) dthr0 evs cmds 0
  | ProtoCase _ _ _ _ => []
  end.
