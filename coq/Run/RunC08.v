(* Run/RunC08.v — correspondence for C08: the token sequence (kinds, values, string kind,
   line breaks) obtained by lexing the REAL output of parser.PrettyPrint for a tree produced
   by the REAL parser, against the token-level printer model run on the same tree. *)
From Coq Require Import List String NArith Bool Arith.
From Ecal Require Import Common.Bytes Common.Ast gen.Tokens Model.Printer.
Import ListNotations.
Local Open Scope nat_scope.

(* one observed token: LexToken.ID, Val (only for string/number/identifier), AllowEscapes
   (strings only), and whether it starts on a later line than the token before it *)
Record otok := tk { t_id : nat; t_val : bytes; t_allow : bool; t_nl : bool }.

Record case := mkCase {
  c_id : N;
  c_lines : bool;          (* compare line structure too (false for trees with comments) *)
  c_tree : node;           (* parser.Parse(source), serialised by the harness *)
  c_toks : list otok       (* parser.LexToList(parser.PrettyPrint(tree)) without comments / EOF *)
}.

Fixpoint flatten (nl : bool) (first : bool) (l : list item) : list otok :=
  match l with
  | [] => []
  | NL :: r => flatten (negb first) first r
  | T id v a :: r => tk id v a nl :: flatten false false r
  end.

Definition otok_eqb (lines : bool) (a b : otok) : bool :=
  Nat.eqb (t_id a) (t_id b) && bytes_eqb (t_val a) (t_val b) && Bool.eqb (t_allow a) (t_allow b) &&
  (negb lines || Bool.eqb (t_nl a) (t_nl b)).

Fixpoint otoks_eqb (lines : bool) (a b : list otok) : bool :=
  match a, b with
  | [], [] => true
  | x :: a', y :: b' => otok_eqb lines x y && otoks_eqb lines a' b'
  | _, _ => false
  end.

Definition is_unmodelled (l : list item) : bool :=
  existsb (fun x => match x with T id _ _ => Nat.eqb id TokenError | NL => false end) l.

(* separators are optional for the parser and a post comment may swallow one: for trees
   with comments they are left out of the comparison *)
Definition drop_commas (lines : bool) (l : list otok) : list otok :=
  if lines then l else filter (fun t => negb (Nat.eqb (t_id t) TokenCOMMA)) l.

Definition model_toks (c : case) : list otok := flatten false true (pp (c_tree c)).

(* 0 = agree, 1 = the model prints a different token sequence than the implementation,
   3 = the tree contains a node shape the model does not cover (not compared) *)
Definition verdict (c : case) : nat :=
  let m := pp (c_tree c) in
  if is_unmodelled m then 3
  else if otoks_eqb (c_lines c) (drop_commas (c_lines c) (flatten false true m))
                    (drop_commas (c_lines c) (c_toks c)) then 0 else 1.

Definition check_all (cs : list case) : list (N * nat) :=
  filter (fun p => negb (Nat.eqb (snd p) 0)) (map (fun c => (c_id c, verdict c)) cs).
