(* Run/RunC14.v — correspondence: the implementation's observed result of evaluating a
   string literal against the model, the evaluator given as a finite table that the
   harness obtained by evaluating every candidate code on its own. *)
From Ecal Require Import Common.Bytes Model.StrInterp.

Record case := mkCase {
  c_id : N;
  c_allow : bool;                      (* Token.AllowEscapes: false for raw strings *)
  c_lit : bytes;                       (* token value *)
  c_table : list (bytes * bytes);      (* code -> replacement text *)
  c_tick : list (bytes * nat);         (* code -> how often evaluating that code alone calls the counting function *)
  c_out : bytes;                       (* implementation: resulting string *)
  c_ticks : nat                        (* implementation: evaluations of c_tick *)
}.

Fixpoint lookup (t : list (bytes * bytes)) (c : bytes) : option bytes :=
  match t with
  | [] => None
  | (k, v) :: t' => if bytes_eqb k c then Some v else lookup t' c
  end.

Definition ev_of (t : list (bytes * bytes)) (c : bytes) : bytes :=
  match lookup t c with Some v => v | None => [] end.

Fixpoint lookup_n (t : list (bytes * nat)) (c : bytes) : nat :=
  match t with
  | [] => O
  | (k, v) :: t' => if bytes_eqb k c then v else lookup_n t' c
  end.

(* calls of the counting function the literal's own expressions make, each evaluated once *)
Definition count_ticks (t : list (bytes * nat)) (l : list bytes) : nat :=
  fold_right (fun c acc => (lookup_n t c + acc)%nat) O l.

(* 0 = agree, 1 = output differs, 2 = number of evaluations differs,
   3 = a code the model evaluates is missing from the table (case not comparable) *)
Definition verdict (c : case) : nat :=
  match eval_string (ev_of (c_table c)) (c_allow c) (c_lit c) with
  | None => 1%nat
  | Some (out, log) =>
    if negb (forallb (fun k => match lookup (c_table c) k with Some _ => true | None => false end) log)
    then 3%nat
    else if negb (bytes_eqb out (c_out c)) then 1%nat
    else if negb (Nat.eqb (count_ticks (c_tick c) log) (c_ticks c)) then 2%nat
    else 0%nat
  end.

Definition check_all (cs : list case) : list (N * nat) :=
  filter (fun p => negb (Nat.eqb (snd p) 0)) (map (fun c => (c_id c, verdict c)) cs).

Definition model_out (c : case) : option (bytes * list bytes) :=
  eval_string (ev_of (c_table c)) (c_allow c) (c_lit c).
