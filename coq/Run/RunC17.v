(* Run/RunC17.v — correspondence for C17.

   Strings travel as lists of element codes: the string is the elements, looked up in the
   table of the environment, joined with "/" (so [""; "a"; ""] is "/a/").  The environment
   (element table, working directory of the harness process, sentinel files of the sandbox
   tree with their absolute cleaned paths) is defined in the header of every cases file.

   kinds: 1 = filepath.Clean(a)          observed string in c_out
          2 = filepath.Join(a, b)        observed string in c_out
          3 = filepath.Rel(a, b)         c_obs = 0 error / 1 ok with the string in c_out
          4 = FileImportLocator{Root: a}.Resolve(b) (directly or through an import statement)
                                         c_obs = 0 error / id of the sentinel file whose content came back
                                         (an id that is not in the table = some other file)  *)
From Coq Require Import Uint63 ZArith.
From Ecal Require Import Common.Bytes Model.PathClean Model.ImportLoc.

Record env := mkEnv {
  e_elems : list bytes;          (* element table *)
  e_cwd : bytes;                 (* working directory (absolute, cleaned) *)
  e_files : list (N * bytes)     (* sentinel id (>= 1) -> absolute cleaned path *)
}.

Record case := mkCase {
  c_id : N;
  c_kind : N;
  c_a : list N;
  c_b : list N;
  c_obs : N;
  c_out : list N
}.

Definition decode (e : env) (codes : list N) : bytes :=
  join_slash (map (fun i => nth (N.to_nat i) (e_elems e) [120;120;120]) codes).

(* the absolute path the operating system resolves [p] to (lexically) *)
Definition absolute (e : env) (p : bytes) : bytes :=
  if rooted p then clean p else clean (e_cwd e ++ SLASH :: p).

Fixpoint file_id (fs : list (N * bytes)) (p : bytes) : N :=
  match fs with
  | [] => 0
  | (i, q) :: fs' => if bytes_eqb p q then i else file_id fs' p
  end.

Fixpoint file_path (fs : list (N * bytes)) (i : N) : option bytes :=
  match fs with
  | [] => None
  | (k, q) :: fs' => if k =? i then Some q else file_path fs' i
  end.

Fixpoint list_prefixb (a b : list bytes) : bool :=
  match a, b with
  | [], _ => true
  | x :: a', y :: b' => bytes_eqb x y && list_prefixb a' b'
  | _ :: _, [] => false
  end.

(* Spec oracle that does not use the model of Resolve: the file whose content came back
   lies below the root directory (element-wise prefix of the absolute cleaned paths) *)
Definition below (e : env) (root : bytes) (i : N) : bool :=
  match file_path (e_files e) i with
  | None => false                 (* content of a file that is not one of the sentinels *)
  | Some fp => list_prefixb (comps (absolute e (clean root))) (comps fp)
  end.

(* 0 = agree; 1/2/3 = the model of Clean/Join/Rel differs from the library;
   4 = Resolve returned the content of a file outside the root; 5 = Resolve's decision or the
   file it opened differs from the model (inside the root); 9 = malformed case *)
Definition verdict (e : env) (c : case) : N :=
  let a := decode e (c_a c) in
  let b := decode e (c_b c) in
  let out := decode e (c_out c) in
  match c_kind c with
  | 1 => if bytes_eqb (clean a) out then 0 else 1
  | 2 => if bytes_eqb (join2 a b) out then 0 else 2
  | 3 => match rel a b, c_obs c with
         | None, 0 => 0
         | Some r, 1 => if bytes_eqb r out then 0 else 3
         | _, _ => 3
         end
  | 4 => if negb (c_obs c =? 0) && negb (below e a (c_obs c)) then 4
         else
           let expected := match resolve a b with
                           | None => 0
                           | Some p => file_id (e_files e) (absolute e p)
                           end in
           if expected =? c_obs c then 0 else 5
  | _ => 9
  end.

(* Packed transport format.  coqc spends most of its time interpreting numerals of type N,
   so a case travels as a few primitive 63-bit integers, each holding ten 6-bit digits
   (least significant first):
     id (4 digits), kind, obs (63 = "some other file"), |a|, a.., |b|, b.., |out|, out..  *)
Inductive pcase :=
| P1 (a : int) | P2 (a b : int) | P3 (a b c : int) | P4 (a b c d : int)
| P5 (a b c d e : int) | P6 (a b c d e f : int) | P7 (a b c d e f g : int)
| P8 (a b c d e f g h : int) | PL (l : list int).

Definition ints (p : pcase) : list int :=
  match p with
  | P1 a => [a] | P2 a b => [a; b] | P3 a b c => [a; b; c] | P4 a b c d => [a; b; c; d]
  | P5 a b c d e => [a; b; c; d; e] | P6 a b c d e f => [a; b; c; d; e; f]
  | P7 a b c d e f g => [a; b; c; d; e; f; g] | P8 a b c d e f g h => [a; b; c; d; e; f; g; h]
  | PL l => l
  end.

Definition shifts : list int := [0; 6; 12; 18; 24; 30; 36; 42; 48; 54]%uint63.

(* a 6-bit value as N (Uint63.to_Z would walk over all 63 bits) *)
Definition bit (i k : int) (v : N) : N := if Uint63.eqb (Uint63.land i k) 0%uint63 then 0 else v.
Definition small_N (i : int) : N :=
  bit i 1%uint63 1 + bit i 2%uint63 2 + bit i 4%uint63 4 + bit i 8%uint63 8 + bit i 16%uint63 16 + bit i 32%uint63 32.

Definition digits_of_int (i : int) : list N :=
  map (fun k => small_N (Uint63.lsr i k)) shifts.

Fixpoint take (n : nat) (l : list N) : list N * list N :=
  match n with
  | O => ([], l)
  | S k => let (r, rest) := take k (tl l) in (hd 0 l :: r, rest)
  end.

Definition take_counted (l : list N) : list N * list N := take (N.to_nat (hd 0 l)) (tl l).

Definition unpack (p : pcase) : case :=
  let ds := flat_map digits_of_int (ints p) in
  let (idd, ds) := take 4 ds in
  let id := nth 0 idd 0 + 64 * (nth 1 idd 0 + 64 * (nth 2 idd 0 + 64 * nth 3 idd 0)) in
  let kind := hd 0 ds in
  let obs := hd 0 (tl ds) in
  let (a, ds) := take_counted (tl (tl ds)) in
  let (b, ds) := take_counted ds in
  let (out, _) := take_counted ds in
  mkCase id kind a b (if obs =? 63 then 9999 else obs) out.

Definition check_all_env (e : env) (cs : list pcase) : list (N * N) :=
  filter (fun p => negb (snd p =? 0)) (map (fun p => let c := unpack p in (c_id c, verdict e c)) cs).

(* what the model says, for the replay printout *)
Definition model_resolve (e : env) (c : case) : option bytes :=
  resolve (decode e (c_a c)) (decode e (c_b c)).
