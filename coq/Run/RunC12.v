From Coq Require Import NArith.
(* Run/RunC12.v — correspondence for C12: an observed execution of generated ECAL programs
   (2..16 threads entering named mutex blocks, every exit kind) against the Spec's occupancy
   automaton and against the model.

   The harness records, under its own lock and from INSIDE the blocks, when a thread has
   entered a block (first statement of the body), is about to leave it (last statement
   executed in the body, for every exit kind) and when it increments the shared counter.
   Checked here:
     - the trace is accepted by Spec.occ_run (never two different threads inside one name,
       every exit made by the occupant) and the harness' own occupancy count agrees;
     - the final counter equals the number of increments of the programs;
     - the trace is a run of the model: replaying it thread by thread with Model.step_ev
       (the model's LOOKUP/LOCK/SETOWNER/CLEAROWNER/UNLOCK steps filled in) never blocks,
       emits exactly the observed events and ends with every thread finished. *)
From Ecal Require Import Model.Mutex Spec.MutexSpec.

Inductive tev := TEnter (t n : N) | TLeave (t n : N) | TInc (t : N).

(* compact encoding used by the harness (numerals parse much faster than constructor terms):
   program step: 0 = OInc, 4n+1 = OEnter n, 4k+2 = OLeave (k-th exit kind);
   trace event:  kind + 4 * (name + 8 * tid), kind 0 = enter, 1 = leave, 2 = increment *)
Definition dec_exit (k : N) : exitk :=
  match k with
  | 0 => XNormal | 1 => XError | 2 => XReturn | 3 => XBreak | _ => XContinue
  end%N.
Definition dec_op (c : N) : op :=
  match (c mod 4)%N with
  | 0%N => OInc
  | 1%N => OEnter (c / 4)%N
  | _ => OLeave (dec_exit (c / 4)%N)
  end.
Definition dec_ev (c : N) : tev :=
  let r := (c / 4)%N in
  match (c mod 4)%N with
  | 0%N => TEnter (r / 8) (r mod 8)
  | 1%N => TLeave (r / 8) (r mod 8)
  | _ => TInc (r / 8)
  end%N.

Record ecase := mkCase {
  e_id : N;
  e_threads : list (N * list N);
  e_trace : list N;
  e_counter : N;
  e_maxocc : nat;
  e_completed : bool
}.

Record case := mkDCase {
  c_id : N;
  c_threads : list (N * list op);   (* thread id, program (entries / exits / increments in order) *)
  c_trace : list tev;               (* observed *)
  c_counter : N;                    (* observed: final value of the shared counter *)
  c_maxocc : nat;                   (* observed: max number of distinct threads simultaneously inside one name *)
  c_completed : bool                (* observed: all threads ran to completion within the bound *)
}.

Definition occ_of (tr : list tev) : list occ_event :=
  flat_map (fun e => match e with
                     | TEnter t n => [OccEnter t n]
                     | TLeave t n => [OccLeave t n]
                     | TInc _ => []
                     end) tr.

Fixpoint nodupb (l : list N) : bool :=
  match l with
  | [] => true
  | x :: r => negb (existsb (N.eqb x) r) && nodupb r
  end.

Definition good_idsb (th : list (N * list op)) : bool :=
  nodupb (map fst th) && forallb (fun x => negb (N.eqb x 0)) (map fst th).

Fixpoint index_of (t : N) (l : list thread) (i : nat) : option nat :=
  match l with
  | [] => None
  | x :: r => if N.eqb (tid x) t then Some i else index_of t r (S i)
  end.

(* run thread i until it emits an event *)
Fixpoint until_event (fuel : nat) (s : state) (i : nat) : option (state * event) :=
  match fuel with
  | O => None
  | S f =>
      match step_ev s i with
      | None => None
      | Some (s', Some e) => Some (s', e)
      | Some (s', None) => until_event f s' i
      end
  end.

(* the deferred function's last step (mutex.Unlock) belongs to the exit just observed *)
Definition settle (s : state) (i : nat) : option state :=
  match nth_error (thr s) i with
  | Some t => match pc t with PUnlock _ => step s i | _ => Some s end
  | None => None
  end.

Definition event_eqb (a b : event) : bool :=
  match a, b with
  | EvEnter t n, EvEnter t' n' => N.eqb t t' && N.eqb n n'
  | EvLeave t n, EvLeave t' n' => N.eqb t t' && N.eqb n n'
  | _, _ => false
  end.

Definition replay_ev (s : state) (e : tev) : option state :=
  match e with
  | TEnter t n =>
      match index_of t (thr s) 0 with
      | None => None
      | Some i =>
          match until_event 3 s i with
          | Some (s', ev) => if event_eqb ev (EvEnter t n) then Some s' else None
          | None => None
          end
      end
  | TLeave t n =>
      match index_of t (thr s) 0 with
      | None => None
      | Some i =>
          match until_event 1 s i with
          | Some (s', ev) => if event_eqb ev (EvLeave t n) then settle s' i else None
          | None => None
          end
      end
  | TInc t =>
      match index_of t (thr s) 0 with
      | None => None
      | Some i =>
          match nth_error (thr s) i with
          | Some th =>
              match pc th, ops th with
              | PIdle, OInc :: _ =>
                  match step s i with Some s1 => step s1 i | None => None end
              | _, _ => None
              end
          | None => None
          end
      end
  end.

Fixpoint replay (s : state) (tr : list tev) (k : nat) : state + nat :=
  match tr with
  | [] => inl s
  | e :: r => match replay_ev s e with Some s' => replay s' r (S k) | None => inr k end
  end.

(* 0 = agree
   1 = two different threads inside one name / exit by a non-occupant   (Spec violated)
   2 = final counter differs from the number of increments             (Spec violated)
   3 = not all threads completed                                        (Spec violated)
   4 = the trace is exclusive but the model cannot follow it / does not end finished
   5 = thread ids are not pairwise distinct and non-zero (guard of the theorems) *)
Definition verdict (c : case) : nat :=
  if negb (c_completed c) then 3
  else if negb (good_idsb (c_threads c)) then 5
  else if negb (occ_ok (occ_of (c_trace c))) || Nat.ltb 1 (c_maxocc c) then 1
  else if negb (N.eqb (c_counter c)
                      (N.of_nat (list_sum (map (fun p => count_inc (snd p)) (c_threads c))))) then 2
  else match replay (init (c_threads c)) (c_trace c) 0 with
       | inr _ => 4
       | inl s =>
           if negb (forallb finishedb (thr s)) then 4
           else if negb (N.eqb (ctr (sh s)) (c_counter c)) then 4
           else if fatal (sh s) then 4
           else 0
       end.

Definition decode (e : ecase) : case :=
  mkDCase (e_id e) (map (fun p => (fst p, map dec_op (snd p))) (e_threads e))
          (map dec_ev (e_trace e)) (e_counter e) (e_maxocc e) (e_completed e).

Definition check_all (cs : list ecase) : list (N * nat) :=
  filter (fun p => negb (Nat.eqb (snd p) 0)) (map (fun e => (e_id e, verdict (decode e))) cs).

(* diagnostics for a failing case: index of the first trace event the Spec automaton /
   the model rejects *)
Definition diag (c : case) : option nat * option nat :=
  (occ_first_bad occ_empty (occ_of (c_trace c)) 0,
   match replay (init (c_threads c)) (c_trace c) 0 with inr k => Some k | inl _ => None end).
