(* Run/RunC03.v — correspondence for C03.  One case = one expression source text:
   the REAL lexer's tokens, the REAL parser's tree (or its error), the writing (tree with
   explicit parentheses) the harness printed the text from, the scope's variables, the regexp
   oracle measured on the implementation, and the REAL evaluation's outcome.

   verdict codes (lib/propcfg/C03.json):
     0 agree
     1 parser model <> implementation (tree or error)                         [model]
     2 the real tree is not the tree of the writing (precedence/associativity) [spec]
     3 the real value/error contradicts the documented semantics              [spec]
     4 evaluation model <> implementation where the text is silent            [model]
     5 the harness' writing does not reproduce the real token sequence        [model]
     6 wrong-kind operand: no error, or its class / named operand differ      [spec]
     7 the harness' writing lacks required parentheses (generator defect)     [model]
     9 not comparable (model: unmodelled outcome or a Go panic that belongs to C06) [skip] *)
From Coq Require Import List String NArith ZArith Bool Arith Floats.
From Ecal Require Import Common.Bytes Common.Ast gen.Tokens Model.Pratt Model.Expr
  Spec.ExprGrammarSpec Spec.ExprSemSpec.
Import ListNotations.
Local Open Scope nat_scope.

(* compact constructors for the cases files *)
Definition TK (id : nat) (val : bytes) (flags : nat) (line : nat) : token :=
  mkTok id val (Nat.odd flags) (Nat.leb 2 flags) line.
Definition TI (val : bytes) (flags : nat) (line : nat) : tinfo :=
  mkTI val (Nat.odd flags) (Nat.leb 2 flags) line.

(* observed values: numbers as their 64-bit pattern *)
Inductive ovalue := ONull | OBool (b : bool) | ONum (bits : Z) | OStr (s : bytes) | OList (l : list ovalue) | OOther.

Inductive obs :=
| ObsNone                                         (* not evaluated (assignment / parse error) *)
| ObsVal (v : ovalue)
| ObsErr (cls : nat) (detail : bytes) (path : list nat)
      (* 0 not a number, 1 not a boolean, 2 not a list, 3 any other error; the error's
         detail string; root-to-node path of the node the error carries (empty if unknown) *)
| ObsPanic.

(* a float from its 64-bit pattern (exact) *)
Definition float_of_bits (z : Z) : float :=
  let neg := Z.testbit z 63 in
  let E := Z.land (Z.shiftr z 52) 2047 in
  let mant := Z.land z (2 ^ 52 - 1) in
  let mag :=
    if Z.eqb E 2047 then (if Z.eqb mant 0 then PrimFloat.infinity else PrimFloat.nan)
    else if Z.eqb E 0 then Z.ldexp (float_of_Z mant) (-1074)
    else Z.ldexp (float_of_Z (2 ^ 52 + mant)) (E - 1075) in
  if neg then PrimFloat.opp mag else mag.
Fixpoint value_of (o : ovalue) : value :=
  match o with
  | ONull | OOther => VNull
  | OBool b => VBool b
  | ONum z => VNum (float_of_bits z)
  | OStr s => VStr s
  | OList l => VList (map value_of l)
  end.

Inductive ptree :=
| PTree (n : node)
| PError (kind : nat).     (* the real parser returned an error *)

Record case := mkCase {
  c_id : N;
  c_toks : list token;
  c_tree : ptree;
  c_writing : option pexpr;
  c_envo : list (bytes * ovalue);      (* the scope's variables *)
  c_rx : list (bytes * bytes * option bool);
  c_obs : obs
}.

Definition c_env (c : case) : list (bytes * value) := map (fun p => (fst p, value_of (snd p))) (c_envo c).

(* ---- trees: full equality including lines *)
Fixpoint node_eq_full (a b : node) : bool :=
  match a, b with
  | Node n1 v1 i1 a1 l1 c1, Node n2 v2 i2 a2 l2 c2 =>
    String.eqb n1 n2 && bytes_eqb v1 v2 && Bool.eqb i1 i2 && Bool.eqb a1 a2 && Nat.eqb l1 l2 &&
    (fix go (x y : list node) : bool :=
       match x, y with
       | [], [] => true
       | p :: r1, q :: r2 => node_eq_full p q && go r1 r2
       | _, _ => false
       end) c1 c2
  end.

Definition tok_eqb (a b : token) : bool :=
  Nat.eqb (t_id a) (t_id b) && bytes_eqb (t_val a) (t_val b) && Bool.eqb (t_ident a) (t_ident b)
  && Bool.eqb (t_esc a) (t_esc b) && Nat.eqb (t_line a) (t_line b).
Fixpoint toks_eqb (a b : list token) : bool :=
  match a, b with
  | [], [] => true
  | x :: r1, y :: r2 => tok_eqb x y && toks_eqb r1 r2
  | _, _ => false
  end.

(* ---- values *)
Fixpoint value_matches (v : value) (o : ovalue) : bool :=
  match v, o with
  | VNull, ONull => true
  | VBool a, OBool b => Bool.eqb a b
  | VNum f, ONum z => Z.eqb (float_bits f) z
  | VStr a, OStr b => bytes_eqb a b
  | VList l, OList m =>
    (fix go (x : list value) (y : list ovalue) : bool :=
       match x, y with
       | [], [] => true
       | p :: r1, q :: r2 => value_matches p q && go r1 r2
       | _, _ => false
       end) l m
  | _, _ => false
  end.

Definition cls_code (c : ecls) : nat :=
  match c with ENotANumber => 0 | ENotABoolean => 1 | ENotAList => 2 | ERegex => 3 end.

Fixpoint nat_list_eqb (a b : list nat) : bool :=
  match a, b with
  | [], [] => true
  | x :: r1, y :: r2 => Nat.eqb x y && nat_list_eqb r1 r2
  | _, _ => false
  end.

(* does the detail string name the operand: token value, or name=value for identifiers *)
Definition detail_names (detail named : bytes) (ident : bool) : bool :=
  if ident then prefixb (named ++ [61%N]) detail else bytes_eqb named detail.

(* ---- where the documented semantics determine the whole evaluation *)
Definition binop_of_name (name : string) : option binop :=
  let is s := String.eqb name s in
  if is NodeTIMES then Some OTimes else if is NodeDIV then Some ODiv
  else if is NodeDIVINT then Some ODivInt else if is NodeMODINT then Some OModInt
  else if is NodePLUS then Some OPlus else if is NodeMINUS then Some OMinus
  else if is NodeGEQ then Some OGeq else if is NodeLEQ then Some OLeq
  else if is NodeNEQ then Some ONeq else if is NodeEQ then Some OEq
  else if is NodeGT then Some OGt else if is NodeLT then Some OLt
  else if is NodeLIKE then Some OLike else if is NodeIN then Some OIn
  else if is NodeHASPREFIX then Some OHasPrefix else if is NodeHASSUFFIX then Some OHasSuffix
  else if is NodeNOTIN then Some ONotIn else if is NodeAND then Some OAnd
  else if is NodeOR then Some OOr else None.

Section Det.
  Variable env : list (bytes * value).
  Variable rx : list (bytes * bytes * option bool).
  Fixpoint determined (n : node) : bool :=
    match n with
    | Node name _ _ _ _ cs =>
      (fix go (l : list node) : bool := match l with [] => true | c :: r => determined c && go r end) cs
      && match cs with
         | [c1; c2] =>
           match binop_of_name name with
           | Some o =>
             match eval env rx [] c1, eval env rx [] c2 with
             | RVal v1, RVal v2 => fixed_bin rx o v1 v2
             | RVal _, RErr _ _ _ _ => true
             | RErr _ _ _ _, _ => true
             | _, _ => false
             end
           | None => true
           end
         | _ => true
         end
    end.
End Det.

(* ---- wrong-kind errors: the text lets the implementation name ANY operand of the wrong
   kind of the failing operator *)
Fixpoint subnode (n : node) (p : list nat) : option node :=
  match p with
  | [] => Some n
  | i :: r => match nth_error (n_children n) i with Some c => subnode c r | None => None end
  end.
Definition wrong_for (cl : ecls) (v : value) : bool :=
  match cl with ENotANumber => negb (is_num v) | ENotABoolean => negb (is_bool v) | _ => false end.
Definition acceptable_operand (env : list (bytes * value)) (rx : list (bytes * bytes * option bool))
           (cl : ecls) (t : node) (pp : list nat) (detail : bytes) (opath : list nat) : bool :=
  match subnode t (rev pp) with
  | Some parent =>
    existsb (fun j =>
      match nth_error (n_children parent) j with
      | Some cj =>
        detail_names detail (n_val cj) (n_ident cj) &&
        match eval env rx [] cj with RVal v => wrong_for cl v | _ => false end
      | None => false
      end) [0; 1]
  | None => false
  end.

(* ---- verdict *)
Definition strip_eof (ts : list token) : list token := removelast ts.

Definition parse_verdict (c : case) : nat :=
  let m := parse_expr (c_toks c) in
  let spec_tree :=
    match c_writing c with
    | Some w => Some (node_of (erase w))
    | None => None
    end in
  match c_writing c with
  | Some w =>
    if negb (wfp w) then 7
    else if negb (toks_eqb (toks w) (strip_eof (c_toks c))) then 5
    else match c_tree c with
         | PTree t => if node_eq_full t (node_of (erase w)) then
                        match m with POk t' => if node_eq_full t' t then 0 else 1 | _ => 1 end
                      else 2
         | PError _ => 2
         end
  | None =>
    match c_tree c, m with
    | PTree t, POk t' => if node_eq_full t' t then 0 else 1
    | PError _, PErr _ _ => 0
    | _, PUnsupported => 9
    | _, _ => 1
    end
  end.

Definition eval_verdict (c : case) : nat :=
  match c_tree c, c_obs c with
  | PTree t, ObsNone => 0
  | PTree t, o =>
    let r := eval (c_env c) (c_rx c) [] t in
    let det := determined (c_env c) (c_rx c) t in
    match r with
    | RUnmodelled _ => 9
    | RPanic _ => match o with ObsPanic => 0 | _ => 9 end
    | RVal v =>
      match o with
      | ObsVal ov => if value_matches v ov then 0 else if det then 3 else 4
      | _ => if det then 3 else 4
      end
    | RErr cl named idf path =>
      let wrongkind := match cl with ENotANumber | ENotABoolean => true | _ => false end in
      match o with
      | ObsErr k detail opath =>
        match cl with
        | ERegex => if Nat.eqb k 3 then 0 else 4
        | _ =>
          if Nat.eqb k (cls_code cl) && detail_names detail named idf && nat_list_eqb (rev path) opath
          then 0
          else if wrongkind then
            (* the node the error carries (its position) is not part of this property *)
            (if Nat.eqb k (cls_code cl) && acceptable_operand (c_env c) (c_rx c) cl t (tl path) detail opath
             then 4 else 6)
          else 4
        end
      | _ => if wrongkind then 6 else if det then 3 else 4
      end
    end
  | PError _, _ => 0
  end.

Definition verdict (c : case) : nat :=
  match parse_verdict c with
  | 0 => eval_verdict c
  | 9 => match eval_verdict c with 0 => 9 | k => k end
  | k => k
  end.

Definition check_all (cs : list case) : list (N * nat) :=
  filter (fun p => negb (Nat.eqb (snd p) 0)) (map (fun c => (c_id c, verdict c)) cs).

(* for replays / debugging *)
Definition model_parse (c : case) := parse_expr (c_toks c).
Definition model_eval (c : case) :=
  match c_tree c with PTree t => Some (eval (c_env c) (c_rx c) [] t) | _ => None end.
