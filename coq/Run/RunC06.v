(* Run/RunC06.v — correspondence: the outcome class the REAL interpreter produced for one
   primitive call (value kind / error class / panic) against Model/Prims.v (repaired code). *)
From Coq Require Import ZArith String List Bool.
From Ecal Require Import Common.Outcome Model.Prims.
Import ListNotations.
Open Scope string_scope.

Inductive obs := OValue (k : kind) | OError (cls : string) | OPanic.

Record case := mkCase {
  c_id : N;
  c_parse : list (string * num);   (* strings of the case that strconv.ParseFloat accepts *)
  c_call : call;
  c_obs : obs
}.

Fixpoint parse_of (t : list (string * num)) (s : string) : option num :=
  match t with
  | [] => None
  | (k, n) :: t' => if String.eqb k s then Some n else parse_of t' s
  end.

Definition kind_eqb (a b : kind) : bool :=
  match a, b with
  | KNull, KNull | KBool, KBool | KNum, KNum | KStr, KStr | KList, KList | KMap, KMap | KFun, KFun => true
  | _, _ => false
  end.

(* the failures the property text lists: there the Spec demands an ERROR *)
Definition demanded_error (c : call) : bool :=
  match c with
  | CBin OMod (VNum _) (VNum y) => Z.eqb (trunc y) 0
  | CBin (OEq | ONeq) a b => uncomparable a b
  | CMapLit es => negb (forallb is_kvp es) || existsb (fun e => match e with EKvp k _ => negb (hashable k) | _ => false end) es
  | CBuiltin _ [] => true
  | CSink attrs => negb (forallb (fun p => attr_ok (fst p) (snd p)) attrs)
  | _ => false
  end.

(* 0 agree
   1 the implementation panicked (Spec violation)
   2 both values, kinds differ            3 both errors, classes differ
   4 model value, implementation error    5 model error, implementation value
   6 model error demanded by the property text, implementation value (Spec violation)
   7 the model itself has a Panic/OutOfFuel outcome (cannot happen: C06_prims_no_panic) *)
Definition verdict (c : case) : nat :=
  match eval_call (parse_of (c_parse c)) true (c_call c), c_obs c with
  | _, OPanic => 1
  | Ok k, OValue k' => if kind_eqb k k' then 0 else 2
  | Err e, OError e' => if String.eqb e e' then 0 else 3
  | Ok _, OError _ => 4
  | Err _, OValue _ => if demanded_error (c_call c) then 6 else 5
  | _, _ => 7
  end%nat.

Definition check_all (cs : list case) : list (N * nat) :=
  filter (fun p => negb (Nat.eqb (snd p) 0)) (map (fun c => (c_id c, verdict c)) cs).
