From Coq Require Import NArith.
(* Run/RunC09.v — correspondence: a trace of hook events recorded on the running thread pool
   (translated to model labels by the harness) must be a run of Model/Pool.step from the
   initial state, and the final observable projection must agree. *)
From Coq Require Import List ZArith Bool Arith.
From Ecal Require Import Common.Sched Model.Pool.
Import ListNotations.
Open Scope nat_scope.

Record case := mkCase {
  c_id : N;
  c_trace : list label;        (* events in the order they were recorded *)
  c_drained : bool;            (* the scenario ended with WaitAll (workers > 0) or JoinAll after
                                  all AddTask calls had returned: every task must have run *)
  c_qlen : nat;                (* implementation, after the scenario: State() queue size *)
  c_wcount : nat;              (* implementation: WorkerCount() *)
  c_done : list nat            (* implementation: executed task ids with multiplicity, sorted *)
}.

Fixpoint insert (x : nat) (l : list nat) : list nat :=
  match l with
  | [] => [x]
  | y :: r => if Nat.leb x y then x :: l else y :: insert x r
  end.
Definition sort (l : list nat) : list nat := fold_right insert [] l.

Fixpoint list_eqb (a b : list nat) : bool :=
  match a, b with
  | [], [] => true
  | x :: a', y :: b' => Nat.eqb x y && list_eqb a' b'
  | _, _ => false
  end.

Fixpoint has_dup_sorted (l : list nat) : bool :=
  match l with
  | x :: ((y :: _) as r) => Nat.eqb x y || has_dup_sorted r
  | _ => false
  end.

Definition pushed_of (tr : list label) : list nat :=
  flat_map (fun l => match l with LPush _ t => [t] | _ => [] end) tr.
Definition done_of (tr : list label) : list nat :=
  flat_map (fun l => match l with LDone _ t => [t] | _ => [] end) tr.

(* 0 = agree
   3 = spec: some task was executed more than once (from the trace alone)
   4 = spec: the scenario was drained but a pushed task was not executed (trace alone)
   2 = model: final projection differs
   1000 + i = model: event number i of the trace is not a step of the model *)
Definition verdict (c : case) : nat :=
  let tr := c_trace c in
  if has_dup_sorted (sort (done_of tr)) then 3
  else if c_drained c && negb (list_eqb (sort (done_of tr)) (sort (pushed_of tr))) then 4
  else match first_invalid step init tr 0 with
       | Some i => 1000 + i
       | None =>
           match run step init tr with
           | None => 1000
           | Some s =>
               if Nat.eqb (length (queue s)) (c_qlen c) && Nat.eqb (length (workers s)) (c_wcount c)
                  && list_eqb (sort (done s)) (c_done c)
               then 0 else 2
           end
       end.

Definition check_all (cs : list case) : list (N * nat) :=
  filter (fun p => negb (Nat.eqb (snd p) 0)) (map (fun c => (c_id c, verdict c)) cs).
