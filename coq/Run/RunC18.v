(* Run/RunC18.v — correspondence for C18: the token list parser.LexToList returned for an
   input, against (a) the Spec computed from the implementation's own observations
   (line/column recomputed from Pos; the token text found at Pos) and (b) the token list of
   the UNCHANGED model (= the code in /repo), field by field; a deviation from the Spec that
   the unchanged model predicts exactly is the known finding line-comment-column.  Plus one table case per run: the Go tables the model
   copies (KeywordMap, SymbolMap, unicode.IsSpace/IsControl/IsNumber as ranges, the
   non-ASCII runes lower-casing into ASCII). *)
From Coq Require Import ZArith.
From Ecal Require Import Common.Bytes Common.Hex Model.Lexer Spec.PositionSpec.
Open Scope N_scope.

Inductive case :=
| CLex (id : N) (input : bytes) (toks : list token)
| CTables (id : N) (kw sym : list (bytes * nat)) (space control number lower : list (Z * Z)).

Definition c_id (c : case) : N :=
  match c with CLex id _ _ => id | CTables id _ _ _ _ _ _ => id end.

Definition tok_kind (t : token) : nat :=
  if Nat.eqb (t_id t) TokenSTRING then 1
  else if Nat.eqb (t_id t) TokenPOSTCOMMENT then 2
  else if Nat.eqb (t_id t) TokenPRECOMMENT then 3 else 0.

(* Spec on the implementation's observation alone *)
Definition pos_true (input : bytes) (t : token) : bool :=
  Nat.eqb (t_id t) TokenEOF
  || (let '(ln, cl) := linecol_walk input (t_pos t) in (t_line t =? ln)%Z && (t_col t =? cl)%Z).

Definition text_found (input : bytes) (t : token) : bool :=
  Nat.eqb (t_id t) TokenEOF || Nat.eqb (t_id t) TokenError
  || anchored input (tok_kind t) (t_pos t) (t_val t).

Definition tok_eqb (a b : token) : bool :=
  Nat.eqb (t_id a) (t_id b) && Nat.eqb (t_pos a) (t_pos b)
  && (Nat.eqb (t_id a) TokenError || bytes_eqb (t_val a) (t_val b))
  && Bool.eqb (t_ident a) (t_ident b) && Bool.eqb (t_esc a) (t_esc b)
  && Nat.eqb (t_pnl a) (t_pnl b) && (t_line a =? t_line b)%Z && (t_col a =? t_col b)%Z.

Fixpoint toks_eqb (a b : list token) : bool :=
  match a, b with
  | [], [] => true
  | x :: a', y :: b' => tok_eqb x y && toks_eqb a' b'
  | _, _ => false
  end.

Fixpoint tbl_eqb (a b : list (bytes * nat)) : bool :=
  match a, b with
  | [], [] => true
  | (k, v) :: a', (k', v') :: b' => bytes_eqb k k' && Nat.eqb v v' && tbl_eqb a' b'
  | _, _ => false
  end.

Fixpoint ranges_eqb (a b : list (Z * Z)) : bool :=
  match a, b with
  | [], [] => true
  | (x, y) :: a', (x', y') :: b' => (x =? x')%Z && (y =? y')%Z && ranges_eqb a' b'
  | _, _ => false
  end.

Definition ascii_keys (t : list (bytes * nat)) : bool :=
  forallb (fun p => forallb (fun b => b <? 128) (fst p)) t.

(* every implementation token whose line/column is not that of its Pos is exactly the token
   the UNCHANGED model predicts at that place: the deviation is the known line-comment defect *)
Fixpoint explained (input : bytes) (mt toks : list token) : bool :=
  match toks, mt with
  | [], _ => true
  | t :: toks', m :: mt' => (pos_true input t || tok_eqb m t) && explained input mt' toks'
  | t :: toks', [] => pos_true input t && explained input [] toks'
  end.

(* 0 agree
   1 spec : a reported line/column is not that of Pos, and not the one the known defect gives
   5 spec : the token's text is not at Pos
   2 model: the token list differs from the unchanged model's
   3 model: the model panics / runs out of fuel
   6 spec : (known finding line-comment-column) line/column not that of Pos, exactly as the
            unchanged model predicts: the column after a # line comment
   4 model: a table copied into the model differs from the Go table *)
Definition verdict (c : case) : nat :=
  match c with
  | CLex _ input toks =>
    let ok_pos := forallb (pos_true input) toks in
    match lex input with
    | Ok mt =>
      if negb ok_pos && negb (explained input mt toks) then 1%nat
      else if negb (forallb (text_found input) toks) then 5%nat
      else if negb (toks_eqb mt toks) then 2%nat
      else if negb ok_pos then 6%nat
      else 0%nat
    | _ => if negb ok_pos then 1%nat else 3%nat
    end
  | CTables _ kw sym sp ct nm lw =>
    if tbl_eqb kw KeywordMap && tbl_eqb sym SymbolMap && ascii_keys sym && ascii_keys kw
       && ranges_eqb sp uni_space_ranges && ranges_eqb ct uni_control_ranges
       && ranges_eqb nm uni_number_ranges
       && ranges_eqb lw [(304, 105); (8490, 107)]%Z
       && forallb (fun p => (rune_lower (fst p) =? snd p)%Z) lw
    then 0%nat else 4%nat
  end.

Definition check_all (cs : list case) : list (N * nat) :=
  filter (fun p => negb (Nat.eqb (snd p) 0)) (map (fun c => (c_id c, verdict c)) cs).

(* shorthand used by the cases files *)
Definition T := mkTok.
