(* Run/RunC06Interp.v — correspondence of the interpreter model (Model/Interp.v) with the REAL
   interpreter on whole programs: the harness parses a generated program with the real parser,
   serialises the tree (CoqNode), evaluates it with the real runtime and records the canonical
   outcome {value by content, error type, panic}; here the model evaluates the SAME tree.
   Numbers: Coq's binary64 (PrimFloat), helper functions of Model/Expr.v; the number tokens and the
   string literals of the program come with their strconv.ParseFloat result (bit pattern). *)
From Coq Require Import List String NArith ZArith Bool Arith Floats Uint63.
From Ecal Require Import Common.Bytes Common.Ast Model.Expr Model.Interp.
Import ListNotations.
Local Open Scope Z_scope.

(* float64 from its bit pattern *)
Definition float_of_bits (z : Z) : float :=
  let sign := Z.testbit z 63 in
  let E := (z / 2 ^ 52) mod 2048 in
  let frac := z mod 2 ^ 52 in
  let f :=
    if E =? 2047 then (if frac =? 0 then infinity else nan)
    else if E =? 0 then Z.ldexp (PrimFloat.of_uint63 (Uint63.of_Z frac)) (-1074)
    else Z.ldexp (PrimFloat.of_uint63 (Uint63.of_Z (2 ^ 52 + frac))) (E - 1075) in
  if sign then PrimFloat.opp f else f.

Fixpoint tbl_get {A} (t : list (bytes * A)) (k : bytes) : option A :=
  match t with
  | [] => None
  | (k', v) :: r => if bytes_eqb k' k then Some v else tbl_get r k
  end.

Definition MININT : Z := - 2 ^ 63.
Definition f_trunc (x : float) : Z := match float_trunc x with Some z => z | None => MININT end.

(* observed values, by content *)
Inductive oval :=
| ONull | OBool (b : bool) | ONum (bits : Z) | OStr (s : bytes)
| OList (l : list oval) | OMap (l : list (oval * oval)) | OFun | OOther.

Inductive obs := ObsValue (v : oval) | ObsError (cls : bytes) | ObsPanic.

Record case := mkICase {
  c_id : N;
  c_tree : node;
  c_nums : list (bytes * Z);            (* number tokens -> bits of strconv.ParseFloat *)
  c_strs : list (bytes * option Z);     (* string literals -> ParseFloat result, None = error *)
  c_obs : obs
}.

Section Inst.
  Variable nums : list (bytes * Z).
  Variable strs : list (bytes * option Z).
  Definition p_lit (s : bytes) : option float := option_map float_of_bits (tbl_get nums s).
  Definition p_str (s : bytes) : option (option float) :=
    option_map (option_map float_of_bits) (tbl_get strs s).
  Definition float_ops : NumOps :=
    Build_NumOps float p_lit p_str PrimFloat.add PrimFloat.sub PrimFloat.mul PrimFloat.div
                 (fun x y => float_floor (PrimFloat.div x y)) PrimFloat.opp f_trunc float_of_int64
                 PrimFloat.ltb PrimFloat.leb PrimFloat.eqb sprint_float.
  Definition m_eval (fuel : nat) (t : node) := @Interp.run float_ops fuel t.
End Inst.


(* [oval_eqb model observed]; the model's value by content (d bounds the nesting; a self-containing container ends in OOther) *)
Fixpoint reify {NO : NumOps} (to_bits : num -> Z) (d : nat) (st : state) (v : value) : oval :=
  match v with
  | VNull => ONull
  | VBool b => OBool b
  | VNum x => ONum (to_bits x)
  | VStr s => OStr s
  | VFun _ => OFun
  | VOpaque => OOther
  | VList a len =>
    match d with
    | O => OOther
    | S d' => match nth_error (st_arrs st) a with
              | Some cells => OList (map (reify to_bits d' st) (firstn len cells))
              | None => OOther
              end
    end
  | VMap id =>
    match d with
    | O => OOther
    | S d' => match nth_error (st_maps st) id with
              | Some m => OMap (map (fun kv => (reify to_bits d' st (fst kv), reify to_bits d' st (snd kv))) m)
              | None => OOther
              end
    end
  end.

Fixpoint oval_eqb (a b : oval) {struct a} : bool :=
  match a, b with
  | ONull, ONull => true
  | OBool x, OBool y => Bool.eqb x y
  | ONum x, ONum y => Z.eqb x y
  | OStr x, OStr y => bytes_eqb x y
  | OFun, OFun => true
  | OOther, OOther => true
  | OOther, OStr _ => true          (* a Go string the model does not track (type(), e.error) *)
  | OList x, OList y =>
    (fix go (l1 l2 : list oval) : bool :=
       match l1, l2 with
       | [], [] => true
       | p :: r1, q :: r2 => oval_eqb p q && go r1 r2
       | _, _ => false
       end) x y
  | OMap x, OMap y =>
    Nat.eqb (length x) (length y) &&
    (fix all (l1 : list (oval * oval)) : bool :=
       match l1 with
       | [] => true
       | (k, v) :: r1 =>
         (fix find (l2 : list (oval * oval)) : bool :=
            match l2 with
            | [] => false
            | (k', v') :: r2 => (oval_eqb k k' && oval_eqb v v') || find r2
            end) y && all r1
       end) x
  | _, _ => false
  end.

Definition FUEL : nat := 2000.

(* 0 agree
   101 the implementation panicked (Spec violation)
   102 both values, different           103 both errors, different types
   104 model value, implementation error   105 model error, implementation value
   106 the model has a Panic outcome (cannot happen: C06_interp_no_panic)
   107 the model ran out of fuel        108 outside the modelled fragment (skipped, counted)
   109 the model calls the tree / state invalid (a shape the parser is not supposed to produce) *)
Definition verdict (c : case) : nat :=
  match c_obs c with
  | ObsPanic => 101
  | o =>
    let r := m_eval (c_nums c) (c_strs c) FUEL (c_tree c) in
    match fst r, o with
    | ROk v, ObsValue w => if oval_eqb (@reify (float_ops (c_nums c) (c_strs c)) float_bits 12 (snd r) v) w then 0 else 102
    | RErr e, ObsError cls => if bytes_eqb (err_type_text e) cls then 0 else 103
    | ROk _, ObsError _ => 104
    | RErr _, ObsValue _ => 105
    | RPanic _, _ => 106
    | RFuel, _ => 107
    | RUnmod _, _ => 108
    | RInvalid _, _ => 109
    | _, ObsPanic => 101
    end
  end%nat.

Definition check_all (cs : list case) : list (N * nat) :=
  filter (fun p => negb (Nat.eqb (snd p) 0)) (map (fun c => (c_id c, verdict c)) cs).
