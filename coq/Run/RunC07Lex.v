(* Run/RunC07Lex.v — correspondence for the COMPOSED statement of C07 (C07_source_parse_total):
   a case of Run/RunC07.v (the real token list, the real tree / error) together with the
   source bytes.  On top of [RunC07.verdict] it runs the LEXER MODEL on the source bytes inside
   Coq and checks that [source_tokens (Lexer.lex src)] — the list the composed theorem is about —
   is the token list the real lexer produced (as projected by harness/c07.go: id, value (dropped
   for error and comment tokens), Identifier / AllowEscapes flags, line, column).  Together
   with RunC07's comparison of [parse (c_toks c)] with the real result this ties
   [parse_source src] to parser.Parse(src).  The source is sent for texts of at most 200 bytes
   (the others carry [None] and get RunC07's verdict only). *)
From Coq Require Import List String Bool Arith BinInt.
From Ecal Require Import Common.Bytes Common.Outcome Common.Ast Spec.ParseSpec Model.Parser Model.LexParse Run.RunC07.
From Ecal Require Model.Lexer.
Import ListNotations.
Local Open Scope nat_scope.

Record lcase := mkLCase {
  lc_case : case;               (* Run/RunC07.v *)
  lc_src : option bytes         (* the source text parser.Parse / parser.LexToList were given *)
}.

Definition tok_eqb (a b : tok) : bool :=
  Nat.eqb (t_id a) (t_id b) && bytes_eqb (t_val a) (t_val b) && Nat.eqb (t_flags a) (t_flags b) &&
  Nat.eqb (t_line a) (t_line b) && Z.eqb (t_pos a) (t_pos b).

Fixpoint toks_eqb (x y : list tok) : bool :=
  match x, y with
  | [], [] => true
  | a :: x', b :: y' => tok_eqb a b && toks_eqb x' y'
  | _, _ => false
  end.

(* 0..6 as RunC07.verdict
   7 the lexer model's token list, through to_ptok, differs from the real token list  (model)
   8 the lexer model panicked or ran out of fuel (model; excluded by C18_lexer_terminates) *)
Definition verdict_lex (c : lcase) : nat :=
  match verdict (lc_case c) with
  | 0 =>
    match lc_src c with
    | None => 0
    | Some src =>
      match Lexer.lex src with
      | Ok ts => if toks_eqb (source_tokens ts) (c_toks (lc_case c)) then 0 else 7
      | _ => 8
      end
    end
  | v => v
  end.

Definition check_all (cs : list lcase) : list (N * nat) :=
  filter (fun p => negb (Nat.eqb (snd p) 0)) (map (fun c => (c_id (lc_case c), verdict_lex c)) cs).

Definition model_tokens (c : lcase) : option (outcome (list tok)) :=
  option_map (fun src => match Lexer.lex src with
                         | Ok ts => Ok (source_tokens ts)
                         | Err e => Err e | Panic s => Panic s | OutOfFuel => OutOfFuel
                         end) (lc_src c).
