(* Run/RunC05.v — correspondence checks of C05.
   PCase: a generated mini-language program was rendered to ECAL source and run by the REAL
          interpreter; the observations (outcome class, marker trace, probe values, global
          variables) are compared with the reference semantics Spec/LexSpec.v.
   SCase: a generated sequence of calls of the REAL scope API (NewScope, NewChild, SetValue,
          SetLocalValue, GetValue with access paths) is compared, call by call, with
          Model/Scope.v. *)
From Coq Require Import ZArith String.
From Ecal Require Import Common.Bytes Common.Outcome Model.Scope Model.Builtins Spec.ScopeSpec Spec.LexSpec.
Open Scope nat_scope.

(* ---- program cases --------------------------------------------------------------------- *)
Inductive impl_outcome := IOk | IErr | IPanic.

(* ---- scope API cases -------------------------------------------------------------------- *)
Inductive lit :=
| LNull | LBool (b : bool) | LNum (z : Z) | LStr (s : bytes) | LFun
| LLst (l : list lit)
| LMp (kvs : list (key * lit)).

Inductive aop :=
| ANewScope (nm : bytes) (parent : option nat)
| ANewChild (s : nat) (nm : bytes)
| ASet (s : nat) (path : bytes) (v : lit)
| ALet (s : nat) (path : bytes) (v : lit)
| ASetFrom (s : nat) (path : bytes) (s2 : nat) (path2 : bytes)   (* v, _, _ := GetValue; SetValue(path, v) *)
| AGet (s : nat) (path : bytes).

Inductive obs :=
| OScope (id : nat)                              (* which scope object came back *)
| ODone (err : bool)
| OVal (text : bytes) (ok : bool) (err : bool)
| OPanic.

Inductive case :=
| PCase (id : N) (prog : list stmt) (probes : list expr) (names : list name)
        (out : impl_outcome) (trace : list bytes)
        (probe_obs : list (option bytes)) (globals : list bytes)
| SCase (id : N) (ops : list aop) (observed : list obs).

Definition c_id (c : case) : N := match c with PCase id _ _ _ _ _ _ _ => id | SCase id _ _ => id end.

Fixpoint list_bytes_eqb (a b : list bytes) : bool :=
  match a, b with
  | [], [] => true
  | x :: a', y :: b' => bytes_eqb x y && list_bytes_eqb a' b'
  | _, _ => false
  end.

(* the probes: each is compared on its own; after the first one the reference semantics
   leaves open, the rest is not compared *)
Fixpoint check_probes (ps : list expr) (os : list (option bytes)) (st : state) : nat :=
  match ps, os with
  | [], [] => 0
  | p :: ps', o :: os' =>
    let before := st_trace st in
    let '(st1, r) := exec FUEL 0 (SMark p) st in
    match r with
    | ROk _ =>
      let fresh := rev (firstn (length (st_trace st1) - length before) (st_trace st1)) in
      match o with
      | Some b => if bytes_eqb b (join_with 124 fresh) then check_probes ps' os' st1 else 8
      | None => 8
      end
    | RErr | RRet _ => match o with None => check_probes ps' os' st1 | Some _ => 8 end
    | RUnspec | RFuel => 0
    end
  | _, _ => 9
  end.

Fixpoint check_globals (ns : list name) (gs : list bytes) (st : state) : nat :=
  match ns, gs with
  | [], [] => 0
  | x :: ns', g :: gs' =>
    match global_value st x with
    | Some b => if bytes_eqb b g then check_globals ns' gs' st else 7
    | None => 0
    end
  | _, _ => 9
  end.

(* 0 agree
   1 marker trace differs                      2 error / no error differs
   3 unspecified by the reference semantics    4 fuel
   5 panic where the Spec has an error         6 panic where the Spec has a result
     (both are violations: since the repairs of C06 every index / position outside a list is an
      error; the only open crash, printing a cyclic container, is never generated)
   7 a global variable differs                 8 a probe value differs
   9 malformed case *)
Definition verdict_prog (prog : list stmt) (probes : list expr) (names : list name)
           (out : impl_outcome) (trace : list bytes) (pobs : list (option bytes)) (globals : list bytes) : nat :=
  let '(st, r) := run_program prog in
  match r with
  | RUnspec => 3
  | RFuel => 4
  | _ =>
    let spec_ok := match r with ROk _ => true | _ => false end in
    match out with
    | IPanic => if spec_ok then 6 else 5
    | _ =>
      let impl_ok := match out with IOk => true | _ => false end in
      if negb (Bool.eqb spec_ok impl_ok) then 2
      else if negb (list_bytes_eqb (rev (st_trace st)) trace) then 1
      else match check_globals names globals st with
           | 0 => check_probes probes pobs st
           | v => v
           end
    end
  end.

(* ---- scope API: allocation of literals, canonical text ------------------------------------ *)
Fixpoint alloc_lit (st : sstate) (l : lit) : sstate * val :=
  match l with
  | LNull => (st, VNull)
  | LBool b => (st, VBool b)
  | LNum z => (st, VNum z)
  | LStr s => (st, VStr s)
  | LFun => (st, VFun 0)
  | LLst ls =>
    let fix go (st : sstate) (ls : list lit) : sstate * list val :=
      match ls with
      | [] => (st, [])
      | x :: ls' => let '(st1, v) := alloc_lit st x in
                    let '(st2, vs) := go st1 ls' in (st2, v :: vs)
      end in
    let '(st1, vs) := go st ls in alloc st1 (CList vs)
  | LMp kvs =>
    let fix go (st : sstate) (kvs : list (key * lit)) : sstate * list (key * val) :=
      match kvs with
      | [] => (st, [])
      | (k, x) :: kvs' => let '(st1, v) := alloc_lit st x in
                          let '(st2, m) := go st1 kvs' in (st2, if map_has k m then m else (k, v) :: m)
      end in
    let '(st1, m) := go st kvs in alloc st1 (CMap m)
  end.

(* numbers bare, strings quoted; map entries sorted by the text of the key *)
Definition key_show (k : key) : bytes :=
  match k with KNum z => z_to_bytes z | KStr s => (34 :: s ++ [34])%N end.

Fixpoint srender (depth : nat) (h : heap) (v : val) : bytes :=
  match v with
  | VNull => [78]%N
  | VBool true => [84]%N
  | VBool false => [70]%N
  | VNum z => z_to_bytes z
  | VStr s => (34 :: s ++ [34])%N
  | VFun _ => [60; 102; 62]%N
  | VRef a =>
    match depth with
    | O => [126]%N
    | S d =>
      match nth_error h a with
      | Some (CList l) => (91 :: join_with 44 (map (srender d h) l) ++ [93])%N
      | Some (CMap m) =>
        (123 :: join_with 44 (map (fun e => fst e ++ 58 :: snd e)
                   (sort_entries (map (fun kv => (key_show (fst kv), srender d h (snd kv))) m))) ++ [125])%N
      | None => [63]%N
      end
    end
  end.

Definition obs_of_set (r : outcome sstate) (st : sstate) : sstate * obs :=
  match r with
  | Ok st' => (st', ODone false)
  | Err _ => (st, ODone true)
  | Panic _ => (st, OPanic)
  | OutOfFuel => (st, OPanic)
  end.

Definition in_range (st : sstate) (s : nat) : bool := s <? length (ss_scopes st).

Definition run_aop (st : sstate) (op : aop) : sstate * obs :=
  match op with
  | ANewScope nm parent =>
    match step st (ONewScope nm parent) with
    | Ok st' => (st', OScope (length (ss_scopes st)))
    | _ => (st, OPanic)
    end
  | ANewChild s nm =>
    match new_child st s nm with
    | Ok (st', id) => (st', OScope id)
    | _ => (st, OPanic)
    end
  | ASet s path l =>
    let '(st1, v) := alloc_lit st l in
    if in_range st s then obs_of_set (set_value st1 s path v) st1 else (st1, OPanic)
  | ALet s path l =>
    let '(st1, v) := alloc_lit st l in
    match declare_local st1 s path with
    | Ok st2 => obs_of_set (set_value st2 s path v) st2       (* = set_local_value st1 s path v *)
    | _ => (st1, OPanic)
    end
  | ASetFrom s path s2 path2 =>
    if in_range st s && in_range st s2 then
      match get_value st s2 path2 with
      | Ok (v, _) => obs_of_set (set_value st s path v) st
      | Err _ => obs_of_set (set_value st s path VNull) st
      | _ => (st, OPanic)
      end
    else (st, OPanic)
  | AGet s path =>
    if in_range st s then
      match get_value st s path with
      | Ok (v, ok) => (st, OVal (srender RENDER_DEPTH (ss_heap st) v) ok false)
      | Err _ => (st, OVal [] false true)
      | _ => (st, OPanic)
      end
    else (st, OPanic)
  end.

Definition obs_eqb (a b : obs) : bool :=
  match a, b with
  | OScope x, OScope y => x =? y
  | ODone x, ODone y => Bool.eqb x y
  | OVal _ _ true, OVal _ _ true => true
  | OVal t1 k1 false, OVal t2 k2 false => bytes_eqb t1 t2 && Bool.eqb k1 k2
  | OPanic, OPanic => true
  | _, _ => false
  end.

(* 0 agree; 20 + min(position, 9) otherwise is folded to: 11 = an observation differs *)
Fixpoint verdict_ops (st : sstate) (ops : list aop) (os : list obs) : nat :=
  match ops, os with
  | [], [] => 0
  | op :: ops', o :: os' =>
    let '(st1, o') := run_aop st op in
    if obs_eqb o o' then verdict_ops st1 ops' os' else 11
  | _, _ => 9
  end.

Definition verdict (c : case) : nat :=
  match c with
  | PCase _ prog probes names out trace pobs globals => verdict_prog prog probes names out trace pobs globals
  | SCase _ ops os => verdict_ops empty_state ops os
  end.

Definition check_all (cs : list case) : list (N * nat) :=
  filter (fun p => negb (Nat.eqb (snd p) 0)) (map (fun c => (c_id c, verdict c)) cs).

(* for debugging a replay *)
Definition spec_view (prog : list stmt) : res unit * list bytes :=
  let '(st, r) := run_program prog in (r, rev (st_trace st)).

Fixpoint model_obs (st : sstate) (ops : list aop) : list obs :=
  match ops with
  | [] => []
  | op :: ops' => let '(st1, o) := run_aop st op in o :: model_obs st1 ops'
  end.
