(* Run/RunC07.v — correspondence for C07: the pair parser.Parse returned for a source text,
   against (a) the Spec directly (exclusive result, well-formed tree, positioned error) and
   (b) the model run on the token list the REAL lexer produced for the same text. *)
From Coq Require Import List String Bool Arith BinInt.
From Ecal Require Import Common.Bytes Common.Ast gen.Tokens gen.Grammar Spec.ParseSpec Model.Parser.
Import ListNotations.
Local Open Scope nat_scope.

Record case := mkCase {
  c_id : N;                     (* binary: a nat literal n is a term of size n *)
  c_toks : list tok;            (* parser.LexToList(source) *)
  c_tree : option node;         (* implementation: returned tree (CoqNode) *)
  c_err : option perr           (* implementation: returned *parser.Error: class, line, pos *)
}.

(* same tree: kinds, values, flags, lines, arity *)
Fixpoint tree_eqb (a b : node) : bool :=
  match a, b with
  | Node n1 v1 i1 a1 l1 c1, Node n2 v2 i2 a2 l2 c2 =>
    String.eqb n1 n2 && bytes_eqb v1 v2 && Bool.eqb i1 i2 && Bool.eqb a1 a2 && Nat.eqb l1 l2 &&
    (fix go (x y : list node) : bool :=
       match x, y with
       | [], [] => true
       | p :: x', q :: y' => tree_eqb p q && go x' y'
       | _, _ => false
       end) c1 c2
  end.

Definition perr_eqb (a b : perr) : bool :=
  Nat.eqb (e_kind a) (e_kind b) && Nat.eqb (e_line a) (e_line b) && Z.eqb (e_pos a) (e_pos b).

Definition positionedb (e : perr) (ts : list tok) : bool :=
  existsb (fun p => Nat.eqb (e_line e) (fst p) && Z.eqb (e_pos e) (snd p))
          ((0, 0%Z) :: map (fun t => (t_line t, t_pos t)) ts).

(* 0 agree
   1 tree and error both present or both absent            (Spec)
   2 the returned tree is not well formed                   (Spec)
   3 the returned error has no position of an input token   (Spec)
   4 tree differs from the model's / model returned an error (model)
   5 error differs from the model's / model returned a tree  (model)
   6 the model panicked or ran out of fuel                  (model; excluded by theorem) *)
Definition verdict (c : case) : nat :=
  match c_tree c, c_err c with
  | Some _, Some _ => 1
  | None, None => 1
  | Some t, None =>
    if negb (wfb t) then 2
    else match parse (c_toks c) with
         | PRes (Some m) None _ => if tree_eqb m t then 0 else 4
         | PRes _ _ _ => 4
         | _ => 6
         end
  | None, Some e =>
    if negb (positionedb e (c_toks c)) then 3
    else match parse (c_toks c) with
         | PRes None (Some m) _ => if perr_eqb m e then 0 else 5
         | PRes _ _ _ => 5
         | _ => 6
         end
  end.

Definition check_all (cs : list case) : list (N * nat) :=
  filter (fun p => negb (Nat.eqb (snd p) 0)) (map (fun c => (c_id c, verdict c)) cs).

Definition model_out (c : case) : presult := parse (c_toks c).
