From Coq Require Import NArith.
(* Run/RunC02.v — correspondence for C02: the global trace of hook events recorded while the
   real engine ran one or more cascades must be a run of Model/Cascade.v, end in a settled
   state, and the observables obtained through the Go API (AllErrors, finish handler count,
   IsFinished, return of AddEventAndWait) must be the ones the Spec fixes. *)
From Ecal Require Import Model.Cascade Spec.CascadeSpec.

Record cobs := mkObs {
  o_root : nat; o_wait : bool; o_trig : bool;
  o_errors : list (nat * nat);      (* AllErrors(): (monitor, rule) pairs, sorted *)
  o_handler : nat;                  (* finish handler calls *)
  o_allfin : bool;                  (* IsFinished of every monitor handed out *)
  o_early : bool                    (* Go side: an action stamp was missing when the wait returned *)
}.

Record case := mkCase { c_id : N; c_trace : list label; c_obs : list cobs; c_complete : bool }.

(* ---- pure trace functions (Spec side: no model state involved) ---- *)
(* monitor -> root, built left to right *)
Fixpoint roots_of (t : list label) (acc : list (nat * nat)) : list (nat * nat) :=
  match t with
  | [] => acc
  | LNewRoot r _ :: t' => roots_of t' ((r, r) :: acc)
  | LChild p c :: t' =>
    let rp := match find (fun x => Nat.eqb (fst x) p) acc with Some x => snd x | None => 0 end in
    roots_of t' ((c, rp) :: acc)
  | _ :: t' => roots_of t' acc
  end.

Definition root_lookup (tbl : list (nat * nat)) (m : nat) : nat :=
  match find (fun x => Nat.eqb (fst x) m) tbl with Some x => snd x | None => 0 end.

Definition pair_leb (a b : nat * nat) : bool :=
  Nat.ltb (fst a) (fst b) || (Nat.eqb (fst a) (fst b) && Nat.leb (snd a) (snd b)).
Definition pair_eqb (a b : nat * nat) : bool := Nat.eqb (fst a) (fst b) && Nat.eqb (snd a) (snd b).

Fixpoint insert_pair (x : nat * nat) (l : list (nat * nat)) : list (nat * nat) :=
  match l with
  | [] => [x]
  | y :: t => if pair_eqb x y then l else if pair_leb x y then x :: l else y :: insert_pair x t
  end.
Definition sort_pairs (l : list (nat * nat)) : list (nat * nat) := fold_right insert_pair [] l.

Fixpoint pairs_eqb (a b : list (nat * nat)) : bool :=
  match a, b with
  | [], [] => true
  | x :: a', y :: b' => pair_eqb x y && pairs_eqb a' b'
  | _, _ => false
  end.

(* the (monitor, rule) pairs of root r whose action returned an error, from the action results alone *)
Definition expected_errors (t : list label) (r : nat) : list (nat * nat) :=
  let tbl := roots_of t [] in
  sort_pairs (flat_map (fun l => match l with
                                 | LActEnd m rule true => if Nat.eqb (root_lookup tbl m) r then [(m, rule)] else []
                                 | _ => [] end) t).

Definition action_of (tbl : list (nat * nat)) (r : nat) (l : label) : bool :=
  match l with
  | LActStart m _ | LActEnd m _ _ | LChild m _ | LPop m => Nat.eqb (root_lookup tbl m) r
  | _ => false
  end.

(* an action label of root r after the wait of r returned *)
Fixpoint action_after_return (tbl : list (nat * nat)) (r : nat) (t : list label) (returned : bool) : bool :=
  match t with
  | [] => false
  | LWaitReturn r' :: t' => action_after_return tbl r t' (returned || Nat.eqb r r')
  | l :: t' => (returned && action_of tbl r l) || action_after_return tbl r t' returned
  end.

Definition model_errors (s : state) (r : nat) : list (nat * nat) :=
  sort_pairs (flat_map (fun x => map (fun rule => (fst x, rule)) (snd x)) (all_errors s r)).

(* verdict of one cascade: 0 = agree;
   spec:  3 error report differs from the failing actions, 4 finish handler count, 5 a monitor
          not finished, 6 wait returned before the last action, 8 assertion panic in the model run
   model: 2 the run completed but the model is not settled / disagrees with the observed report *)
Definition verdict_obs (t : list label) (s : option state) (complete : bool) (o : cobs) : nat :=
  let tbl := roots_of t [] in
  if o_early o || action_after_return tbl (o_root o) t false then 6
  else if negb (pairs_eqb (o_errors o) (expected_errors t (o_root o))) then 3
  else if negb (Nat.eqb (o_handler o) (if o_trig o then 1 else 0)) then 4
  else if negb (o_allfin o) then 5
  else match s with
       | None => 0
       | Some s =>
         match s_panic s with
         | Some _ => 8
         | None =>
           if complete && negb (settledb s (o_root o)) then 2
           else if complete && negb (pairs_eqb (model_errors s (o_root o)) (o_errors o)) then 2
           else 0
         end
       end.

Fixpoint first_nonzero (l : list nat) : nat :=
  match l with [] => 0 | 0 :: t => first_nonzero t | x :: _ => x end.

(* 1 = the trace is not a run of the model (reported after the spec checks) *)
Definition verdict (c : case) : nat :=
  let s := run step init (c_trace c) in
  match first_nonzero (map (verdict_obs (c_trace c) s (c_complete c)) (c_obs c)) with
  | 0 => match s with None => 1 | Some _ => 0 end
  | n => n
  end.

Definition check_all (cs : list case) : list (N * nat) :=
  filter (fun p => negb (Nat.eqb (snd p) 0)) (map (fun c => (c_id c, verdict c)) cs).

Definition invalid_at (c : case) : option nat := first_invalid step init (c_trace c) 0.
