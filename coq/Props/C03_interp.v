(* Props/C03_interp.v — C03 "expressions evaluate per the documented operator semantics" on the UNIFIED
   interpreter model (Model/Interp.v: one tree-walking evaluator over the real parser's trees, tied to
   the real interpreter by the whole-program correspondence stream of C06).  The operator semantics
   demanded is Spec/InterpExprSpec.v (pure operator functions [op_bin] / [op_pre] written from the
   property text and ecal.md; outcome combinators [binary_outcome] / [unary_outcome] /
   [comparison_outcome] fixing the order of evaluation).  PARTS 1-3 hold for EVERY implementation
   [NO : NumOps] of the float64 operations, every tree, path, scope, state and fuel; PART 4 instantiates
   NumOps with the binary64 instance [float_ops] of Run/RunC06Interp.v and connects to the focused C03
   model Model/Expr.v (which Props/C03.v proves to compute Spec/ExprSemSpec.v).
   Only theorem statements closed by [exact], Print Assumptions, and non-vacuity Examples. *)
From Coq Require Import List String NArith ZArith Bool Arith Floats.
From Ecal Require Import Common.Bytes Common.Ast gen.Tokens Spec.ExprGrammarSpec.
From Ecal Require Model.Expr Run.RunC06Interp.
From Ecal Require Import Model.Interp Spec.InterpExprSpec
  Proofs.InterpExpr Proofs.InterpExprFacts Proofs.InterpExprRefine.
Import ListNotations.
Local Open Scope nat_scope.

(* ---- PART 1: a binary operator node is its operator applied to the values of its operands,
   evaluated left to right, each exactly once.  All operators but the comparisons, `like`, `:=`:
   plus minus times div divint modint == != and or in notin hasprefix hassuffix. *)
Theorem C03_interp_binary_is_operator_of_operands :
  forall (NO : NumOps) (o : binop), once_bin o = true ->
  forall fuel path v idf esc ln c1 c2 sc is st,
    eval (S fuel) path (Node (bin_name o) v idf esc ln [c1; c2]) sc is st
    = binary_outcome (eval fuel (0 :: path) c1 sc is) (eval fuel (1 :: path) c2 sc is) (op_bin o) st.
Proof. intros NO o H fuel path v idf esc ln c1 c2 sc is st. exact (eval_binary_once fuel path v idf esc ln c1 c2 sc is o H st). Qed.
Print Assumptions C03_interp_binary_is_operator_of_operands.

(* spelled out: both operands yield values -> the pure operator of the two values, in the state the
   second operand left, which stays *)
Theorem C03_interp_binary_operator_of_values :
  forall (NO : NumOps) (o : binop) fuel path v idf esc ln c1 c2 sc is st v1 st1 v2 st2,
    once_bin o = true ->
    eval fuel (0 :: path) c1 sc is st = (ROk v1, st1) ->
    eval fuel (1 :: path) c2 sc is st1 = (ROk v2, st2) ->
    eval (S fuel) path (Node (bin_name o) v idf esc ln [c1; c2]) sc is st = (op_bin o st2 v1 v2, st2).
Proof. intros NO o fuel path v idf esc ln c1 c2 sc is st v1 st1 v2 st2. exact (binary_operator_of_values fuel path v idf esc ln c1 c2 sc is o st v1 st1 v2 st2). Qed.
Print Assumptions C03_interp_binary_operator_of_values.

(* the first operand does not yield a value (error value, ...): the node yields THAT outcome and the
   second operand is not evaluated (the result does not mention c2) *)
Theorem C03_interp_first_operand_failure_is_the_result :
  forall (NO : NumOps) (o : binop) fuel path v idf esc ln c1 c2 sc is st r st1,
    once_bin o = true ->
    eval fuel (0 :: path) c1 sc is st = (r, st1) -> is_val r = false ->
    eval (S fuel) path (Node (bin_name o) v idf esc ln [c1; c2]) sc is st = (r, st1).
Proof. intros NO o fuel path v idf esc ln c1 c2 sc is st r st1. exact (binary_first_operand_stops fuel path v idf esc ln c1 c2 sc is o st r st1). Qed.
Print Assumptions C03_interp_first_operand_failure_is_the_result.

Theorem C03_interp_second_operand_failure_is_the_result :
  forall (NO : NumOps) (o : binop) fuel path v idf esc ln c1 c2 sc is st v1 st1 r st2,
    once_bin o = true ->
    eval fuel (0 :: path) c1 sc is st = (ROk v1, st1) ->
    eval fuel (1 :: path) c2 sc is st1 = (r, st2) -> is_val r = false ->
    eval (S fuel) path (Node (bin_name o) v idf esc ln [c1; c2]) sc is st = (r, st2).
Proof. intros NO o fuel path v idf esc ln c1 c2 sc is st v1 st1 r st2. exact (binary_second_operand_stops fuel path v idf esc ln c1 c2 sc is o st v1 st1 r st2). Qed.
Print Assumptions C03_interp_second_operand_failure_is_the_result.

(* the comparisons >= > <= < : what the code does, precisely ([comparison_outcome]): numeric on two
   numbers; after ANY error value of the numeric attempt both operands are evaluated a second time and
   their printed forms are compared as strings *)
Theorem C03_interp_comparison_is_numeric_or_second_pass :
  forall (NO : NumOps) (o : binop), is_cmp o = true ->
  forall fuel path v idf esc ln c1 c2 sc is st,
    eval (S fuel) path (Node (bin_name o) v idf esc ln [c1; c2]) sc is st
    = comparison_outcome o (eval fuel (0 :: path) c1 sc is) (eval fuel (1 :: path) c2 sc is) st.
Proof. intros NO o H fuel path v idf esc ln c1 c2 sc is st. exact (eval_comparison fuel path v idf esc ln c1 c2 sc is o H st). Qed.
Print Assumptions C03_interp_comparison_is_numeric_or_second_pass.

Theorem C03_interp_comparison_of_numbers :
  forall (NO : NumOps) (o : binop) fuel path v idf esc ln c1 c2 sc is st x st1 y st2,
    is_cmp o = true ->
    eval fuel (0 :: path) c1 sc is st = (ROk (VNum x), st1) ->
    eval fuel (1 :: path) c2 sc is st1 = (ROk (VNum y), st2) ->
    eval (S fuel) path (Node (bin_name o) v idf esc ln [c1; c2]) sc is st = (ROk (VBool (num_cmp o x y)), st2).
Proof. intros NO o fuel path v idf esc ln c1 c2 sc is st x st1 y st2. exact (comparison_of_numbers fuel path v idf esc ln c1 c2 sc is o st x st1 y st2). Qed.
Print Assumptions C03_interp_comparison_of_numbers.

Theorem C03_interp_comparison_of_a_non_number_evaluates_operands_again :
  forall (NO : NumOps) (o : binop) fuel path v idf esc ln c1 c2 sc is st v1 st1 v2 st2,
    is_cmp o = true ->
    eval fuel (0 :: path) c1 sc is st = (ROk v1, st1) ->
    eval fuel (1 :: path) c2 sc is st1 = (ROk v2, st2) ->
    is_num v1 && is_num v2 = false ->
    eval (S fuel) path (Node (bin_name o) v idf esc ln [c1; c2]) sc is st
    = binary_outcome (eval fuel (0 :: path) c1 sc is) (eval fuel (1 :: path) c2 sc is) (cmp_text o) st2.
Proof. intros NO o fuel path v idf esc ln c1 c2 sc is st v1 st1 v2 st2. exact (comparison_second_pass fuel path v idf esc ln c1 c2 sc is o st v1 st1 v2 st2). Qed.
Print Assumptions C03_interp_comparison_of_a_non_number_evaluates_operands_again.

Theorem C03_interp_comparison_failed_first_operand_evaluated_again :
  forall (NO : NumOps) (o : binop) fuel path v idf esc ln c1 c2 sc is st e st1,
    is_cmp o = true ->
    eval fuel (0 :: path) c1 sc is st = (RErr e, st1) ->
    eval (S fuel) path (Node (bin_name o) v idf esc ln [c1; c2]) sc is st
    = binary_outcome (eval fuel (0 :: path) c1 sc is) (eval fuel (1 :: path) c2 sc is) (cmp_text o) st1.
Proof. intros NO o fuel path v idf esc ln c1 c2 sc is st e st1. exact (comparison_failed_first_operand_evaluated_again fuel path v idf esc ln c1 c2 sc is o st e st1). Qed.
Print Assumptions C03_interp_comparison_failed_first_operand_evaluated_again.

Theorem C03_interp_comparison_failed_second_operand_evaluated_again :
  forall (NO : NumOps) (o : binop) fuel path v idf esc ln c1 c2 sc is st v1 st1 e st2,
    is_cmp o = true ->
    eval fuel (0 :: path) c1 sc is st = (ROk v1, st1) ->
    eval fuel (1 :: path) c2 sc is st1 = (RErr e, st2) ->
    eval (S fuel) path (Node (bin_name o) v idf esc ln [c1; c2]) sc is st
    = binary_outcome (eval fuel (0 :: path) c1 sc is) (eval fuel (1 :: path) c2 sc is) (cmp_text o) st2.
Proof. intros NO o fuel path v idf esc ln c1 c2 sc is st v1 st1 e st2. exact (comparison_failed_second_operand_evaluated_again fuel path v idf esc ln c1 c2 sc is o st v1 st1 e st2). Qed.
Print Assumptions C03_interp_comparison_failed_second_operand_evaluated_again.

(* operands whose evaluation leaves the state alone (literals, variables, pure expressions): the
   comparison is the pure operator of their values *)
Theorem C03_interp_comparison_of_stable_operands :
  forall (NO : NumOps) (o : binop) fuel path v idf esc ln c1 c2 sc is st v1 v2,
    is_cmp o = true ->
    eval fuel (0 :: path) c1 sc is st = (ROk v1, st) ->
    eval fuel (1 :: path) c2 sc is st = (ROk v2, st) ->
    eval (S fuel) path (Node (bin_name o) v idf esc ln [c1; c2]) sc is st = (op_bin o st v1 v2, st).
Proof. intros NO o fuel path v idf esc ln c1 c2 sc is st v1 v2. exact (comparison_of_stable_operands fuel path v idf esc ln c1 c2 sc is o st v1 v2). Qed.
Print Assumptions C03_interp_comparison_of_stable_operands.

(* ---- PART 2: prefix minus / plus / not *)
Theorem C03_interp_prefix_ops :
  forall (NO : NumOps) (o : preop) fuel path v idf esc ln c sc is st,
    eval (S fuel) path (Node (pre_name o) v idf esc ln [c]) sc is st
    = unary_outcome (eval fuel (0 :: path) c sc is) (op_pre o) st.
Proof. intros NO o fuel path v idf esc ln c sc is st. exact (InterpExpr.eval_prefix fuel path v idf esc ln c sc is o st). Qed.
Print Assumptions C03_interp_prefix_ops.

(* ---- PART 3: and / or do NOT short-circuit (rt_boolean.go boolOp evaluates both children; ecal.md
   lists `and`, `or`, `not` without promising lazy evaluation).  Whatever boolean the first operand
   yields, the second operand is evaluated: its effects stay, its failure is the node's outcome, and a
   second operand that is not a boolean is an error even where the first already decides the result *)
Theorem C03_interp_and_or_evaluate_both_operands :
  forall (NO : NumOps) (o : binop) fuel path v idf esc ln c1 c2 sc is (b1 : bool) st st1,
    is_boolop o = true ->
    eval fuel (0 :: path) c1 sc is st = (ROk (VBool b1), st1) ->
    eval (S fuel) path (Node (bin_name o) v idf esc ln [c1; c2]) sc is st =
    match eval fuel (1 :: path) c2 sc is st1 with
    | (ROk v2, st2) =>
      (match v2 with
       | VBool b2 => ROk (VBool (match o with OAnd => andb b1 b2 | _ => orb b1 b2 end))
       | _ => RErr (rt_err T_NOTBOOL)
       end, st2)
    | stopped => stopped
    end.
Proof. intros NO o fuel path v idf esc ln c1 c2 sc is b1 st st1. exact (and_or_evaluate_both_operands fuel path v idf esc ln c1 c2 sc is o b1 st st1). Qed.
Print Assumptions C03_interp_and_or_evaluate_both_operands.

(* ---- the pure operator functions have the documented values *)
(* no operator application is a Go panic: `5 % 0`, `[1] == [1]`, `1 in [[1], [1]]` are error values *)
Theorem C03_interp_operator_never_panics :
  forall (NO : NumOps) o st a b p site, op_bin o st a b <> RPanic site /\ op_pre p a <> RPanic site.
Proof. intros NO o st a b p site. split; [apply op_bin_no_panic | apply op_pre_no_panic]. Qed.
Print Assumptions C03_interp_operator_never_panics.

Theorem C03_interp_operators_on_numbers :
  forall (NO : NumOps) st x y,
    op_bin OPlus st (VNum x) (VNum y) = ROk (VNum (n_add x y)) /\
    op_bin OMinus st (VNum x) (VNum y) = ROk (VNum (n_sub x y)) /\
    op_bin OTimes st (VNum x) (VNum y) = ROk (VNum (n_mul x y)) /\
    op_bin ODiv st (VNum x) (VNum y) = ROk (VNum (n_div x y)) /\
    op_bin ODivInt st (VNum x) (VNum y) = ROk (VNum (n_divint x y)) /\
    (n_trunc y <> 0%Z ->
     op_bin OModInt st (VNum x) (VNum y) = ROk (VNum (n_of_Z (Z.rem (n_trunc x) (n_trunc y))))) /\
    (n_trunc y = 0%Z -> op_bin OModInt st (VNum x) (VNum y) = RErr (rt_err T_RUNTIME)) /\
    op_bin OGeq st (VNum x) (VNum y) = ROk (VBool (n_leb y x)) /\
    op_bin OGt st (VNum x) (VNum y) = ROk (VBool (n_ltb y x)) /\
    op_bin OLeq st (VNum x) (VNum y) = ROk (VBool (n_leb x y)) /\
    op_bin OLt st (VNum x) (VNum y) = ROk (VBool (n_ltb x y)) /\
    op_bin OEq st (VNum x) (VNum y) = ROk (VBool (n_eqb x y)) /\
    op_bin ONeq st (VNum x) (VNum y) = ROk (VBool (negb (n_eqb x y))).
Proof. intros NO. exact op_bin_on_numbers. Qed.
Print Assumptions C03_interp_operators_on_numbers.

Theorem C03_interp_operators_on_strings :
  forall (NO : NumOps) st a b,
    op_bin OGeq st (VStr a) (VStr b) = ROk (VBool (bytes_leb b a)) /\
    op_bin OGt st (VStr a) (VStr b) = ROk (VBool (bytes_ltb b a)) /\
    op_bin OLeq st (VStr a) (VStr b) = ROk (VBool (bytes_leb a b)) /\
    op_bin OLt st (VStr a) (VStr b) = ROk (VBool (bytes_ltb a b)) /\
    op_bin OEq st (VStr a) (VStr b) = ROk (VBool (bytes_eqb a b)) /\
    op_bin ONeq st (VStr a) (VStr b) = ROk (VBool (negb (bytes_eqb a b))) /\
    op_bin OHasPrefix st (VStr a) (VStr b) = ROk (VBool (prefixb b a)) /\
    op_bin OHasSuffix st (VStr a) (VStr b) = ROk (VBool (prefixb (rev b) (rev a))).
Proof. intros NO. exact op_bin_on_strings. Qed.
Print Assumptions C03_interp_operators_on_strings.

Theorem C03_interp_operators_on_booleans :
  forall (NO : NumOps) st x y,
    op_bin OAnd st (VBool x) (VBool y) = ROk (VBool (andb x y)) /\
    op_bin OOr st (VBool x) (VBool y) = ROk (VBool (orb x y)) /\
    op_bin OEq st (VBool x) (VBool y) = ROk (VBool (Bool.eqb x y)) /\
    op_pre PNot (VBool x) = ROk (VBool (negb x)).
Proof. intros NO. exact op_bin_on_booleans. Qed.
Print Assumptions C03_interp_operators_on_booleans.

(* an arithmetic or boolean operator applied to an operand of the wrong kind yields the documented
   runtime error, not a value (the error VALUE of Model/Interp.v carries the error type; the detail
   naming the operand is decided on the focused model: Props/C03.v) *)
Theorem C03_interp_wrong_kind_is_error :
  forall (NO : NumOps) o st a b,
    (is_arith o = true -> is_num a && is_num b = false -> op_bin o st a b = RErr (rt_err T_NOTNUM)) /\
    (is_boolop o = true -> is_boolv a && is_boolv b = false -> op_bin o st a b = RErr (rt_err T_NOTBOOL)).
Proof. intros NO. exact op_bin_wrong_kind. Qed.
Print Assumptions C03_interp_wrong_kind_is_error.

Theorem C03_interp_prefix_wrong_kind_is_error :
  forall (NO : NumOps) a,
    (is_num a = false -> op_pre PNeg a = RErr (rt_err T_NOTNUM) /\ op_pre PPos a = RErr (rt_err T_NOTNUM)) /\
    (is_boolv a = false -> op_pre PNot a = RErr (rt_err T_NOTBOOL)).
Proof. intros NO. exact op_pre_wrong_kind. Qed.
Print Assumptions C03_interp_prefix_wrong_kind_is_error.

(* == / != : two lists or two maps -> runtime error; otherwise (values the model tracks) equality by
   kind and content, different kinds differ *)
Theorem C03_interp_equality_cases :
  forall (NO : NumOps) a b,
    (uncomparable a b = true -> eq_spec a b = RErr (rt_err T_RUNTIME)) /\
    (uncomparable a b = false -> tracked a && tracked b = true -> eq_spec a b = ROk (key_eqb a b)).
Proof. intros NO. exact eq_spec_cases. Qed.
Print Assumptions C03_interp_equality_cases.

(* in / notin need a list on the right; on a list whose items can be compared with the value they are
   "some item is equal" / its negation *)
Theorem C03_interp_in_needs_a_list :
  forall (NO : NumOps) st a b, is_list b = false ->
    op_bin OIn st a b = RErr (rt_err T_NOTLIST) /\ op_bin ONotIn st a b = RErr (rt_err T_NOTLIST).
Proof. intros NO. exact in_needs_a_list. Qed.
Print Assumptions C03_interp_in_needs_a_list.

Theorem C03_interp_in_on_comparable_items :
  forall (NO : NumOps) st v a len cells,
    nth_error (st_arrs st) a = Some cells -> len <= length cells ->
    tracked v = true -> plain_items v (firstn len cells) = true ->
    op_bin OIn st v (VList a len) = ROk (VBool (existsb (key_eqb v) (firstn len cells))) /\
    op_bin ONotIn st v (VList a len) = ROk (VBool (negb (existsb (key_eqb v) (firstn len cells)))).
Proof. intros NO. exact in_on_plain_list. Qed.
Print Assumptions C03_interp_in_on_comparable_items.

(* on operands that are no heap references the operator does not even read the state *)
Theorem C03_interp_scalar_operands_state_independent :
  forall (NO : NumOps) o st st' a b,
    is_scalar a = true -> is_scalar b = true -> op_bin o st a b = op_bin o st' a b.
Proof. intros NO. exact op_bin_scalar_state_independent. Qed.
Print Assumptions C03_interp_scalar_operands_state_independent.

(* ---- PART 4 (PARTIAL: literals, prefix operators, every binary operator except `like` and `:=`; no
   identifiers, no list literals): with the binary64 NumOps instance the unified model refines the
   focused model Model/Expr.v on the trees [node_of e]: same value; an error of the corresponding type;
   the focused model's "Go panic" (it predates the repairs) is the "Runtime error" value; nothing is
   claimed where the focused model is RUnmodelled; the state is untouched.
   [lits_ok]: the number table of the instance agrees with the focused model's literal parser. *)
Theorem C03_interp_refines_expr_partial :
  forall nums strs env rx (e : expr), in_frag e = true -> lits_ok nums e ->
  forall fuel path sc is st, depth e <= fuel ->
  exists w, @eval (RunC06Interp.float_ops nums strs) (S fuel) path (node_of e) sc is st = (w, st) /\
            agrees nums strs (Expr.eval env rx path (node_of e)) w.
Proof. exact interp_refines_expr_partial. Qed.
Print Assumptions C03_interp_refines_expr_partial.

(* ---- non-vacuity *)
Definition lf (name : string) (v : bytes) : node := Node name v false true 1 [].
Definition bn (name : string) (a b : node) : node := Node name [] false false 1 [a; b].
Definition un (name : string) (a : node) : node := Node name [] false false 1 [a].

(* for every NumOps: "ab" hasprefix "a" = true; `false and (not null)` is the error of the SECOND operand,
   not false; `true or null` is "not a boolean" *)
Example C03_interp_example_any_numops : forall NO : NumOps,
  fst (eval 3 [] (bn NodeHASPREFIX (lf NodeSTRING [97; 98]%N) (lf NodeSTRING [97]%N)) 0 0 init_state)
    = ROk (VBool true) /\
  fst (eval 3 [] (bn NodeAND (lf NodeFALSE []) (un NodeNOT (lf NodeNULL []))) 0 0 init_state)
    = RErr (rt_err T_NOTBOOL) /\
  fst (eval 3 [] (bn NodeOR (lf NodeTRUE []) (lf NodeNULL [])) 0 0 init_state)
    = RErr (rt_err T_NOTBOOL) /\
  fst (eval 3 [] (bn NodeEQ (Node NodeLIST [] false false 1 []) (Node NodeLIST [] false false 1 [])) 0 0 init_state)
    = RErr (rt_err T_RUNTIME) /\
  fst (eval 3 [] (bn NodeIN (lf NodeNULL []) (lf NodeNULL [])) 0 0 init_state)
    = RErr (rt_err T_NOTLIST).
Proof. intros NO. vm_compute. repeat split; reflexivity. Qed.

(* the second pass of a comparison is observable: `[] < "a"` evaluates the list literal TWICE (two arrays
   are allocated) and compares "[]" with "a" as strings; `[] < (not null)` evaluates the list literal
   twice although the second operand fails both times *)
Example C03_interp_example_second_pass : forall NO : NumOps,
  let r1 := eval 3 [] (bn NodeLT (Node NodeLIST [] false false 1 []) (lf NodeSTRING [97]%N)) 0 0 init_state in
  let r2 := eval 3 [] (bn NodeLT (Node NodeLIST [] false false 1 []) (un NodeNOT (lf NodeNULL []))) 0 0 init_state in
  let r3 := eval 3 [] (bn NodeEQ (Node NodeLIST [] false false 1 []) (lf NodeSTRING [97]%N)) 0 0 init_state in
  fst r1 = ROk (VBool true) /\ length (st_arrs (snd r1)) = 2 /\
  fst r2 = RErr (rt_err T_NOTBOOL) /\ length (st_arrs (snd r2)) = 2 /\
  fst r3 = ROk (VBool false) /\ length (st_arrs (snd r3)) = 1.
Proof. intros NO. vm_compute. repeat split; reflexivity. Qed.

(* binary64: (7 // 2 >= 3) and not (7 % 2 == 0) is true; 7 % 0 is the runtime error; 1 + "a" is "not a number";
   the hypotheses of the refinement theorem hold for this expression and the focused model agrees *)
Definition ex_nums : list (bytes * Z) :=
  [([55]%N, 4619567317775286272%Z); ([50]%N, 4611686018427387904%Z); ([51]%N, 4613937818241073152%Z);
   ([48]%N, 0%Z); ([49]%N, 4607182418800017408%Z)].
Definition ti0 (v : bytes) : tinfo := mkTI v false true 1.
Definition ex_num (v : bytes) : expr := EAtom ANum (ti0 v).
Definition ex_expr : expr :=
  EBin OAnd (ti0 [])
    (EBin OGeq (ti0 []) (EBin ODivInt (ti0 []) (ex_num [55]%N) (ex_num [50]%N)) (ex_num [51]%N))
    (EPre PNot (ti0 []) (EBin OEq (ti0 []) (EBin OModInt (ti0 []) (ex_num [55]%N) (ex_num [50]%N)) (ex_num [48]%N))).

Definition res_is_bool {NO : NumOps} (r : res value) (b : bool) : bool :=
  match r with ROk (VBool x) => Bool.eqb x b | _ => false end.
Definition res_is_err {NO : NumOps} (r : res value) (ty : bytes) : bool :=
  match r with RErr e => is_rt e ty | _ => false end.

Example C03_interp_example_binary64 :
  let ev e := fst (@eval (RunC06Interp.float_ops ex_nums []) 9 [] (node_of e) 0 0 init_state) in
  res_is_bool (ev ex_expr) true = true /\
  res_is_err (ev (EBin OModInt (ti0 []) (ex_num [55]%N) (ex_num [48]%N))) T_RUNTIME = true /\
  res_is_err (ev (EBin OPlus (ti0 []) (ex_num [49]%N) (EAtom AStr (ti0 [97]%N)))) T_NOTNUM = true /\
  in_frag ex_expr = true /\ depth ex_expr = 4 /\
  Expr.eval [] [] [] (node_of ex_expr) = Expr.RVal (Expr.VBool true).
Proof. vm_compute. repeat split; reflexivity. Qed.

Example C03_interp_example_lits_ok : lits_ok ex_nums ex_expr.
Proof.
  cbn [lits_ok ex_expr ex_num ti0 ti_val].
  repeat split; intros f H; vm_compute in H; injection H as <-; vm_compute; reflexivity.
Qed.
