(* Props/C17.v — File imports cannot escape the configured root directory.
   Only theorem statements, closed by [exact], and Print Assumptions. *)
From Ecal Require Import Common.Bytes Model.PathClean Model.ImportLoc Spec.ImportSpec Proofs.PathCleanProofs.

(* For EVERY root string and EVERY import path string (any bytes: "..", ".", empty elements,
   leading, repeated and trailing separators, absolute or relative, in any combination):
   when the locator decides to open a path at all, that path is the canonical root directory
   or is reached from it by descending through ordinary entry names only. *)
Theorem C17_resolve_confined :
  forall root path p : bytes, resolve root path = Some p -> inside root p.
Proof. exact resolve_confined. Qed.
Print Assumptions C17_resolve_confined.

(* The same, spelled out on the elements of the opened path: the elements of the cleaned
   root, followed by names none of which is "..", "." or empty or contains a separator;
   rooted exactly when the root is. *)
Theorem C17_opened_path_elements :
  forall root path p : bytes,
    resolve root path = Some p ->
    exists names, Forall plain_name names /\
      p = render (rooted root) (clean_elems root ++ names).
Proof. intros root path p H. apply inside_elements. exact (resolve_confined root path p H). Qed.
Print Assumptions C17_opened_path_elements.

(* The path handed to the file system is in cleaned form: cleaning it again changes nothing. *)
Theorem C17_opened_path_clean :
  forall root path p : bytes, resolve root path = Some p -> clean p = p.
Proof. exact resolve_clean. Qed.
Print Assumptions C17_opened_path_clean.

(* The same confinement without any reference to Clean: walk the elements of the root string
   and of the opened path from their starting directory ("" and "." stay, ".." leaves the
   directory entered last or climbs above the start, a name enters).  The opened path starts
   where the root starts (both rooted or both not), climbs exactly as far above the start as
   the root does, and ends in the directory the root ends in or below it through ordinary
   names. *)
Theorem C17_resolve_below :
  forall root path p : bytes,
    resolve root path = Some p ->
    rooted p = rooted root /\
    exists names, Forall plain_name names /\
      position_of p = (fst (position_of root), rev names ++ snd (position_of root)).
Proof. intros root path p H. exact (inside_below root p (resolve_confined root path p H)). Qed.
Print Assumptions C17_resolve_below.

(* Not vacuous: every path made of ordinary names is accepted, under every root, and the
   opened path is exactly the descent from the cleaned root. *)
Theorem C17_resolve_complete :
  forall (root : bytes) (names : list bytes),
    Forall plain_name names ->
    resolve root (join_slash names) = Some (descend (clean root) names).
Proof. exact resolve_complete. Qed.
Print Assumptions C17_resolve_complete.

(* What "cleaned" means, for every string: the result of Clean is rendered from a leading
   run of ".." (empty when the path is rooted) followed by ordinary names only — no empty
   element, no ".", no ".." behind a name. *)
Theorem C17_clean_shape :
  forall s : bytes,
    exists k names,
      clean s = render (rooted s) (repeat DOTDOT k ++ names) /\
      Forall plain_name names /\ (rooted s = true -> k = 0%nat).
Proof. exact clean_shape. Qed.
Print Assumptions C17_clean_shape.

Theorem C17_clean_idempotent : forall s : bytes, clean (clean s) = clean s.
Proof. exact clean_idem. Qed.
Print Assumptions C17_clean_idempotent.

(* Non-vacuity on concrete strings:
   "root" + "sub/.././/in.txt/"   -> opens "root/in.txt"
   "root" + "../rootx/f"          -> error (sibling whose name starts with the root's name)
   "/r/"  + "/etc/passwd"         -> opens "/r/etc/passwd" (an absolute import path stays below the root)
   ".."   + ".."                  -> error;   ""  + "/etc" -> error *)
Example C17_example_inside :
  resolve [114;111;111;116] [115;117;98;47;46;46;47;46;47;47;105;110;46;116;120;116;47]
  = Some [114;111;111;116;47;105;110;46;116;120;116].
Proof. vm_compute. reflexivity. Qed.

Example C17_example_sibling :
  resolve [114;111;111;116] [46;46;47;114;111;111;116;120;47;102] = None.
Proof. vm_compute. reflexivity. Qed.

Example C17_example_absolute :
  resolve [47;114;47] [47;101;116;99;47;112;97;115;115;119;100]
  = Some [47;114;47;101;116;99;47;112;97;115;115;119;100].
Proof. vm_compute. reflexivity. Qed.

Example C17_example_position :
  position_of [46;46;47;97;47;47;98;47;46;46;47;99;47;46] = (1%nat, [[99]; [97]]).   (* "../a//b/../c/." *)
Proof. vm_compute. reflexivity. Qed.

Example C17_example_updir : resolve [46;46] [46;46] = None /\ resolve [] [47;101;116;99] = None.
Proof. vm_compute. split; reflexivity. Qed.
