(* Props/C09.v — The thread pool runs every accepted task exactly once without outside help.
   Only theorem statements, closed by [exact], and Print Assumptions.
   [reachable step init s]: s is reached by SOME schedule of ANY length of the model of
   Model/Pool.v, with any number of workers, AddTask callers, tasks and resize / wait /
   join calls (Common/Sched.v). *)
From Coq Require Import List ZArith Bool Arith Permutation.
From Ecal Require Import Common.Sched Model.Pool Spec.PoolSpec Proofs.PoolProofs.
Import ListNotations.

(* No task runs twice or is dropped: in every reachable state the queued, the running and
   the executed tasks together are exactly the tasks handed to AddTask (as a multiset), and
   if these were pairwise distinct no task occurs twice among queued / running / executed. *)
Theorem C09_exactly_once :
  forall s, reachable step init s -> accounted s /\ no_duplicates s.
Proof. intros s R; split; [exact (reach_accounted s R) | exact (reach_no_duplicates s R)]. Qed.
Print Assumptions C09_exactly_once.

(* The invariant that excludes the lost wake-up (I0, LI, I1, I2 of Proofs/PoolProofs.v):
   tokens only for sleepers; newTaskCond.L has at most one owner and the threads in an L
   region are exactly its owners; a queued task always has a worker that will look again, an
   unconsumed wake-up, a Signal or a Broadcast on its way - or nobody sleeps; once
   workerKill is set and its Broadcast sent, every sleeper has a wake-up. *)
Theorem C09_no_lost_wakeup :
  forall s, reachable step init s -> NInv s.
Proof. exact reach_ninv. Qed.
Print Assumptions C09_no_lost_wakeup.

(* "without any further call being needed": the state in which a task is queued, workers
   exist that were not told to exit, all of them sleep and nothing under way will wake one
   is unreachable. *)
Theorem C09_no_stuck_state :
  forall s, reachable step init s -> ~ lost_wakeup s.
Proof. exact reach_no_lost_wakeup. Qed.
Print Assumptions C09_no_stuck_state.

(* Deadlock freedom: while there are workers and something is left to do (a task queued or
   running, or workers told to exit) some thread can take its next step without any new
   call into the pool; in particular the owner of newTaskCond.L is never blocked. *)
Theorem C09_some_step_enabled :
  forall s, reachable step init s -> workers s <> [] -> unfinished s ->
  exists l, internal s l = true /\ step s l <> None.
Proof. exact some_step_enabled. Qed.
Print Assumptions C09_some_step_enabled.

(* WaitAll's exit condition, read atomically: no task is running; if the pool has workers
   no task is queued either and every task handed to AddTask so far was executed.  (With
   zero workers WaitAll returns even if tasks are queued - the code documents this.) *)
Theorem C09_waitall_sound :
  forall s, reachable step init s -> waitall_exit s ->
  running (workers s) = [] /\
  (length (workers s) > 0 -> queue s = [] /\ all_added_were_run s).
Proof.
  intros s R W. destruct (waitall_exit_sound s W) as [A B]. split; [exact A|].
  intros L; split; [exact (B L) | exact (waitall_exit_all_done s R W L)].
Qed.
Print Assumptions C09_waitall_sound.

(* JoinAll's exit condition: zero workers, nothing queued, and every task handed to AddTask
   so far was executed. *)
Theorem C09_joinall_leaves_zero_workers :
  forall s, reachable step init s -> joinall_exit s ->
  workers s = [] /\ queue s = [] /\ all_added_were_run s.
Proof. exact joinall_exit_sound. Qed.
Print Assumptions C09_joinall_leaves_zero_workers.

(* Shrinking from n to c workers (workerKill := n - c) in a pool where no worker is already
   leaving: along every continuation without another resize call, once the kill count is
   used up and the leaving workers have deregistered, exactly c workers remain.  Progress
   until then is C09_some_step_enabled (kill <> 0 counts as unfinished).  NOT proved:
   termination under a fair scheduler, and resize calls that overlap an earlier shrink
   (see fixes/C09-resize-overlap.finding.md). *)
Theorem C09_setworkercount_converges_partial :
  forall s0 e n c s sched s',
  length (workers s0) = n -> cnt isEx (workers s0) = 0 -> cnt isAKT (workers s0) = 0 -> c <= n ->
  step s0 (LSetKill e (Z.of_nat n - Z.of_nat c)%Z) = Some s ->
  run step s sched = Some s' -> no_resize sched = true ->
  kill s' = 0%Z -> cnt isEx (workers s') = 0 ->
  length (workers s') = c.
Proof. exact shrink_target. Qed.
Print Assumptions C09_setworkercount_converges_partial.

(* The protocol before the repair (Signal without L, Wait without re-check): the schedule
   worker 0 pops nil - AddTask pushes - AddTask signals - worker 0 waits
   reaches a state with a queued task, one worker, asleep, no wake-up and no Signal under
   way; from there only a new call changes anything. *)
Theorem C09_old_protocol_refuted :
  exists sched s, run ostep (oinit 1) sched = Some s /\ ostuck s = true.
Proof. exact old_protocol_stuck. Qed.
Print Assumptions C09_old_protocol_refuted.

Theorem C09_old_stuck_needs_outside_help :
  forall s l, NoDup (map fst (oworkers s)) -> ostuck s = true ->
  match l with OPush _ => True | _ => ostep s l = None end.
Proof. exact ostuck_no_progress. Qed.
Print Assumptions C09_old_stuck_needs_outside_help.

(* Non-vacuity.  The lost wake-up window in the repaired protocol: worker 1 pops nil, an
   AddTask pushes task 7 and signals nobody, the worker re-checks under L, sees the task,
   does not wait, and runs it. *)
Definition C09_window : list label :=
  [LSpawn 0 1; LKillCheck 1 0; LPop 1 None; LPush 0 7; LALock 0; LSignal 0; LAUnlock 0;
   LIdleReg 1; LWLock 1; LKillRead 1 0; LSizeRead 1 1; LWUnlock 1; LIdleDereg 1;
   LKillCheck 1 0; LPop 1 (Some 7); LDone 1 7].

Example C09_example_window :
  option_map (fun s => (queue s, done s, workers s, tokens s)) (run step init C09_window)
  = Some ([], [7], [(1, Head)], 0).
Proof. vm_compute. reflexivity. Qed.

(* ... and a sleeping worker woken by AddTask: reachable states with a sleeper, a token, a
   queued task (the hypotheses of the theorems above are met by non-trivial states). *)
Example C09_example_sleeper :
  option_map (fun s => (queue s, workers s, tokens s, holder s))
    (run step init [LSpawn 0 1; LKillCheck 1 0; LPop 1 None; LIdleReg 1; LWLock 1; LKillRead 1 0;
                    LSizeRead 1 0; LWait 1; LPush 0 7; LALock 0; LSignal 0])
  = Some ([7], [(1, Waiting)], 1, Some (TA 0)).
Proof. vm_compute. reflexivity. Qed.

(* the repaired model refuses to let the worker of the old witness fall asleep:
   after "pop nil - push - signal" the size re-check reads 1, and reading 0 is not a step *)
Example C09_example_old_witness_blocked :
  run step init [LSpawn 0 1; LKillCheck 1 0; LPop 1 None; LPush 0 7; LALock 0; LSignal 0; LAUnlock 0;
                 LIdleReg 1; LWLock 1; LKillRead 1 0; LSizeRead 1 0] = None.
Proof. vm_compute. reflexivity. Qed.
