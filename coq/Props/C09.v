(* Props/C09.v — The thread pool runs every accepted task exactly once without outside help.
   Only theorem statements, closed by [exact], and Print Assumptions.
   [reachable step init s]: s is reached by SOME schedule of ANY length of the model of
   Model/Pool.v, with any number of workers, AddTask callers, tasks and resize / wait /
   join calls (Common/Sched.v). *)
From Coq Require Import List ZArith Bool Arith Permutation.
From Ecal Require Import Common.Sched Model.Pool Spec.PoolSpec Proofs.PoolProofs.
Import ListNotations.

(* No task runs twice or is dropped: in every reachable state the queued, the running and
   the executed tasks together are exactly the tasks handed to AddTask (as a multiset), and
   if these were pairwise distinct no task occurs twice among queued / running / executed. *)
Theorem C09_exactly_once :
  forall s, reachable step init s -> accounted s /\ no_duplicates s.
Proof. intros s R; split; [exact (reach_accounted s R) | exact (reach_no_duplicates s R)]. Qed.
Print Assumptions C09_exactly_once.

(* The invariant that excludes the lost wake-up (I0, LI, I1, I2 of Proofs/PoolProofs.v):
   tokens only for sleepers; newTaskCond.L has at most one owner and the threads in an L
   region are exactly its owners; a queued task always has a worker that will look again, an
   unconsumed wake-up, a Signal or a Broadcast on its way - or nobody sleeps; once
   workerKill is set and its Broadcast sent, every sleeper has a wake-up. *)
Theorem C09_no_lost_wakeup :
  forall s, reachable step init s -> NInv s.
Proof. exact reach_ninv. Qed.
Print Assumptions C09_no_lost_wakeup.

(* "without any further call being needed": the state in which a task is queued, workers
   exist that were not told to exit, all of them sleep and nothing under way will wake one
   is unreachable. *)
Theorem C09_no_stuck_state :
  forall s, reachable step init s -> ~ lost_wakeup s.
Proof. exact reach_no_lost_wakeup. Qed.
Print Assumptions C09_no_stuck_state.

(* Deadlock freedom: while there are workers and something is left to do (a task queued or
   running, or workers told to exit) some thread can take its next step without any new
   call into the pool; in particular the owner of newTaskCond.L is never blocked. *)
Theorem C09_some_step_enabled :
  forall s, reachable step init s -> workers s <> [] -> unfinished s ->
  exists l, internal s l = true /\ step s l <> None.
Proof. exact some_step_enabled. Qed.
Print Assumptions C09_some_step_enabled.

(* WaitAll's exit condition, read atomically: no task is running; if the pool has workers
   no task is queued either and every task handed to AddTask so far was executed.  (With
   zero workers WaitAll returns even if tasks are queued - the code documents this.) *)
Theorem C09_waitall_sound :
  forall s, reachable step init s -> waitall_exit s ->
  running (workers s) = [] /\
  (length (workers s) > 0 -> queue s = [] /\ all_added_were_run s).
Proof.
  intros s R W. destruct (waitall_exit_sound s W) as [A B]. split; [exact A|].
  intros L; split; [exact (B L) | exact (waitall_exit_all_done s R W L)].
Qed.
Print Assumptions C09_waitall_sound.

(* JoinAll's exit condition: zero workers, nothing queued, and every task handed to AddTask
   so far was executed. *)
Theorem C09_joinall_leaves_zero_workers :
  forall s, reachable step init s -> joinall_exit s ->
  workers s = [] /\ queue s = [] /\ all_added_were_run s.
Proof. exact joinall_exit_sound. Qed.
Print Assumptions C09_joinall_leaves_zero_workers.

(* Shrinking from n to c workers (workerKill := n - c) in a pool where no worker is already
   leaving: along every continuation without another resize call, once the kill count is
   used up and the leaving workers have deregistered, exactly c workers remain.  Progress
   until then is C09_some_step_enabled (kill <> 0 counts as unfinished).  NOT proved:
   termination under a fair scheduler, and resize calls that overlap an earlier shrink
   (see fixes/C09-resize-overlap.finding.md). *)
Theorem C09_setworkercount_converges_partial :
  forall s0 e n c s sched s',
  length (workers s0) = n -> cnt isEx (workers s0) = 0 -> cnt isAKT (workers s0) = 0 -> c <= n ->
  step s0 (LSetKill e (Z.of_nat n - Z.of_nat c)%Z) = Some s ->
  run step s sched = Some s' -> no_resize sched = true ->
  kill s' = 0%Z -> cnt isEx (workers s') = 0 ->
  length (workers s') = c.
Proof. exact shrink_target. Qed.
Print Assumptions C09_setworkercount_converges_partial.

(* The protocol before the repair (Signal without L, Wait without re-check): the schedule
   worker 0 pops nil - AddTask pushes - AddTask signals - worker 0 waits
   reaches a state with a queued task, one worker, asleep, no wake-up and no Signal under
   way; from there only a new call changes anything. *)
Theorem C09_old_protocol_refuted :
  exists sched s, run ostep (oinit 1) sched = Some s /\ ostuck s = true.
Proof. exact old_protocol_stuck. Qed.
Print Assumptions C09_old_protocol_refuted.

Theorem C09_old_stuck_needs_outside_help :
  forall s l, NoDup (map fst (oworkers s)) -> ostuck s = true ->
  match l with OPush _ => True | _ => ostep s l = None end.
Proof. exact ostuck_no_progress. Qed.
Print Assumptions C09_old_stuck_needs_outside_help.

(* Non-vacuity.  The lost wake-up window in the repaired protocol: worker 1 pops nil, an
   AddTask pushes task 7 and signals nobody, the worker re-checks under L, sees the task,
   does not wait, and runs it. *)
Definition C09_window : list label :=
  [LSpawn 0 1; LKillCheck 1 0; LPop 1 None; LPush 0 7; LALock 0; LSignal 0; LAUnlock 0;
   LIdleReg 1; LWLock 1; LKillRead 1 0; LSizeRead 1 1; LWUnlock 1; LIdleDereg 1;
   LKillCheck 1 0; LPop 1 (Some 7); LDone 1 7].

Example C09_example_window :
  option_map (fun s => (queue s, done s, workers s, tokens s)) (run step init C09_window)
  = Some ([], [7], [(1, Head)], 0).
Proof. vm_compute. reflexivity. Qed.

(* ... and a sleeping worker woken by AddTask: reachable states with a sleeper, a token, a
   queued task (the hypotheses of the theorems above are met by non-trivial states). *)
Example C09_example_sleeper :
  option_map (fun s => (queue s, workers s, tokens s, holder s))
    (run step init [LSpawn 0 1; LKillCheck 1 0; LPop 1 None; LIdleReg 1; LWLock 1; LKillRead 1 0;
                    LSizeRead 1 0; LWait 1; LPush 0 7; LALock 0; LSignal 0])
  = Some ([7], [(1, Waiting)], 1, Some (TA 0)).
Proof. vm_compute. reflexivity. Qed.

(* the repaired model refuses to let the worker of the old witness fall asleep:
   after "pop nil - push - signal" the size re-check reads 1, and reading 0 is not a step *)
Example C09_example_old_witness_blocked :
  run step init [LSpawn 0 1; LKillCheck 1 0; LPop 1 None; LPush 0 7; LALock 0; LSignal 0; LAUnlock 0;
                 LIdleReg 1; LWLock 1; LKillRead 1 0; LSizeRead 1 0] = None.
Proof. vm_compute. reflexivity. Qed.

(* ================================================================================== *)
(* "... is EVENTUALLY started by exactly one worker without any further call being needed":
   termination of the pool's internal activity (Proofs/PoolLiveness.v).

   [internal s l]: label l continues something already started (a worker's next lock region,
   the rest of an AddTask, the Broadcast owed after workerKill was set, the rest of a
   Broadcast); NOT internal: AddTask's Push, SetWorkerCount's kill / grow / spawn, the
   observations, the start of a periodic WaitAll / JoinAll re-Broadcast.
   [irun s sched = Some s']: sched leads from s to s' and every step of it is internal.
   [quiescent s]: no internal step is enabled in s - a run ending there is MAXIMAL.
   [asleep s]: L is free, no AddTask and no Broadcast is in flight, every worker is inside
   Wait, no wake-up is left. *)
From Ecal Require Import Proofs.PoolLiveness.

(* The termination measure (workers weighted by their distance to the next sleep, 3 per
   queued task, 11 per unconsumed wake-up, 13-14 per AddTask that owes its Signal,
   11 * #workers per Broadcast still to come): EVERY internal step strictly decreases it, in
   every state whose workerKill is one of the values the code stores (-1, 0, positive; below
   -1 the workers of the Go code - and of the model - would spin). *)
Theorem C09_internal_step_decreases :
  forall s l s', (-1 <= kill s)%Z -> internal s l = true -> step s l = Some s' ->
  measure s' < measure s.
Proof. exact measure_step. Qed.
Print Assumptions C09_internal_step_decreases.

(* Hence there is no infinite internal run: the length of every internal run is bounded by
   the measure of the state it starts in (no fairness assumption anywhere). *)
Theorem C09_internal_runs_bounded :
  forall s sched s', (-1 <= kill s)%Z -> irun s sched = Some s' -> length sched <= measure s.
Proof. exact runs_bounded. Qed.
Print Assumptions C09_internal_runs_bounded.

(* ... and from every reachable state some internal run ends in a quiescent state. *)
Theorem C09_maximal_run_exists :
  forall s, reachable step init s -> (-1 <= kill s)%Z ->
  exists sched s', irun s sched = Some s' /\ quiescent s'.
Proof. exact maximal_run_exists. Qed.
Print Assumptions C09_maximal_run_exists.

(* A reachable state is quiescent exactly when the pool is asleep. *)
Theorem C09_quiescent_iff_asleep :
  forall s, reachable step init s -> (quiescent s <-> asleep s).
Proof.
  intros s R; split;
    [exact (quiescent_asleep s (reach_kinv s R) (reach_ninv s R)) | exact (asleep_quiescent s)].
Qed.
Print Assumptions C09_quiescent_iff_asleep.

(* DRAINS.  From any reachable state in which no JoinAll is in progress and at least one
   worker is going to stay (live workers - workerKill > 0): EVERY maximal internal run - any
   interleaving, no further call into the pool - ends with nothing queued, nothing running,
   every task ever handed to AddTask executed (as a multiset: exactly once,
   C09_exactly_once), the workers asleep, and exactly live - workerKill of them left. *)
Theorem C09_drains :
  forall s sched s',
  reachable step init s -> nojoin s -> (0 < balance s)%Z ->
  irun s sched = Some s' -> quiescent s' ->
  queue s' = [] /\ running (workers s') = [] /\ Permutation (done s') (added s) /\
  asleep s' /\ Z.of_nat (length (workers s')) = balance s.
Proof. exact drains. Qed.
Print Assumptions C09_drains.

(* The same for the situation of the property text: no resize in progress (workerKill = 0),
   at least one live worker. *)
Theorem C09_drains_kill0 :
  forall s sched s',
  reachable step init s -> kill s = 0%Z -> cnt isAKT (workers s) = 0 -> cnt isLive (workers s) > 0 ->
  irun s sched = Some s' -> quiescent s' ->
  queue s' = [] /\ running (workers s') = [] /\ Permutation (done s') (added s) /\
  asleep s' /\ length (workers s') = cnt isLive (workers s).
Proof. exact drains_kill0. Qed.
Print Assumptions C09_drains_kill0.

(* "changing the worker count converges to the requested number", for resizes that do not
   overlap (no worker of an earlier shrink / JoinAll is still on its way out when the call
   reads len(workerMap); the overlapping case is fixes/C09-resize-overlap.finding.md), busy
   workers and in-flight AddTasks allowed.
   Shrink n -> c: after workerKill := n - c every internal run is bounded, and every maximal
   one ends with exactly c workers, workerKill = 0, the pool asleep. *)
Theorem C09_setworkercount_converges :
  forall s0 e n c s sched s',
  reachable step init s0 ->
  length (workers s0) = n -> cnt isEx (workers s0) = 0 -> cnt isAKT (workers s0) = 0 -> c <= n ->
  step s0 (LSetKill e (Z.of_nat n - Z.of_nat c)%Z) = Some s ->
  irun s sched = Some s' ->
  length sched <= measure s /\
  (quiescent s' -> length (workers s') = c /\ kill s' = 0%Z /\ asleep s').
Proof. exact shrink_converges. Qed.
Print Assumptions C09_setworkercount_converges.

(* Grow to c: in the state after the call's steps (workerKill := 0, workers spawned until
   len(workerMap) = c) every maximal internal run ends with exactly c workers. *)
Theorem C09_setworkercount_grow_converges :
  forall s c sched s',
  reachable step init s -> kill s = 0%Z -> cnt isEx (workers s) = 0 -> cnt isAKT (workers s) = 0 ->
  length (workers s) = c ->
  irun s sched = Some s' ->
  length sched <= measure s /\
  (quiescent s' -> length (workers s') = c /\ kill s' = 0%Z /\ asleep s').
Proof. exact grown_converges. Qed.
Print Assumptions C09_setworkercount_grow_converges.

(* "joining processes all queued tasks and then leaves zero workers", the eventually part:
   once JoinAll has set workerKill = -1 in a pool with at least one worker that has not left,
   every internal run is bounded and every maximal one ends with zero workers, nothing
   queued, every accepted task executed (C09_joinall_leaves_zero_workers is about the exit
   condition JoinAll reads; this is that it will come to hold). *)
Theorem C09_joinall_drains :
  forall s sched s',
  reachable step init s -> kill s = (-1)%Z -> cnt isLive (workers s) > 0 ->
  irun s sched = Some s' ->
  length sched <= measure s /\
  (quiescent s' -> workers s' = [] /\ queue s' = [] /\ Permutation (done s') (added s)).
Proof. exact join_drains. Qed.
Print Assumptions C09_joinall_drains.

(* Non-vacuity.  Two workers, worker 1 asleep, worker 2 at the loop head, two AddTask calls
   have pushed tasks 7 and 8 and owe their Signals: measure 41 = 0 + 7 (workers) + 2 * 14
   (AddTasks) + 2 * 3 (queued). *)
Definition C09_two_queued : list label :=
  [LSpawn 0 1; LSpawn 0 2; LKillCheck 1 0; LPop 1 None; LIdleReg 1; LWLock 1; LKillRead 1 0;
   LSizeRead 1 0; LWait 1; LPush 0 7; LPush 1 8].

Example C09_example_measure :
  option_map (fun s => (queue s, workers s, adders s, measure s)) (run step init C09_two_queued)
  = Some ([7; 8], [(2, Head); (1, Waiting)], [(1, APushed); (0, APushed)], 41).
Proof. vm_compute. reflexivity. Qed.

(* one of its maximal internal runs (30 <= 41 steps): the first Signal wakes worker 1, which
   runs task 7; the second Signal finds nobody asleep; worker 2 runs task 8; both go to sleep *)
Definition C09_drain_run : list label :=
  [LALock 0; LSignal 0; LAUnlock 0; LWake 1; LRelock 1; LWUnlock 1; LIdleDereg 1;
   LKillCheck 1 0; LPop 1 (Some 7); LDone 1 7; LALock 1; LSignal 1; LAUnlock 1;
   LKillCheck 2 0; LPop 2 (Some 8); LDone 2 8;
   LKillCheck 1 0; LPop 1 None; LIdleReg 1; LWLock 1; LKillRead 1 0; LSizeRead 1 0; LWait 1;
   LKillCheck 2 0; LPop 2 None; LIdleReg 2; LWLock 2; LKillRead 2 0; LSizeRead 2 0; LWait 2].

Example C09_example_drain_run :
  match run step init C09_two_queued with
  | Some s => option_map (fun s' => (asleepb s', queue s', done s', workers s', measure s',
                                     length C09_drain_run))
                         (irun s C09_drain_run)
  | None => None
  end = Some (true, [], [8; 7], [(2, Waiting); (1, Waiting)], 0, 30).
Proof. vm_compute. reflexivity. Qed.

(* the hypotheses of C09_drains are met by that state and run *)
Example C09_example_drains_hypotheses :
  exists s s', run step init C09_two_queued = Some s /\ nojoin s /\ (0 < balance s)%Z /\
               irun s C09_drain_run = Some s' /\ quiescent s'.
Proof.
  eexists. eexists.
  split; [vm_compute; reflexivity|].
  split; [split; vm_compute; [discriminate | reflexivity]|].
  split; [vm_compute; reflexivity|].
  split; [vm_compute; reflexivity|].
  apply asleep_quiescent, asleepb_sound. vm_compute. reflexivity.
Qed.

(* a shrink 2 -> 1 on that (busy) pool: a maximal run after workerKill := 1 leaves 1 worker *)
Example C09_example_shrink :
  match run step init (C09_two_queued ++ [LSetKill 5 1]) with
  | Some s => option_map (fun s' => (asleepb s', length (workers s'), kill s', done s'))
                (irun s [LELock 5; LEBcast 5; LEUnlock 5; LKillCheck 2 1; LExit 2;
                         LALock 0; LSignal 0; LAUnlock 0; LALock 1; LSignal 1; LAUnlock 1;
                         LWake 1; LRelock 1; LWUnlock 1; LIdleDereg 1;
                         LKillCheck 1 0; LPop 1 (Some 7); LDone 1 7;
                         LKillCheck 1 0; LPop 1 (Some 8); LDone 1 8;
                         LKillCheck 1 0; LPop 1 None; LIdleReg 1; LWLock 1; LKillRead 1 0;
                         LSizeRead 1 0; LWait 1])
  | None => None
  end = Some (true, 1, 0%Z, [8; 7]).
Proof. vm_compute. reflexivity. Qed.

(* JoinAll on that pool: a maximal run after workerKill := -1 leaves no worker, both tasks run *)
Example C09_example_join :
  match run step init (C09_two_queued ++ [LSetKill 5 (-1)]) with
  | Some s => option_map (fun s' => (asleepb s', workers s', queue s', kill s', done s'))
                (irun s [LELock 5; LEBcast 5; LEUnlock 5;
                         LALock 0; LSignal 0; LAUnlock 0; LALock 1; LSignal 1; LAUnlock 1;
                         LKillCheck 2 (-1); LPop 2 (Some 7); LDone 2 7;
                         LWake 1; LRelock 1; LWUnlock 1; LIdleDereg 1;
                         LKillCheck 1 (-1); LPop 1 (Some 8); LDone 1 8;
                         LKillCheck 1 (-1); LPop 1 None; LExit 1;
                         LKillCheck 2 (-1); LPop 2 None; LExit 2])
  | None => None
  end = Some (true, [], [], (-1)%Z, [8; 7]).
Proof. vm_compute. reflexivity. Qed.
