(* Props/C04.v — Control flow and try/except/otherwise/finally follow the reference semantics.
   Only theorem statements closed by [exact] (refutation witnesses by vm_compute) and
   Print Assumptions.  [mexec repaired] is the model of the code after the fix: commits
   fixes/C04-*.patch, [mexec unchanged] the model of the code as found; [sexec] is the
   completion semantics of Spec/ControlSpec.v; [decode] reads the code's (trace, err) pair
   as (trace, completion). *)
From Ecal Require Import Model.ControlSyntax Model.Control Spec.ControlSpec Proofs.ControlProofs.

(* The refinement: for EVERY skeleton program and every fuel the code's "signals are error
   values" encoding computes exactly the trace and the completion the Spec prescribes
   (None = None: both run out of fuel on the same programs). *)
Theorem C04_signals_as_errors_faithful :
  forall fuel s, decode (mexec repaired fuel s) = sexec fuel s.
Proof. exact signals_as_errors_faithful. Qed.
Print Assumptions C04_signals_as_errors_faithful.

Theorem C04_program_faithful :
  forall fuel p, decode (mprog repaired fuel p) = sprog fuel p.
Proof. exact program_faithful. Qed.
Print Assumptions C04_program_faithful.

(* finally runs exactly once on every way out, after everything else of the try statement;
   its own abrupt completion replaces the pending one *)
Theorem C04_finally_exactly_once :
  forall f body cs oth fb t e,
    mexec repaired (S f) (Try body cs oth (Some fb)) = Some (t, e) <->
    exists t1 e1 tf ef,
      mexec repaired (S f) (Try body cs oth None) = Some (t1, e1) /\
      mblock (mexec repaired f) fb = Some (tf, ef) /\
      t = t1 ++ tf /\ e = match ef with None => e1 | Some _ => ef end.
Proof. exact finally_exactly_once. Qed.
Print Assumptions C04_finally_exactly_once.

(* the first clause that lists the error's type, or lists no type, handles the error *)
Theorem C04_first_matching_clause :
  forall f body cs1 tys b h cs2 oth t e,
    mblock (mexec repaired f) body = Some (t, Some e) -> is_flow_signal e = false ->
    (forall c, In c cs1 -> clause_matches (objtype e) c = false) ->
    clause_matches (objtype e) (tys, b, h) = true ->
    mexec repaired (S f) (Try body (cs1 ++ (tys, b, h) :: cs2) oth None)
    = mpre (t ++ caught_ev b (objtype e)) (mblock (mexec repaired f) h).
Proof. exact first_matching_clause. Qed.
Print Assumptions C04_first_matching_clause.

(* otherwise runs exactly when the try block ended normally *)
Theorem C04_otherwise_iff_no_error :
  forall f body cs ob fin,
    (forall t, mblock (mexec repaired f) body = Some (t, None) ->
       mexec repaired (S f) (Try body cs (Some ob) fin)
       = mfinally repaired (mexec repaired f) (mpre t (mblock (mexec repaired f) ob)) fin) /\
    (forall t e, mblock (mexec repaired f) body = Some (t, Some e) ->
       mexec repaired (S f) (Try body cs (Some ob) fin) = mexec repaired (S f) (Try body cs None fin)).
Proof. exact otherwise_iff_no_error. Qed.
Print Assumptions C04_otherwise_iff_no_error.

(* an error no clause handles propagates unchanged (the same error value: type, detail, data) *)
Theorem C04_unhandled_propagates_unchanged :
  forall f body cs oth t e,
    mblock (mexec repaired f) body = Some (t, Some e) -> is_flow_signal e = false ->
    (forall c, In c cs -> clause_matches (objtype e) c = false) ->
    mexec repaired (S f) (Try body cs oth None) = Some (t, Some e) /\
    (forall fb tf, mblock (mexec repaired f) fb = Some (tf, None) ->
       mexec repaired (S f) (Try body cs oth (Some fb)) = Some (t ++ tf, Some e)).
Proof. exact unhandled_propagates_unchanged. Qed.
Print Assumptions C04_unhandled_propagates_unchanged.

(* return / break / continue are no errors: no except clause sees them *)
Theorem C04_signals_pass_except_clauses :
  forall f body cs oth t e,
    mblock (mexec repaired f) body = Some (t, Some e) -> is_flow_signal e = true ->
    mexec repaired (S f) (Try body cs oth None) = Some (t, Some e).
Proof. exact signals_pass_except_clauses. Qed.
Print Assumptions C04_signals_pass_except_clauses.

(* break and continue act on the innermost loop: a loop statement never passes them on *)
Theorem C04_break_continue_innermost :
  forall fuel s t e,
    is_loop s = true -> mexec repaired fuel s = Some (t, e) ->
    e <> Some (RtErr TEndOfIteration) /\ e <> Some (RtErr TContinueIteration).
Proof. exact loop_absorbs_break_continue. Qed.
Print Assumptions C04_break_continue_innermost.

Theorem C04_break_ends_loop :
  forall f body t,
    mblock (mexec repaired f) body = Some (t, Some (RtErr TEndOfIteration)) ->
    (forall n fail, mexec repaired (S f) (LoopCond (S n) fail body) = Some (t, None)) /\
    (forall x xs, mexec repaired (S f) (LoopList (x :: xs) body) = Some (EvIter x :: t, None)).
Proof. exact break_ends_loop. Qed.
Print Assumptions C04_break_ends_loop.

Theorem C04_continue_next_round :
  forall f body t,
    mblock (mexec repaired f) body = Some (t, Some (RtErr TContinueIteration)) ->
    (forall n fail, mexec repaired (S f) (LoopCond (S n) fail body)
                    = mpre t (mexec repaired (S f) (LoopCond n fail body))) /\
    (forall x xs, mexec repaired (S f) (LoopList (x :: xs) body)
                  = mpre (EvIter x :: t) (mexec repaired (S f) (LoopList xs body))).
Proof. exact continue_next_round. Qed.
Print Assumptions C04_continue_next_round.

(* if / elif: a guard that raises ends the statement with that error at once (only the guard's
   own evaluation is logged: no later guard, no branch, no else); a false guard hands over *)
Theorem C04_failing_guard_ends_if :
  forall f n k b brs els,
    mexec repaired (S f) (If ((GEval n (GFail k), b) :: brs) els)
    = Some ([EvMark n], Some (errval_of k)).
Proof. exact failing_guard_ends_if. Qed.
Print Assumptions C04_failing_guard_ends_if.

Theorem C04_false_guard_next_clause :
  forall f g t b brs els,
    mguard g = (t, false, None) ->
    mexec repaired (S f) (If ((g, b) :: brs) els) = mpre t (mexec repaired (S f) (If brs els)).
Proof. exact false_guard_next_clause. Qed.
Print Assumptions C04_false_guard_next_clause.

(* return leaves the innermost function with its value, and only that function *)
Theorem C04_return_leaves_innermost_function :
  forall f body,
    (forall t v, mblock (mexec repaired f) body = Some (t, Some (RetVal v)) ->
       mexec repaired (S f) (FuncCall body) = Some (t ++ [EvRet (Some v)], None)) /\
    (forall t e, mexec repaired (S f) (FuncCall body) = Some (t, e) -> forall v, e <> Some (RetVal v)).
Proof. exact return_leaves_innermost_function. Qed.
Print Assumptions C04_return_leaves_innermost_function.

(* range: inclusive end, positive or negative step; closed form of the delivered values *)
Theorem C04_range_inclusive_signed_step :
  forall from to step,
    ((0 < step /\ from <= to)%Z ->
       exists k, (1 <= k)%nat /\
         (from + (Z.of_nat k - 1) * step <= to < from + Z.of_nat k * step)%Z /\
         forall f, (k < f)%nat ->
           mexec repaired (S f) (LoopRange from to step [])
           = Some (map EvIter (range_list from step k), None)) /\
    ((step < 0 /\ to <= from)%Z ->
       exists k, (1 <= k)%nat /\
         (from + Z.of_nat k * step < to <= from + (Z.of_nat k - 1) * step)%Z /\
         forall f, (k < f)%nat ->
           mexec repaired (S f) (LoopRange from to step [])
           = Some (map EvIter (range_list from step k), None)) /\
    ((step = 0 \/ (from < to /\ step < 0) \/ (to < from /\ 0 < step))%Z ->
       forall fuel, mexec repaired fuel (LoopRange from to step []) = None).
Proof. exact range_inclusive_signed_step. Qed.
Print Assumptions C04_range_inclusive_signed_step.

(* map loops: the keys in string order, each once *)
Theorem C04_map_keys_string_order :
  forall ks, key_order ks (go_sorted_keys ks).
Proof. exact map_keys_string_order. Qed.
Print Assumptions C04_map_keys_string_order.

(* ------------------------------------------------------------------------------------
   The code AS FOUND violates the statement: concrete programs on which the faithful
   model of the unchanged code and the Spec differ (each is replayed on the implementation
   first by harness/c04.go; fixes/C04-*.patch repair them). *)

(* F05  try { raise("T1") } except "T2" { mark(1) } ; mark(2) : the "T2" handler runs *)
Theorem C04_unchanged_typed_except_refuted :
  let p := [Try [Raise 1] [([EUser 2], BNone, [Mark 1])] None None; Mark 2] in
  decode (mprog unchanged 8 p) = Some ([EvMark 1; EvMark 2], Normal) /\
  sprog 8 p = Some ([], Raised (EUser 1)).
Proof. vm_compute. split; reflexivity. Qed.
Print Assumptions C04_unchanged_typed_except_refuted.

(* F06  func f() { try { return 1 } except { mark(1) } ; return 2 } : the bare except catches the return *)
Theorem C04_unchanged_return_caught_refuted :
  let p := [FuncCall [Try [Return 1] [([], BNone, [Mark 1])] None None; Return 2]] in
  decode (mprog unchanged 8 p) = Some ([EvMark 1; EvRet (Some 2)], Normal) /\
  sprog 8 p = Some ([EvRet (Some 1)], Normal).
Proof. vm_compute. split; reflexivity. Qed.
Print Assumptions C04_unchanged_return_caught_refuted.

(* F06  for x in [1, 2] { try { break } except { mark(9) } } : the loop does not break *)
Theorem C04_unchanged_break_caught_refuted :
  let p := [LoopList [1%Z; 2%Z] [Try [Break] [([], BNone, [Mark 9])] None None]] in
  decode (mprog unchanged 8 p) = Some ([EvIter 1; EvMark 9; EvIter 2; EvMark 9], Normal) /\
  sprog 8 p = Some ([EvIter 1%Z], Normal).
Proof. vm_compute. split; reflexivity. Qed.
Print Assumptions C04_unchanged_break_caught_refuted.

(* F07  c := 2 ; for c > 0 { c := c - 1 ; mark(1) ; break } ; mark(7) : "End of iteration" leaks *)
Theorem C04_unchanged_break_in_condition_loop_refuted :
  let p := [LoopCond 2 None [Mark 1; Break]; Mark 7] in
  decode (mprog unchanged 8 p) = Some ([EvMark 1], Broke) /\
  sprog 8 p = Some ([EvMark 1; EvMark 7], Normal).
Proof. vm_compute. split; reflexivity. Qed.
Print Assumptions C04_unchanged_break_in_condition_loop_refuted.

(* try { mark(1) } finally { raise("T1") } ; mark(3) : the error raised in finally is lost *)
Theorem C04_unchanged_error_in_finally_lost_refuted :
  let p := [Try [Mark 1] [] None (Some [Raise 1]); Mark 3] in
  decode (mprog unchanged 8 p) = Some ([EvMark 1; EvMark 3], Normal) /\
  sprog 8 p = Some ([EvMark 1], Raised (EUser 1)).
Proof. vm_compute. split; reflexivity. Qed.
Print Assumptions C04_unchanged_error_in_finally_lost_refuted.

(* for i in range(3, 3) { } : the inclusive range 3..3 delivers nothing *)
Theorem C04_unchanged_range_single_element_refuted :
  let p := [LoopRange 3 3 1 []] in
  decode (mprog unchanged 8 p) = Some ([], Normal) /\
  sprog 8 p = Some ([EvIter 3%Z], Normal).
Proof. vm_compute. split; reflexivity. Qed.
Print Assumptions C04_unchanged_range_single_element_refuted.

(* try { raise("T1") } except as e { caught(e) } : `as e` without a type does not bind e *)
Theorem C04_unchanged_except_as_unbound_refuted :
  let p := [Try [Raise 1] [([], BAs, [])] None None] in
  decode (mprog unchanged 8 p) = Some ([EvCaught (EOther 0)], Normal) /\
  sprog 8 p = Some ([EvCaught (EUser 1)], Normal).
Proof. vm_compute. split; reflexivity. Qed.
Print Assumptions C04_unchanged_except_as_unbound_refuted.

(* ------------------------------------------------------------------------------------
   Non-vacuity: a program using every construct; model (repaired) and Spec both say what
   it logs.  func { for x in [1,2,3] { try { if x=.. } ... } } is approximated by constant
   guards: a loop with a try whose body raises, second clause matching with `as`,
   a finally that runs on break, continue in a condition loop, a return through finally. *)
Example C04_example :
  let p :=
    [ LoopList [1%Z; 2%Z]
        [ Try [Mark 1; Raise 2; Mark 99]
              [ ([EUser 1], BNone, [Mark 98]);
                ([EUser 3; EUser 2], BAs, [Mark 2; Break; Mark 97]);
                ([], BNone, [Mark 96]) ]
              (Some [Mark 95]) (Some [Mark 3]) ];
      LoopCond 2 None [If [(GBool false, [Mark 94]); (GBool true, [Continue])] (Some [Mark 93]); Mark 92];
      FuncCall [LoopRange 5 1 (-2) [Try [Return 7] [([], BNone, [Mark 91])] None (Some [Mark 4])]; Mark 90];
      LoopMap [[98%N]; [97%N; 48%N]; [97%N]] [Try [Mark 5] [] (Some [Mark 6]) None] ] in
  decode (mprog repaired 8 p)
  = Some ([EvIter 1; EvMark 1; EvCaught (EUser 2); EvMark 2; EvMark 3;
           EvIter 5; EvMark 4; EvRet (Some 7);
           EvKey [97%N]; EvMark 5; EvMark 6; EvKey [97%N; 48%N]; EvMark 5; EvMark 6;
           EvKey [98%N]; EvMark 5; EvMark 6], Normal)
  /\ sprog 8 p = decode (mprog repaired 8 p).
Proof. vm_compute. split; reflexivity. Qed.

(* a guard that raises: the second guard fails, so neither the third guard nor the else runs;
   the enclosing try handles the error; a failing loop condition and a failing iterated
   expression end their loops with the error *)
Example C04_example_failing_guards :
  let p :=
    [ Try [If [(GEval 1 GFalse, [Mark 90]); (GEval 2 (GFail (KUser 1)), [Mark 91]); (GEval 3 GTrue, [Mark 92])]
              (Some [Mark 93]); Mark 94]
          [([EUser 1], BAs, [Mark 4])] None None;
      Try [LoopCond 1 (Some (6, KRuntime)) [Mark 5]] [([], BIdent, [])] None None;
      LoopSrc 7 (KUser 2) [Mark 95]; Mark 96 ] in
  decode (mprog repaired 8 p)
  = Some ([EvMark 1; EvMark 2; EvCaught (EUser 1); EvMark 4;
           EvMark 5; EvMark 6; EvCaught EUnknownConstruct; EvMark 7], Raised (EUser 2))
  /\ sprog 8 p = decode (mprog repaired 8 p).
Proof. vm_compute. split; reflexivity. Qed.

(* the regression that variant switch v_if_guard_error_overwritten models (not a behaviour of
   the code as found): the else branch runs and the error is lost *)
Example C04_example_guard_error_overwritten :
  let p := [If [(GEval 1 (GFail (KUser 1)), [Mark 2])] (Some [Mark 3])] in
  decode (mprog (mkVariant false false false false false true) 8 p) = Some ([EvMark 1; EvMark 3], Normal) /\
  sprog 8 p = Some ([EvMark 1], Raised (EUser 1)).
Proof. vm_compute. split; reflexivity. Qed.

(* the hypotheses of the corollaries are satisfiable: an unhandled error through a finally *)
Example C04_example_unhandled :
  mexec repaired 4 (Try [Mark 1; RuntimeErr] [([EUser 1], BAs, [Mark 2])] (Some [Mark 3]) (Some [Mark 4]))
  = Some ([EvMark 1; EvMark 4], Some (RtErr TUnknownConstruct)).
Proof. vm_compute. reflexivity. Qed.
