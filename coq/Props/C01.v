(* Props/C01.v — exactly the matching, in-scope, unsuppressed rules fire once per event.
   Only theorem statements, closed by [exact]/[apply], and Print Assumptions.
   Vocabulary and Spec: Spec/RuleSpec.v.  Models: Model/RuleIndex.v (rule index of
   engine/rule.go), Model/RuleScope.v (engine/util.go), Model/Processor.v (trigger cache and
   ProcessEvent of engine/processor.go).  [rx] is the regex oracle (any function). *)
From Ecal Require Import Model.Processor Proofs.RuleIndexProofs Proofs.ProcessorProofs.
From Coq Require Import Sorted.

(* Every set of rules with distinct names is accepted by the index (no error, no panic —
   whatever the number of state rules on one kind pattern and whatever the state values),
   and for every event Match returns, without repetition, exactly the rules of which some
   kind pattern matches the event kind and whose state pattern holds.  No guard on the
   number of rules: a full 64-bit state leaf is followed by a new one. *)
Theorem C01_index_match_exact :
  forall (rx : N -> value -> bool) (rules : list rule),
    wf_rules rules ->
    exists rt, build rules = Ok rt /\
      forall ev, NoDup (match_ev rx rt ev) /\
                 forall r, In r (match_ev rx rt ev) <-> In r (spec_matches rx rules ev).
Proof. exact index_match_exact_ex. Qed.
Print Assumptions C01_index_match_exact.

(* The quick pre-check never says "not triggering" for an event that some rule matches. *)
Theorem C01_triggering_overapproximates :
  forall (rx : N -> value -> bool) (rules : list rule) (rt : root),
    wf_rules rules -> build rules = Ok rt ->
    forall ev, spec_matches rx rules ev <> [] -> is_triggering rt ev = true.
Proof. exact triggering_overapproximates. Qed.
Print Assumptions C01_triggering_overapproximates.

(* A scope path is allowed iff the longest defined prefix of it says so; nothing defined
   along the path: not allowed. *)
Theorem C01_scope_most_specific_prefix :
  forall (defs : list (path * bool)) (p : path),
    is_allowed (build_scope defs) p = scope_allowed defs p /\
    ((forall q, is_prefix q p -> scope_def defs q = None) -> is_allowed (build_scope defs) p = false) /\
    (forall q b, is_prefix q p -> scope_def defs q = Some b ->
       (forall q', is_prefix q' p -> (length q < length q')%nat -> scope_def defs q' = None) ->
       is_allowed (build_scope defs) p = b).
Proof. intros defs p; split; [apply is_allowed_spec | apply scope_most_specific_prefix]. Qed.
Print Assumptions C01_scope_most_specific_prefix.

(* The whole pipeline, for every rule set, every history of previously added events, every
   event and every cascade scope: the actions run for the event are exactly Spec.fires — each
   once — in priority order; and if that set is non-empty the event is not skipped, whatever
   was added before (the trigger cache is keyed by what the pre-check depends on). *)
Theorem C01_fires_exact :
  forall (rx : N -> value -> bool) (rules : list rule) (rt : root)
         (defs : list (path * bool)) (h : list event) (ev : event),
    wf_rules rules -> no_self_suppress rules -> build rules = Ok rt ->
    let p := after_history (start rt) h in
    let executed := snd (run_event rx p (build_scope defs) ev) in
    NoDup executed /\
    (forall r, In r executed <-> In r (fires rx defs rules ev)) /\
    Sorted prio_le executed /\
    (fires rx defs rules ev <> [] -> snd (add_event p ev) = Queued).
Proof. exact fires_exact_history. Qed.
Print Assumptions C01_fires_exact.

(* ---- non-vacuity: wildcards at two levels, two state leaves, a regex, an unhashable
   requirement, a rule with two patterns matching the same event, a suppression -------- *)
Definition ex_rules : list rule := [
  mkRule 1 [[1;0]; [1;2]] [[]] None 2 [];                                         (* a.* , a.b *)
  mkRule 2 [[0;2]] [[]] (Some [(1, RVal (VNum 5)); (2, RVal VNull)]) 1 [];        (* *.b *)
  mkRule 3 [[0;2]; [0;0;3]] [[]] (Some [(1, RRegex 0)]) 0 [4];                    (* *.b , *.*.c *)
  mkRule 4 [[1;2]] [[7]] (Some []) 3 [];                                          (* a.b *)
  mkRule 5 [[1;2]] [[]] (Some [(1, RVal (VList 0))]) 0 [1]                        (* never equal *)
].
Definition ex_rx (id : N) (v : value) : bool := match v with VNum 5 => true | _ => false end.
Definition ex_event : event := mkEvent 9 [1;2] [(1, VNum 5); (2, VStr 9)].
Definition ex_defs : list (path * bool) := [([], true); ([7], false); ([7;8], true)].

Example C01_example_wf : wf_rules ex_rules /\ no_self_suppress ex_rules.
Proof.
  split; [split|].
  - unfold names, ex_rules; simpl. repeat constructor; simpl; intuition discriminate.
  - repeat constructor; simpl; try discriminate; try tauto;
      try (intros p H; repeat destruct H as [<-|H]; try discriminate; contradiction).
    all: repeat constructor; simpl; intuition discriminate.
  - intros r H. repeat destruct H as [<-|H]; try reflexivity. contradiction.
Qed.

Example C01_example :
  exists rt, build ex_rules = Ok rt /\
    map r_name (match_ev ex_rx rt ex_event) = [2; 3; 1; 4] /\
    map r_name (spec_matches ex_rx ex_rules ex_event) = [1; 2; 3; 4] /\
    map r_name (snd (run_event ex_rx (after_history (start rt) [mkEvent 9 [3] []])
                               (build_scope ex_defs) ex_event)) = [3; 2; 1] /\
    map r_name (fires ex_rx ex_defs ex_rules ex_event) = [1; 2; 3].
Proof. eexists. split; [vm_compute; reflexivity|]. vm_compute. auto. Qed.

(* ---- the unrepaired behaviour, refuted ------------------------------------------------ *)
(* trigger cache keyed by the event name: after an event "ev" of kind x.y, an event "ev" of
   kind a.b that rule 1 matches is skipped *)
Theorem C01_old_cache_refuted :
  exists (rules : list rule) (rt : root) (h : list event) (ev : event),
    wf_rules rules /\ no_self_suppress rules /\ build rules = Ok rt /\
    fires (fun _ _ => false) [([], true)] rules ev <> [] /\
    snd (old_add_event (old_after_history (mkOldProc rt []) h) ev) = Skipped.
Proof.
  exists [mkRule 1 [[1;2]] [] None 0 []]. eexists.
  exists [mkEvent 7 [3;4] []], (mkEvent 7 [1;2] []).
  split; [split; [repeat constructor; simpl; tauto|]|].
  - repeat constructor; simpl; try discriminate.
    intros p [<-|[]]; discriminate.
  - split; [intros r [<-|[]]; reflexivity|].
    split; [vm_compute; reflexivity|]. split; [vm_compute; discriminate | vm_compute; reflexivity].
Qed.
Print Assumptions C01_old_cache_refuted.

(* RuleIndexKind.Match without the de-duplication: a rule with patterns a.* and a.b is
   returned twice for an event a.b *)
Theorem C01_old_double_fire_refuted :
  exists (rules : list rule) (rt : root) (ev : event),
    wf_rules rules /\ build rules = Ok rt /\
    ~ NoDup (old_match_ev (fun _ _ => false) rt ev).
Proof.
  exists [mkRule 1 [[1;0]; [1;2]] [] None 0 []]. eexists. exists (mkEvent 7 [1;2] []).
  split; [split; [repeat constructor; simpl; tauto|]|].
  - repeat constructor; simpl; try discriminate.
    intros p [<-|[<-|[]]]; discriminate.
  - split; [vm_compute; reflexivity|]. vm_compute. intros ND. inversion ND as [|? ? NI _]; subst.
    apply NI. left; reflexivity.
Qed.
Print Assumptions C01_old_double_fire_refuted.

(* the old collection loop `for collectionBits <= matchBits { ...; collectionBits <<= 1 }`
   never ends once bit 63 of the match mask is set (64 state rules on one kind pattern) *)
Theorem C01_old_collect_loop_diverges :
  forall (fuel : nat) (matchBits : N),
    (2 ^ 63 <= matchBits)%N -> old_collect_loop fuel matchBits 1 = None.
Proof. exact old_collect_loop_diverges. Qed.
Print Assumptions C01_old_collect_loop_diverges.
