(* Props/C04_interp.v — property C04 (control flow and try / except / otherwise / finally follow
   the reference semantics) on the UNIFIED interpreter model Model/Interp.v: the model that
   evaluates the REAL parser's trees and is tied to the Go interpreter by the whole-program
   correspondence stream of C06 (Run/RunC06Interp.v).  Props/C04.v decides the same property on
   the focused control skeleton language; the statements here say it of [eval] itself.

   Form of the statements.  For a compound node (try, loop, if, statements, return, function
   call) the result of [eval (S fuel)] is expressed through the [eval fuel]s of its CHILDREN,
   which are arbitrary trees: any body, handler, guard.  Premises name the outcome of a child
   evaluation ("the body ended with the error e in state st1") and the bookkeeping steps in
   between (NewChild of the scope tree, the error object, the iterator instance state); the
   bookkeeping steps cannot fail with an error (C04_interp_bookkeeping_total), so for completed
   evaluations the premises only select the case.  "X is evaluated exactly once": the right side
   mentions the evaluation of X once.  "Y is not evaluated": the right side does not depend on Y
   although Y is universally quantified, or Y may be replaced by any other node.
   Quantification: every NumOps, tree, path, scope, state (also unreachable ones), fuel.

   The domain guard [plain_name] (the type names of an except clause are string literals
   without "{{ }}" interpolation) is the model's RUnmod boundary, not a restriction of the Go code
   that was examined.  Vocabulary: Proofs/InterpControl.v, Proofs/InterpControl2.v (top). *)
From Coq Require Import List String NArith ZArith Bool.
From Ecal Require Import Common.Bytes Common.Ast gen.Tokens Model.Interp Proofs.InterpProofs
  Proofs.InterpControl Proofs.InterpControl2 Proofs.InterpControl3 Proofs.InterpControl4.
Import ListNotations.
Local Open Scope string_scope.
Local Open Scope list_scope.
Local Open Scope nat_scope.

(* ================================================================ try: finally *)
(* try { body } clauses finally { fb }  =  the try statement WITHOUT the finally clause, evaluated
   to (r, st1); then, for EVERY completed r - a value, an error, an error raised by a handler, the
   signals of return / break / continue - the block fb evaluated ONCE in st1 (finally_after);
   the result is r, or the error of fb *)
Theorem C04_interp_finally_exactly_once :
  forall (NO : NumOps) fuel path tv ti ta tl body clauses fv fi fa fl fb fkids scope inst st fvs st0,
    is_name (last (body :: clauses) body) NodeFINALLY = false ->
    new_child scope (S (length clauses) :: path) st = (ROk fvs, st0) ->
    eval (S fuel) path
         (Node NodeTRY tv ti ta tl (body :: clauses ++ [Node NodeFINALLY fv fi fa fl (fb :: fkids)])) scope inst st =
    finally_after (eval (S fuel) path (Node NodeTRY tv ti ta tl (body :: clauses)) scope inst st0)
                  (eval fuel (0 :: S (length clauses) :: path) fb fvs inst).
Proof. exact @finally_exactly_once. Qed.
Print Assumptions C04_interp_finally_exactly_once.

(* read backwards: a completed try statement with a finally clause has evaluated the finally block,
   in the end state of the rest, whatever way the rest ended *)
Theorem C04_interp_finally_on_every_exit :
  forall (NO : NumOps) fuel path tv ti ta tl body clauses fv fi fa fl fb fkids scope inst st fvs st0 x st',
    is_name (last (body :: clauses) body) NodeFINALLY = false ->
    new_child scope (S (length clauses) :: path) st = (ROk fvs, st0) ->
    eval (S fuel) path
         (Node NodeTRY tv ti ta tl (body :: clauses ++ [Node NodeFINALLY fv fi fa fl (fb :: fkids)])) scope inst st = (x, st') ->
    completed x = true ->
    exists r st1 fr,
      eval (S fuel) path (Node NodeTRY tv ti ta tl (body :: clauses)) scope inst st0 = (r, st1) /\
      completed r = true /\
      eval fuel (0 :: S (length clauses) :: path) fb fvs inst st1 = (fr, st') /\
      completed fr = true /\
      x = match fr with ROk _ => r | _ => fr end.
Proof. exact @finally_on_every_exit. Qed.
Print Assumptions C04_interp_finally_on_every_exit.

(* ================================================================ try: signals *)
(* return / break / continue raised in the try block pass every except clause and the otherwise
   clause: the statement ends with the signal in the BODY's end state, for all clauses *)
Theorem C04_interp_signals_pass_except :
  forall (NO : NumOps) fuel path tv ti ta tl body clauses scope inst st tvs st0 e st1,
    is_name (last (body :: clauses) body) NodeFINALLY = false ->
    new_child scope path st = (ROk tvs, st0) ->
    eval fuel (0 :: path) body tvs inst st0 = (RErr e, st1) ->
    is_flow e = true ->
    eval (S fuel) path (Node NodeTRY tv ti ta tl (body :: clauses)) scope inst st = (RErr e, st1).
Proof. exact @signals_pass_except. Qed.
Print Assumptions C04_interp_signals_pass_except.

(* ================================================================ try: otherwise iff no error *)
(* the try block raised nothing: the (first) otherwise block is evaluated once, in a scope of its
   own, and the statement has the value of the try block; no except clause is evaluated *)
Theorem C04_interp_otherwise_after_normal_end :
  forall (NO : NumOps) fuel path tv ti ta tl body pre ov oi oa ol ob okids post scope inst st tvs st0 v st1 ovs st2,
    is_name (last (body :: pre ++ Node NodeOTHERWISE ov oi oa ol (ob :: okids) :: post) body) NodeFINALLY = false ->
    new_child scope path st = (ROk tvs, st0) ->
    eval fuel (0 :: path) body tvs inst st0 = (ROk v, st1) ->
    Forall (fun c => is_name c NodeOTHERWISE = false) pre ->
    new_child scope (S (length pre) :: path) st1 = (ROk ovs, st2) ->
    eval (S fuel) path (Node NodeTRY tv ti ta tl (body :: pre ++ Node NodeOTHERWISE ov oi oa ol (ob :: okids) :: post))
         scope inst st =
    then_value (eval fuel (0 :: S (length pre) :: path) ob ovs inst st2) v.
Proof. exact @otherwise_after_normal_end. Qed.
Print Assumptions C04_interp_otherwise_after_normal_end.

Theorem C04_interp_normal_end_without_otherwise :
  forall (NO : NumOps) fuel path tv ti ta tl body clauses scope inst st tvs st0 v st1,
    is_name (last (body :: clauses) body) NodeFINALLY = false ->
    new_child scope path st = (ROk tvs, st0) ->
    eval fuel (0 :: path) body tvs inst st0 = (ROk v, st1) ->
    Forall (fun c => is_name c NodeOTHERWISE = false) clauses ->
    eval (S fuel) path (Node NodeTRY tv ti ta tl (body :: clauses)) scope inst st = (ROk v, st1).
Proof. exact @no_otherwise_normal_end. Qed.
Print Assumptions C04_interp_normal_end_without_otherwise.

(* the try block ended with an error or a signal: result and end state do not depend on the
   otherwise clause - it can be replaced by any other one, so it is not evaluated *)
Theorem C04_interp_otherwise_not_after_error :
  forall (NO : NumOps) fuel path tv ti ta tl body pre ov oi oa ol okids ov' oi' oa' ol' okids' post
         scope inst st tvs st0 e st1,
    is_name (last (body :: pre ++ Node NodeOTHERWISE ov oi oa ol okids :: post) body) NodeFINALLY = false ->
    new_child scope path st = (ROk tvs, st0) ->
    eval fuel (0 :: path) body tvs inst st0 = (RErr e, st1) ->
    eval (S fuel) path (Node NodeTRY tv ti ta tl (body :: pre ++ Node NodeOTHERWISE ov oi oa ol okids :: post)) scope inst st =
    eval (S fuel) path (Node NodeTRY tv ti ta tl (body :: pre ++ Node NodeOTHERWISE ov' oi' oa' ol' okids' :: post)) scope inst st.
Proof. exact @otherwise_not_after_error. Qed.
Print Assumptions C04_interp_otherwise_not_after_error.

(* ================================================================ try: except clauses *)
(* the try block failed with e (no signal).  The children before [clause] are passed ([passes]:
   no except clause, or an except clause with names none of which is e's type); [clause] is
   except names [as var | var] { block }  and lists e's type or lists no type: its block is
   evaluated ONCE, in a scope of its own with the error object bound to var; its result ends the
   statement (value dropped, an error of the handler is the statement's error).  Whatever follows
   ([post]: later clauses, matching or not, otherwise) does not matter *)
Theorem C04_interp_first_matching_clause :
  forall (NO : NumOps) fuel path tv ti ta tl body pre xv xi xa xl names binder var block post scope inst
         st tvs st0 e st1 eo st2 evs st3 st4,
    is_name (last (body :: pre ++ Node NodeEXCEPT xv xi xa xl (names ++ binder ++ [block]) :: post) body)
            NodeFINALLY = false ->
    new_child scope path st = (ROk tvs, st0) ->
    eval fuel (0 :: path) body tvs inst st0 = (RErr e, st1) ->
    is_flow e = false ->
    Forall (passes (err_type_text e)) pre ->
    Forall plain_name names -> binder_of binder var -> is_name block NodeSTATEMENTS = true ->
    clause_matches names (err_type_text e) = true ->
    make_errobj e st1 = (ROk eo, st2) ->
    new_child scope (S (length pre) :: path) st2 = (ROk evs, st3) ->
    bind_errvar evs var eo st3 = (ROk tt, st4) ->
    eval (S fuel) path
         (Node NodeTRY tv ti ta tl (body :: pre ++ Node NodeEXCEPT xv xi xa xl (names ++ binder ++ [block]) :: post))
         scope inst st =
    handler_result (eval fuel (length names + length binder :: S (length pre) :: path) block evs inst st4).
Proof. exact @first_matching_clause. Qed.
Print Assumptions C04_interp_first_matching_clause.

(* no clause matches: the error leaves the statement unchanged, no block was evaluated (the end
   state is the body's, plus the error object that was built for the clauses) *)
Theorem C04_interp_unhandled_propagates_unchanged :
  forall (NO : NumOps) fuel path tv ti ta tl body clauses scope inst st tvs st0 e st1 eo st2,
    is_name (last (body :: clauses) body) NodeFINALLY = false ->
    new_child scope path st = (ROk tvs, st0) ->
    eval fuel (0 :: path) body tvs inst st0 = (RErr e, st1) ->
    is_flow e = false ->
    Forall (passes (err_type_text e)) clauses ->
    make_errobj e st1 = (ROk eo, st2) ->
    eval (S fuel) path (Node NodeTRY tv ti ta tl (body :: clauses)) scope inst st = (RErr e, st2).
Proof. exact @unhandled_propagates_unchanged. Qed.
Print Assumptions C04_interp_unhandled_propagates_unchanged.

(* ================================================================ the condition loop *)
(* for guard { body }: a scope and an iterator instance state, then rounds (loop_rounds, fuelled) *)
Theorem C04_interp_loop_equation :
  forall (NO : NumOps) fuel path tv ti ta tl g body more scope inst0 st c st0 inst st1,
    is_name g NodeGUARD = true ->
    new_child scope path st = (ROk c, st0) ->
    alloc_is st0 = (ROk inst, st1) ->
    eval (S fuel) path (Node NodeLOOP tv ti ta tl (g :: body :: more)) scope inst0 st =
    loop_rounds (eval fuel) fuel path g body c inst st1.
Proof. exact @loop_equation. Qed.
Print Assumptions C04_interp_loop_equation.

(* one round, case by case (a completed guard evaluation is a boolean: C06_interp_guard_is_boolean).
   [ev] is any evaluator of the children; the loop equation instantiates it with [eval fuel]. *)
Theorem C04_interp_loop_ends_when_guard_false :
  forall (NO : NumOps) ev k path g body c inst st st1,
    ev (0 :: path) g c inst st = (ROk (VBool false), st1) ->
    loop_rounds ev (S k) path g body c inst st = (ROk VNull, st1).
Proof. exact @loop_rounds_guard_false. Qed.
Print Assumptions C04_interp_loop_ends_when_guard_false.

Theorem C04_interp_loop_next_round :
  forall (NO : NumOps) ev k path g body c inst st st1 v st2,
    ev (0 :: path) g c inst st = (ROk (VBool true), st1) ->
    ev (1 :: path) body c inst st1 = (ROk v, st2) ->
    loop_rounds ev (S k) path g body c inst st = loop_rounds ev k path g body c inst st2.
Proof. exact @loop_rounds_body_ok. Qed.
Print Assumptions C04_interp_loop_next_round.

(* continue: the loop goes on with the next round, i.e. the next guard evaluation *)
Theorem C04_interp_continue_next_round :
  forall (NO : NumOps) ev k path g body c inst st st1 e st2,
    ev (0 :: path) g c inst st = (ROk (VBool true), st1) ->
    ev (1 :: path) body c inst st1 = (RErr e, st2) ->
    is_rt e T_CONT = true ->
    loop_rounds ev (S k) path g body c inst st = loop_rounds ev k path g body c inst st2.
Proof. exact @loop_rounds_continue. Qed.
Print Assumptions C04_interp_continue_next_round.

(* break: the loop ends normally in the body's end state: no further guard evaluation *)
Theorem C04_interp_break_ends_loop :
  forall (NO : NumOps) ev k path g body c inst st st1 e st2,
    ev (0 :: path) g c inst st = (ROk (VBool true), st1) ->
    ev (1 :: path) body c inst st1 = (RErr e, st2) ->
    is_rt e T_EOI = true ->
    loop_rounds ev (S k) path g body c inst st = (ROk VNull, st2).
Proof. exact @loop_rounds_break. Qed.
Print Assumptions C04_interp_break_ends_loop.

(* any other error - a failure, or the return signal - leaves the loop as it is *)
Theorem C04_interp_error_leaves_loop :
  forall (NO : NumOps) ev k path g body c inst st st1 e st2,
    ev (0 :: path) g c inst st = (ROk (VBool true), st1) ->
    ev (1 :: path) body c inst st1 = (RErr e, st2) ->
    is_rt e T_CONT = false -> is_rt e T_EOI = false ->
    loop_rounds ev (S k) path g body c inst st = (RErr e, st2).
Proof. exact @loop_rounds_error. Qed.
Print Assumptions C04_interp_error_leaves_loop.

Theorem C04_interp_guard_error_leaves_loop :
  forall (NO : NumOps) ev k path g body c inst st e st1,
    ev (0 :: path) g c inst st = (RErr e, st1) ->
    is_rt e T_EOI = false ->
    loop_rounds ev (S k) path g body c inst st = (RErr e, st1).
Proof. exact @loop_rounds_guard_error. Qed.
Print Assumptions C04_interp_guard_error_leaves_loop.

(* break and continue act on the INNERMOST loop: an error that leaves a condition loop is never
   the break signal, and a continue signal that leaves it was raised by a guard evaluation
   (never by the body: the body's signal was consumed by this loop) *)
Theorem C04_interp_break_continue_innermost :
  forall (NO : NumOps) ev k path g body c inst st e st',
    loop_rounds ev k path g body c inst st = (RErr e, st') ->
    is_rt e T_EOI = false /\
    (is_rt e T_CONT = true -> exists st1, ev (0 :: path) g c inst st1 = (RErr e, st')).
Proof. exact @loop_rounds_innermost. Qed.
Print Assumptions C04_interp_break_continue_innermost.

(* for EVERY loop node (condition, range, list, map, single value): break never leaves it *)
Theorem C04_interp_break_never_leaves_a_loop :
  forall (NO : NumOps) fuel path tv ti ta tl cs scope inst st e st',
    eval fuel path (Node NodeLOOP tv ti ta tl cs) scope inst st = (RErr e, st') -> is_rt e T_EOI = false.
Proof. exact @break_never_leaves_a_loop. Qed.
Print Assumptions C04_interp_break_never_leaves_a_loop.

(* ================================================================ if / elif / else *)
(* the guards are evaluated in order ([falls_through]: the pairs before, all false); the block of the
   FIRST true guard is the result; later guards and blocks, and the blocks before, do not matter *)
Theorem C04_interp_if_first_true_guard :
  forall (NO : NumOps) fuel path tv ti ta tl pre g s r scope inst st c st0 st1 st2,
    new_child scope path st = (ROk c, st0) ->
    falls_through (eval fuel) path c inst 0 pre st0 st1 ->
    is_name g NodeGUARD = true ->
    eval fuel (length pre :: path) g c inst st1 = (ROk (VBool true), st2) ->
    eval (S fuel) path (Node NodeIF tv ti ta tl (pre ++ g :: s :: r)) scope inst st =
    eval fuel (S (length pre) :: path) s c inst st2.
Proof. exact @if_first_true_guard. Qed.
Print Assumptions C04_interp_if_first_true_guard.

(* a guard that ends with an error ends the if statement with it; nothing later is evaluated *)
Theorem C04_interp_failing_guard_ends_if :
  forall (NO : NumOps) fuel path tv ti ta tl pre g s r scope inst st c st0 st1 e st2,
    new_child scope path st = (ROk c, st0) ->
    falls_through (eval fuel) path c inst 0 pre st0 st1 ->
    is_name g NodeGUARD = true ->
    eval fuel (length pre :: path) g c inst st1 = (RErr e, st2) ->
    eval (S fuel) path (Node NodeIF tv ti ta tl (pre ++ g :: s :: r)) scope inst st = (RErr e, st2).
Proof. exact @if_failing_guard_ends_if. Qed.
Print Assumptions C04_interp_failing_guard_ends_if.

Theorem C04_interp_if_no_true_guard :
  forall (NO : NumOps) fuel path tv ti ta tl cs scope inst st c st0 st1,
    new_child scope path st = (ROk c, st0) ->
    falls_through (eval fuel) path c inst 0 cs st0 st1 ->
    eval (S fuel) path (Node NodeIF tv ti ta tl cs) scope inst st = (ROk VNull, st1).
Proof. exact @if_no_true_guard. Qed.
Print Assumptions C04_interp_if_no_true_guard.

(* ================================================================ statements, return, function call *)
(* a sequence ends with the first error or signal; nothing after it is evaluated *)
Theorem C04_interp_statements_stop_at_first_error :
  forall (NO : NumOps) fuel path tv ti ta tl pre c post scope inst st v1 st1 e st2,
    runs_through (eval fuel) path scope inst 0 pre VNull st v1 st1 ->
    eval fuel (length pre :: path) c scope inst st1 = (RErr e, st2) ->
    eval (S fuel) path (Node NodeSTATEMENTS tv ti ta tl (pre ++ c :: post)) scope inst st = (RErr e, st2).
Proof. exact @statements_stop_at_first_error. Qed.
Print Assumptions C04_interp_statements_stop_at_first_error.

Theorem C04_interp_statements_value_of_last :
  forall (NO : NumOps) fuel path tv ti ta tl cs scope inst st v1 st1,
    runs_through (eval fuel) path scope inst 0 cs VNull st v1 st1 ->
    eval (S fuel) path (Node NodeSTATEMENTS tv ti ta tl cs) scope inst st = (ROk v1, st1).
Proof. exact @statements_value_of_last. Qed.
Print Assumptions C04_interp_statements_value_of_last.

(* return e: the signal EReturn with the value of e (a flow signal: is_flow (EReturn v) = true) *)
Theorem C04_interp_return_is_a_signal :
  forall (NO : NumOps) fuel path tv ti ta tl c r scope inst st,
    eval (S fuel) path (Node NodeRETURN tv ti ta tl (c :: r)) scope inst st =
    match eval fuel (0 :: path) c scope inst st with
    | (ROk v, st1) => (RErr (EReturn v), st1)
    | x => x
    end.
Proof. exact @return_is_a_signal. Qed.
Print Assumptions C04_interp_return_is_a_signal.

(* function.Run: fresh scope, parameters, parent link, instance state, then the body ONCE;
   the caller sees [call_outcome]: the body's value, the value of a return signal, or the error *)
Theorem C04_interp_function_run :
  forall (NO : NumOps) ev f args inst st params body fvs st1 st2 st3 inst' st4,
    nth_error (n_children (cl_decl f)) (decl_offset (cl_decl f)) = Some params ->
    nth_error (n_children (cl_decl f)) (S (decl_offset (cl_decl f))) = Some body ->
    new_root st = (ROk fvs, st1) ->
    bind_params ev (decl_offset (cl_decl f) :: cl_path f) 0 (n_children params) args fvs (cl_scope f) inst st1
      = (ROk tt, st2) ->
    set_parent fvs (cl_scope f) st2 = (ROk tt, st3) ->
    alloc_is st3 = (ROk inst', st4) ->
    run_closure ev f args inst st =
    call_outcome (ev (S (decl_offset (cl_decl f)) :: cl_path f) body fvs inst' st4).
Proof. exact @run_closure_body. Qed.
Print Assumptions C04_interp_function_run.

(* return leaves the innermost function with its value: the call (executeFunction) yields v, no error *)
Theorem C04_interp_return_leaves_function :
  forall (NO : NumOps) ev id self f args inst st params body fvs st1 st2 st3 inst' st4 v st5,
    get_fun id st = (ROk f, st) ->
    nth_error (n_children (cl_decl f)) (decl_offset (cl_decl f)) = Some params ->
    nth_error (n_children (cl_decl f)) (S (decl_offset (cl_decl f))) = Some body ->
    new_root st = (ROk fvs, st1) ->
    bind_params ev (decl_offset (cl_decl f) :: cl_path f) 0 (n_children params) args fvs (cl_scope f) inst st1
      = (ROk tt, st2) ->
    set_parent fvs (cl_scope f) st2 = (ROk tt, st3) ->
    alloc_is st3 = (ROk inst', st4) ->
    ev (S (decl_offset (cl_decl f)) :: cl_path f) body fvs inst' st4 = (RErr (EReturn v), st5) ->
    exec_function ev (FClosure id) self args inst st = (ROk (v, None), st5).
Proof. exact @exec_function_return. Qed.
Print Assumptions C04_interp_return_leaves_function.

(* ================================================================ the bookkeeping steps named in the premises *)
Theorem C04_interp_bookkeeping_total :
  forall (NO : NumOps) scope key e st,
    ((exists c, fst (new_child scope key st) = ROk c) \/ (exists w, fst (new_child scope key st) = RInvalid w)) /\
    (exists id st', make_errobj e st = (ROk (VMap id), st')) /\
    (exists st', alloc_is st = (ROk (length (st_is st)), st')) /\
    (exists st', new_root st = (ROk (length (st_scopes st)), st')).
Proof. exact @bookkeeping_total. Qed.
Print Assumptions C04_interp_bookkeeping_total.

(* ================================================================ non-vacuity *)
(* Number instance z_ops, tree constructors and the programs: Proofs/InterpControl4.v.
   Whole programs first (Validate + Eval from the initial state): *)
Ltac conj := repeat match goal with |- _ /\ _ => split end.
(* an equation between closed terms: checked by the kernel's VM conversion at Qed *)
Ltac vc := match goal with |- ?l = ?r => vm_cast_no_check (@eq_refl _ r) end.
(* break in try inside a loop: except and otherwise are passed, finally runs once: 0 + 1 + 1000 *)
Example C04_interp_example_break_through_finally :
  fst (@run z_ops 50 P1) = ROk (VNum (NO := z_ops) 1001%Z).
Proof. vc. Qed.
(* raise("B"): the second clause (lists "B") handles it, not the bare third; no otherwise; finally *)
Example C04_interp_example_first_matching_clause :
  fst (@run z_ops 50 P2) = ROk (VNum (NO := z_ops) 10010%Z).
Proof. vc. Qed.
Example C04_interp_example_if : fst (@run z_ops 50 P3) = ROk (VNum (NO := z_ops) 2%Z).
Proof. vc. Qed.
Example C04_interp_example_continue : fst (@run z_ops 50 P4) = ROk (VNum (NO := z_ops) 4%Z).
Proof. vc. Qed.
(* return inside try inside a loop inside a function: passes except, runs finally, ends the loop and the call *)
Example C04_interp_example_return : fst (@run z_ops 50 P5) = ROk (VNum (NO := z_ops) 7%Z).
Proof. vc. Qed.

(* The premises of the theorems are satisfiable together, on non-trivial inputs
   (witnesses: projections of the computations, checked by vm_compute): *)

(* finally_exactly_once / finally_on_every_exit / signals_pass_except: a try block that breaks *)
Example C04_interp_premises_finally :
  exists fvs st0 tvs st0' e st1 st',
    is_name (last (T1_body :: T1_clauses) T1_body) NodeFINALLY = false /\
    new_child (NO := z_ops) 0 [S (length T1_clauses); 7] st_x = (ROk fvs, st0) /\
    new_child 0 [7] st0 = (ROk tvs, st0') /\
    eval 20 [0; 7] T1_body tvs 0 st0' = (RErr e, st1) /\ is_flow e = true /\
    eval 21 [7] (nd NodeTRY (T1_body :: T1_clauses ++ [nd NodeFINALLY [T1_fb]])) 0 0 st_x
      = (RErr (rt_err T_EOI), st') /\
    fst (get_value 0 (bs "x") st') = ROk (@VNum z_ops 1001%Z).
Proof.
  pose (r0 := new_child (NO := z_ops) 0 [S (length T1_clauses); 7] st_x). exists (okv 0 (fst r0)), (snd r0).
  pose (r1 := new_child 0 [7] (snd r0)). exists (okv 0 (fst r1)), (snd r1).
  pose (r2 := eval 20 [0; 7] T1_body (okv 0 (fst r1)) 0 (snd r1)). exists (erv (fst r2)), (snd r2).
  exists (snd (eval 21 [7] (nd NodeTRY (T1_body :: T1_clauses ++ [nd NodeFINALLY [T1_fb]])) 0 0 st_x)).
  conj; vc.
Qed.

(* otherwise_after_normal_end / normal_end_without_otherwise *)
Example C04_interp_premises_otherwise :
  exists tvs st0 v st1 ovs st2,
    is_name (last (T3_body :: T3_pre ++ nd NodeOTHERWISE [T3_ob] :: []) T3_body) NodeFINALLY = false /\
    new_child (NO := z_ops) 0 [7] st_x = (ROk tvs, st0) /\
    eval 20 [0; 7] T3_body tvs 0 st0 = (ROk v, st1) /\
    Forall (fun c => is_name c NodeOTHERWISE = false) T3_pre /\
    new_child 0 [S (length T3_pre); 7] st1 = (ROk ovs, st2) /\
    fst (get_value 0 (bs "x")
           (snd (eval 21 [7] (nd NodeTRY (T3_body :: T3_pre ++ [nd NodeOTHERWISE [T3_ob]])) 0 0 st_x)))
    = ROk (@VNum z_ops 101%Z).
Proof.
  pose (r0 := new_child (NO := z_ops) 0 [7] st_x). exists (okv 0 (fst r0)), (snd r0).
  pose (r1 := eval 20 [0; 7] T3_body (okv 0 (fst r0)) 0 (snd r0)). exists (okv VNull (fst r1)), (snd r1).
  pose (r2 := new_child 0 [S (length T3_pre); 7] (snd r1)). exists (okv 0 (fst r2)), (snd r2).
  conj; try vc. repeat constructor.
Qed.

(* first_matching_clause: raise("B") against  except "A" {} | except "B", "C" as e {} | except {} | otherwise {} *)
Example C04_interp_premises_first_matching_clause :
  exists tvs st0 e st1 eo st2 evs st3 st4,
    let clause := nd NodeEXCEPT (T2_names ++ T2_binder ++ [T2_block]) in
    is_name (last (T2_body :: T2_pre ++ clause :: T2_post) T2_body) NodeFINALLY = false /\
    new_child (NO := z_ops) 0 [7] st_x = (ROk tvs, st0) /\
    eval 20 [0; 7] T2_body tvs 0 st0 = (RErr e, st1) /\
    is_flow e = false /\
    Forall (passes (NO := z_ops) (err_type_text e)) T2_pre /\
    Forall (plain_name (NO := z_ops)) T2_names /\ binder_of T2_binder (bs "e") /\
    is_name T2_block NodeSTATEMENTS = true /\
    clause_matches T2_names (err_type_text e) = true /\
    make_errobj e st1 = (ROk eo, st2) /\
    new_child 0 [S (length T2_pre); 7] st2 = (ROk evs, st3) /\
    bind_errvar evs (bs "e") eo st3 = (ROk tt, st4) /\
    fst (get_value 0 (bs "x") (snd (eval 21 [7] (nd NodeTRY (T2_body :: T2_pre ++ clause :: T2_post)) 0 0 st_x)))
    = ROk (@VNum z_ops 10%Z).
Proof.
  pose (r0 := new_child (NO := z_ops) 0 [7] st_x). exists (okv 0 (fst r0)), (snd r0).
  pose (r1 := eval 20 [0; 7] T2_body (okv 0 (fst r0)) 0 (snd r0)). exists (erv (fst r1)), (snd r1).
  pose (r2 := make_errobj (erv (fst r1)) (snd r1)). exists (okv VNull (fst r2)), (snd r2).
  pose (r3 := new_child 0 [S (length T2_pre); 7] (snd r2)). exists (okv 0 (fst r3)), (snd r3).
  exists (snd (bind_errvar (okv 0 (fst r3)) (bs "e") (okv VNull (fst r2)) (snd r3))).
  cbv zeta. conj; try vc.
  - replace (err_type_text (erv (fst r1))) with (bs "B") by vc.
    constructor; [|constructor].
    apply (ps_nomatch _ [] false false 0 [str "A"] [] [] (block [inc "x" "1"])).
    + repeat constructor. + constructor. + reflexivity. + vc.
  - repeat constructor.
  - apply (bo_as [] false false 0 (var "e") []).
Qed.

(* unhandled_propagates_unchanged: no clause lists "B" *)
Example C04_interp_premises_unhandled :
  exists tvs st0 e st1 eo st2,
    is_name (last (T2_body :: T2_nomatch) T2_body) NodeFINALLY = false /\
    new_child (NO := z_ops) 0 [7] st_x = (ROk tvs, st0) /\
    eval 20 [0; 7] T2_body tvs 0 st0 = (RErr e, st1) /\
    is_flow e = false /\
    Forall (passes (NO := z_ops) (err_type_text e)) T2_nomatch /\
    make_errobj e st1 = (ROk eo, st2) /\
    fst (eval 21 [7] (nd NodeTRY (T2_body :: T2_nomatch)) 0 0 st_x) = RErr (ERaised (bs "B") [] VNull).
Proof.
  pose (r0 := new_child (NO := z_ops) 0 [7] st_x). exists (okv 0 (fst r0)), (snd r0).
  pose (r1 := eval 20 [0; 7] T2_body (okv 0 (fst r0)) 0 (snd r0)). exists (erv (fst r1)), (snd r1).
  pose (r2 := make_errobj (erv (fst r1)) (snd r1)). exists (okv VNull (fst r2)), (snd r2).
  conj; try vc.
  replace (err_type_text (erv (fst r1))) with (bs "B") by vc.
  constructor; [|constructor; [|constructor; [|constructor]]].
  - apply (ps_nomatch _ [] false false 0 [str "A"] [] [] (block [inc "x" "1"])).
    + repeat constructor. + constructor. + reflexivity. + vc.
  - apply (ps_nomatch _ [] false false 0 [str "C"; str "D"] [var "e"] (bs "e") (block [inc "x" "10"])).
    + repeat constructor. + apply (bo_ident (bs "e") true false 0 []). + reflexivity. + vc.
  - apply ps_other. reflexivity.
Qed.

(* the loop rounds: a round that ends normally, one that continues, one that breaks *)
Example C04_interp_premises_loop :
  exists c st0 inst st1 sa v sb sc e sd se e' sf,
    is_name L_guard NodeGUARD = true /\
    new_child (NO := z_ops) 0 [7] st_x = (ROk c, st0) /\ alloc_is st0 = (ROk inst, st1) /\
    eval 20 [0; 7] L_guard c inst st1 = (ROk (VBool true), sa) /\
    eval 20 [1; 7] L_body c inst sa = (ROk v, sb) /\
    eval 20 [0; 7] L_guard c inst sb = (ROk (VBool true), sc) /\
    eval 20 [1; 7] L_body c inst sc = (RErr e, sd) /\ is_rt e T_CONT = true /\
    eval 20 [0; 7] L_guard c inst sd = (ROk (VBool true), se) /\
    eval 20 [1; 7] L_body c inst se = (RErr e', sf) /\ is_rt e' T_EOI = true /\
    eval 21 [7] (nd NodeLOOP [L_guard; L_body]) 0 0 st_x = (ROk VNull, sf).
Proof.
  pose (r0 := new_child (NO := z_ops) 0 [7] st_x). pose (c := okv 0 (fst r0)). exists c, (snd r0).
  pose (r1 := alloc_is (snd r0)). pose (i := okv 0 (fst r1)). exists i, (snd r1).
  pose (g1 := eval 20 [0; 7] L_guard c i (snd r1)). exists (snd g1).
  pose (b1 := eval 20 [1; 7] L_body c i (snd g1)). exists (okv VNull (fst b1)), (snd b1).
  pose (g2 := eval 20 [0; 7] L_guard c i (snd b1)). exists (snd g2).
  pose (b2 := eval 20 [1; 7] L_body c i (snd g2)). exists (erv (fst b2)), (snd b2).
  pose (g3 := eval 20 [0; 7] L_guard c i (snd b2)). exists (snd g3).
  pose (b3 := eval 20 [1; 7] L_body c i (snd g3)). exists (erv (fst b3)), (snd b3).
  conj; vc.
Qed.

(* if: first pair falls through, second guard true; and a failing guard *)
Example C04_interp_premises_if :
  exists c st0 st1 st2 e st3,
    new_child (NO := z_ops) 0 [7] st_x = (ROk c, st0) /\
    falls_through (eval 20) [7] c 0 0 I_pre st0 st1 /\
    is_name I_g NodeGUARD = true /\
    eval 20 [length I_pre; 7] I_g c 0 st1 = (ROk (VBool true), st2) /\
    fst (get_value 0 (bs "x") (snd (eval 21 [7] (nd NodeIF (I_pre ++ I_g :: I_s :: I_r)) 0 0 st_x)))
      = ROk (@VNum z_ops 2%Z) /\
    eval 20 [length I_pre; 7] I_bad c 0 st1 = (RErr e, st3).
Proof.
  pose (r0 := new_child (NO := z_ops) 0 [7] st_x). pose (c := okv 0 (fst r0)). exists c, (snd r0).
  pose (g1 := eval 20 [0; 7] (guard (nd NodeFALSE [])) c 0 (snd r0)). exists (snd g1).
  pose (g2 := eval 20 [length I_pre; 7] I_g c 0 (snd g1)). exists (snd g2).
  pose (g3 := eval 20 [length I_pre; 7] I_bad c 0 (snd g1)). exists (erv (fst g3)), (snd g3).
  conj; try vc.
  eapply ft_cons; [reflexivity| vc | apply ft_nil].
Qed.

(* function call: the body of f ends with the return signal, the call yields 7 *)
Example C04_interp_premises_function :
  exists f params body fvs st1 st2 st3 inst' st4 st5,
    get_fun (NO := z_ops) 0 st_f = (ROk f, st_f) /\
    nth_error (n_children (cl_decl f)) (decl_offset (cl_decl f)) = Some params /\
    nth_error (n_children (cl_decl f)) (S (decl_offset (cl_decl f))) = Some body /\
    new_root st_f = (ROk fvs, st1) /\
    bind_params (eval 30) (decl_offset (cl_decl f) :: cl_path f) 0 (n_children params) [] fvs (cl_scope f) 0 st1
      = (ROk tt, st2) /\
    set_parent fvs (cl_scope f) st2 = (ROk tt, st3) /\
    alloc_is st3 = (ROk inst', st4) /\
    eval 30 (S (decl_offset (cl_decl f)) :: cl_path f) body fvs inst' st4 = (RErr (EReturn (@VNum z_ops 7%Z)), st5).
Proof.
  pose (f := mkClo (bs "f") F_decl [0] 0).
  pose (params := nd NodePARAMS []).
  pose (body := nth 2 (n_children F_decl) (nd NodeNULL [])).
  exists f, params, body.
  pose (r0 := new_root (NO := z_ops) st_f). pose (fvs := okv 0 (fst r0)). exists fvs, (snd r0).
  pose (r1 := bind_params (eval 30) [1; 0] 0 [] [] fvs 0 0 (snd r0)). exists (snd r1).
  pose (r2 := set_parent fvs 0 (snd r1)). exists (snd r2).
  pose (r3 := alloc_is (snd r2)). pose (i := okv 0 (fst r3)). exists i, (snd r3).
  exists (snd (eval 30 [2; 0] body fvs i (snd r3))).
  conj; vc.
Qed.
