(* Props/C06_tables.v — the dispatch of the interpreter model (Model/Interp.v) covers the dispatch
   tables of the code AS THEY ARE NOW: gen/Providers.v is regenerated from /repo on every run
   (translator/providers: providerMap and ECALRuntimeProvider.Runtime's fall-back by go/ast,
   InbuildFuncMap and the stdlib symbols from the linked packages), and every theorem below that
   mentions a table is re-checked whenever the table moves.

   What breaks a theorem here (instead of leaving the model silently behind):
     a node kind added to providerMap that the model does not dispatch on      C06_interp_provider_map_classified
     a node kind re-mapped to another runtime component (e.g. plus -> minus)   C06_interp_provider_map_classified,
                                                                               C06_interp_expected_components_in_provider_map
     a node kind removed from providerMap that the model dispatches on         C06_interp_dispatched_kinds_in_provider_map
     another fall-back than invalidRuntime, a write to providerMap elsewhere   C06_interp_provider_map_static
     a built-in added to / removed from InbuildFuncMap (also at init time)     C06_interp_builtins_cover_inbuild_map,
                                                                               C06_interp_inbuild_map_is_literal
     a modelled built-in bound to another Go function object                   C06_interp_modelled_builtin_types
     a new stdlib package or a symbol is_stdlib does not recognise             C06_interp_stdlib_covered

   The CLASS of a node kind in the model ([kind_class]: component with a branch of its own /
   void / unmodelled / invalid) is computed from lists; the first four theorems prove, for EVERY
   node, state, fuel, evaluator and number implementation, that the lists say what eval_node and
   validate_node do.  The expected constructor per component kind ([expected_components]) and the
   expected Go type per modelled built-in ([expected_builtin_types]) are written by reading
   interpreter/provider.go and func_provider.go: that a component's Coq branch FOLLOWS the named
   Go component is the claim of Model/Interp.v, tied by C06 stream 5, not by this file.

   The full statement "modelled_builtins ++ unmodelled_builtins is a permutation of the keys of
   InbuildFuncMap" is FALSE of the model: unmodelled_builtins lists log / error / debug, which
   resolveFunctionObject handles before any table (C06_interp_builtins_not_just_inbuild_map);
   the theorem is stated with these three names added. *)
From Coq Require Import List String NArith ZArith Bool Permutation.
From Ecal Require Import Common.Bytes Common.Ast gen.Tokens gen.Providers Model.Interp Proofs.InterpTables.
Import ListNotations.
Local Open Scope string_scope.
Local Open Scope list_scope.
Local Open Scope nat_scope.

(* ---- the model's dispatch is a function of the class of the kind (no table involved) *)
Theorem C06_interp_dispatch_by_class :
  forall (NO : NumOps) (ev : evalT) (fuel : nat) (path : list nat) (n : node) (sc is : nat),
    match kind_class (n_name n) with
    | KComponent => True
    | KVoid => eval_node ev fuel path n sc is = ret VNull
    | KUnmod => eval_node ev fuel path n sc is = unmod "sink / import"
    | KInvalid => eval_node ev fuel path n sc is = fail (rt_err T_INVCONS)
    end.
Proof. exact (@eval_node_by_class). Qed.
Print Assumptions C06_interp_dispatch_by_class.

Theorem C06_interp_validate_by_class :
  forall (NO : NumOps) (n : node),
    match kind_class (n_name n) with
    | KComponent => True
    | KVoid => validate_node n = VOk
    | KUnmod => validate_node n = VUnmod "sink / import"
    | KInvalid => validate_node n = VErr (rt_err T_INVCONS)
    end.
Proof. exact (@validate_node_by_class). Qed.
Print Assumptions C06_interp_validate_by_class.

(* ... and no listed component kind is a dead entry: the invalidRuntime answer does not depend on
   the input, every component kind has an input with another answer *)
Theorem C06_interp_component_kinds_dispatched :
  forall k, In k interp_component_kinds ->
    exists (NO : NumOps) (ev : evalT) (fuel : nat) (path : list nat) (n : node) (sc is : nat) (st : state),
      n_name n = k /\ fst (eval_node ev fuel path n sc is st) <> RErr (rt_err T_INVCONS).
Proof. exact component_kinds_dispatched. Qed.
Print Assumptions C06_interp_component_kinds_dispatched.

Theorem C06_interp_component_kinds_validated :
  forall k, In k interp_component_kinds ->
    exists (NO : NumOps) (n : node), n_name n = k /\ validate_node n <> VErr (rt_err T_INVCONS).
Proof. exact component_kinds_validated. Qed.
Print Assumptions C06_interp_component_kinds_validated.

(* ---- providerMap *)
(* every entry of providerMap against the model's class of its kind *)
Theorem C06_interp_provider_map_classified :
  forall k c, In (k, c) provider_map ->
    match kind_class k with
    | KComponent => In (k, c) expected_components
    | KVoid => c = "voidRuntimeInst"
    | KUnmod => c <> "voidRuntimeInst" /\ c <> "invalidRuntimeInst"
    | KInvalid => c = "invalidRuntimeInst"
    end.
Proof. exact provider_map_classified. Qed.
Print Assumptions C06_interp_provider_map_classified.

(* composed with the first two theorems: what the model does with a node whose kind is a key of
   providerMap.  The invalidRuntime answer is given exactly where the code's component IS
   invalidRuntime (the kind EOF) *)
Theorem C06_interp_dispatch_covers_provider_map :
  forall (NO : NumOps) k c, In (k, c) provider_map ->
  forall (ev : evalT) (fuel : nat) (path : list nat) (n : node) (sc is : nat), n_name n = k ->
    (In k interp_component_kinds /\ In (k, c) expected_components)
    \/ (c = "voidRuntimeInst" /\ eval_node ev fuel path n sc is = ret VNull /\ validate_node n = VOk)
    \/ (c <> "voidRuntimeInst" /\ c <> "invalidRuntimeInst"
        /\ eval_node ev fuel path n sc is = unmod "sink / import" /\ validate_node n = VUnmod "sink / import")
    \/ (c = "invalidRuntimeInst" /\ eval_node ev fuel path n sc is = fail (rt_err T_INVCONS)
        /\ validate_node n = VErr (rt_err T_INVCONS)).
Proof. exact (@dispatch_covers_provider_map). Qed.
Print Assumptions C06_interp_dispatch_covers_provider_map.

Theorem C06_interp_dispatched_kinds_in_provider_map :
  forall k, In k interp_dispatched_kinds -> In k (map fst provider_map).
Proof. exact dispatched_kinds_in_provider_map. Qed.
Print Assumptions C06_interp_dispatched_kinds_in_provider_map.

Theorem C06_interp_expected_components_in_provider_map :
  map fst expected_components = interp_component_kinds
  /\ forall k c, In (k, c) expected_components -> In (k, c) provider_map.
Proof. exact (conj expected_components_keys expected_components_in_provider_map). Qed.
Print Assumptions C06_interp_expected_components_in_provider_map.

(* a kind that is no key of providerMap: the model answers as the component the code falls back to *)
Theorem C06_interp_unknown_kind_is_invalid :
  forall (NO : NumOps) (ev : evalT) (fuel : nat) (path : list nat) (n : node) (sc is : nat),
    ~ In (n_name n) (map fst provider_map) ->
    provider_default = "invalidRuntimeInst"
    /\ eval_node ev fuel path n sc is = fail (rt_err T_INVCONS)
    /\ validate_node n = VErr (rt_err T_INVCONS).
Proof. exact (@unknown_kind_is_invalid). Qed.
Print Assumptions C06_interp_unknown_kind_is_invalid.

Theorem C06_interp_provider_map_static :
  provider_default = "invalidRuntimeInst" /\ provider_map_other_writes = []
  /\ nodupb (map fst provider_map) = true.
Proof. exact (conj provider_default_is_invalid (conj provider_map_only_literal provider_map_keys_unique)). Qed.
Print Assumptions C06_interp_provider_map_static.

(* ---- InbuildFuncMap *)
Theorem C06_interp_builtins_cover_inbuild_map :
  Permutation (modelled_builtins ++ unmodelled_builtins) (inbuild_funcs ++ ["log"; "error"; "debug"]).
Proof. exact builtins_permutation. Qed.
Print Assumptions C06_interp_builtins_cover_inbuild_map.

Theorem C06_interp_builtins_not_just_inbuild_map :
  mem "log" unmodelled_builtins = true /\ mem "log" inbuild_funcs = false.
Proof. exact builtins_not_just_inbuild_map. Qed.
Print Assumptions C06_interp_builtins_not_just_inbuild_map.

(* the model's resolveFunctionObject on every key of InbuildFuncMap, for every stored value *)
Theorem C06_interp_resolve_covers_inbuild :
  forall (NO : NumOps) k, In k inbuild_funcs -> forall result : value,
    match result with
    | VFun id => resolve_fobj (bs k) result = ROk (Some (FClosure id))
    | _ => (In k modelled_builtins /\ resolve_fobj (bs k) result = ROk (Some (FBuiltin (bs k))))
           \/ (In k unmodelled_builtins /\ exists w, resolve_fobj (bs k) result = RUnmod w)
    end.
Proof. exact (@resolve_fobj_covers_inbuild). Qed.
Print Assumptions C06_interp_resolve_covers_inbuild.

Theorem C06_interp_modelled_builtins_executed :
  forall k, In k modelled_builtins ->
    exists (NO : NumOps) (ev : evalT) (self : list nat) (args : list value) (is : nat) (st : state),
      forall w, fst (exec_function ev (FBuiltin (bs k)) self args is st) <> RUnmod w.
Proof. exact modelled_builtins_executed. Qed.
Print Assumptions C06_interp_modelled_builtins_executed.

Theorem C06_interp_modelled_builtin_types :
  map fst expected_builtin_types = modelled_builtins
  /\ forall k t, In (k, t) expected_builtin_types -> In (k, t) inbuild_func_types.
Proof. exact (conj expected_builtin_types_keys modelled_builtin_types). Qed.
Print Assumptions C06_interp_modelled_builtin_types.

Theorem C06_interp_inbuild_map_is_literal :
  inbuild_funcs = inbuild_funcs_src /\ inbuild_other_writes = [].
Proof. exact inbuild_linked_is_literal. Qed.
Print Assumptions C06_interp_inbuild_map_is_literal.

(* ---- stdlib *)
Theorem C06_interp_stdlib_covered :
  (forall s, In s (stdlib_consts ++ stdlib_funcs) -> is_stdlib (bs s) = true)
  /\ forallb (fun p => is_stdlib (bs (p ++ ".x"))) stdlib_packages = true
  /\ forallb (fun s => negb (is_stdlib (bs s))) (inbuild_funcs ++ ["log"; "error"; "debug"]) = true.
Proof. exact (conj stdlib_covered (conj stdlib_packages_recognised builtins_not_stdlib)). Qed.
Print Assumptions C06_interp_stdlib_covered.

(* ---- non-vacuity: the tables are not empty and every class occurs in providerMap *)
Example C06_tables_sizes :
  length provider_map = 57 /\ length interp_dispatched_kinds = 56 /\ length inbuild_funcs = 18
  /\ length stdlib_funcs = 62.
Proof. repeat split; vm_compute; reflexivity. Qed.

Example C06_tables_classes :
  In ("plus", "plusOpRuntimeInst") provider_map /\ kind_class "plus" = KComponent
  /\ In ("kvp", "voidRuntimeInst") provider_map /\ kind_class "kvp" = KVoid
  /\ In ("sink", "sinkRuntimeInst") provider_map /\ kind_class "sink" = KUnmod
  /\ In ("EOF", "invalidRuntimeInst") provider_map /\ kind_class "EOF" = KInvalid.
Proof.
  repeat split; try (vm_compute; reflexivity); apply pair_mem_In; vm_compute; reflexivity.
Qed.

(* the premise of C06_interp_unknown_kind_is_invalid is satisfiable *)
Example C06_tables_unknown_kind : ~ In "spawn" (map fst provider_map).
Proof. intros H. apply mem_In in H. vm_compute in H. discriminate. Qed.
