(* Props/C03.v — Expressions evaluate per the documented operator semantics and precedence.
   Only theorem statements, closed by [exact] / one-line proofs, and Print Assumptions. *)
From Coq Require Import List String NArith ZArith Bool Arith Floats.
From Ecal Require Import Common.Bytes Common.Ast gen.Tokens gen.Grammar
  Model.Pratt Model.Expr Spec.ExprGrammarSpec Spec.ExprSemSpec Proofs.PrattProofs Proofs.ExprProofs.
Import ListNotations.

(* ---- PART 1: precedence.  The parser model (binding powers and denotation kinds read
   from the regenerated parser.astNodeMap) turns EVERY sufficiently parenthesised writing
   of EVERY expression tree, in any line layout, back into exactly that tree. *)
Theorem C03_pratt_inverts_unparse :
  forall (p : pexpr) (eof : token), wfp p = true -> is_eof eof ->
    parse_expr (toks p ++ [eof]) = POk (node_of (erase p)).
Proof. exact pratt_inverts_writing. Qed.
Print Assumptions C03_pratt_inverts_unparse.

(* ... in particular the writing with the minimal parentheses of the documented precedence *)
Theorem C03_pratt_inverts_minimal_unparse :
  forall (par : tinfo) (e : expr) (eof : token), is_eof eof ->
    parse_expr (toks (unparse par e) ++ [eof]) = POk (node_of e).
Proof. exact pratt_inverts_unparse. Qed.
Print Assumptions C03_pratt_inverts_minimal_unparse.

(* the documented levels are realised by the binding powers of the current table *)
Theorem C03_levels_realised_by_table :
  forall o1 o2 : binop,
    (level o1 < level o2 -> bp_id (bin_id o1) < bp_id (bin_id o2))%nat /\
    (level o1 = level o2 -> bp_id (bin_id o1) = bp_id (bin_id o2)).
Proof. exact levels_realised. Qed.
Print Assumptions C03_levels_realised_by_table.

(* binary operators associate to the left; an operator that is not tighter is applied later *)
Theorem C03_binary_left_assoc :
  forall o1 o2 i1 i2 ka kb kc ia ib ic eof, (level o2 <= level o1)%nat -> is_eof eof ->
  parse_expr ([tok_of (atom_id ka) ia; tok_of (bin_id o1) i1; tok_of (atom_id kb) ib;
               tok_of (bin_id o2) i2; tok_of (atom_id kc) ic; eof])
  = POk (leaf_of (bin_name o2) i2
           [leaf_of (bin_name o1) i1 [leaf_of (atom_name ka) ia []; leaf_of (atom_name kb) ib []];
            leaf_of (atom_name kc) ic []]).
Proof. exact chain_left. Qed.
Print Assumptions C03_binary_left_assoc.

(* multiplicative > additive > comparison/membership > and > or > assignment *)
Theorem C03_tighter_binds_first :
  forall o1 o2 i1 i2 ka kb kc ia ib ic eof, (level o1 < level o2)%nat -> is_eof eof ->
  parse_expr ([tok_of (atom_id ka) ia; tok_of (bin_id o1) i1; tok_of (atom_id kb) ib;
               tok_of (bin_id o2) i2; tok_of (atom_id kc) ic; eof])
  = POk (leaf_of (bin_name o1) i1
           [leaf_of (atom_name ka) ia [];
            leaf_of (bin_name o2) i2 [leaf_of (atom_name kb) ib []; leaf_of (atom_name kc) ic []]]).
Proof. exact chain_right. Qed.
Print Assumptions C03_tighter_binds_first.

Theorem C03_prefix_minus_plus_tightest :
  forall (s : preop) o is io ka kb ia ib eof, s <> PNot -> is_eof eof ->
  parse_expr ([tok_of (pre_id s) is; tok_of (atom_id ka) ia; tok_of (bin_id o) io;
               tok_of (atom_id kb) ib; eof])
  = POk (leaf_of (bin_name o) io
           [leaf_of (pre_name s) is [leaf_of (atom_name ka) ia []]; leaf_of (atom_name kb) ib []]).
Proof. exact prefix_tightest. Qed.
Print Assumptions C03_prefix_minus_plus_tightest.

Theorem C03_not_applies_to_following_comparison :
  forall cmp inot icmp iand ka kb kc ia ib ic eof, level cmp = 4%nat -> is_eof eof ->
  parse_expr ([tok_of TokenNOT inot; tok_of (atom_id ka) ia; tok_of (bin_id cmp) icmp;
               tok_of (atom_id kb) ib; tok_of TokenAND iand; tok_of (atom_id kc) ic; eof])
  = POk (leaf_of NodeAND iand
           [leaf_of NodeNOT inot
              [leaf_of (bin_name cmp) icmp [leaf_of (atom_name ka) ia []; leaf_of (atom_name kb) ib []]];
            leaf_of (atom_name kc) ic []]).
Proof. exact not_applies_to_comparison. Qed.
Print Assumptions C03_not_applies_to_following_comparison.

(* ---- PART 2: semantics.  For every binary operator, all operand values and every regexp
   oracle: a value the model yields is the documented value; an error it yields is of the
   documented class, names one of the operands of the wrong kind and carries that operand's
   node; a panic / unmodelled outcome occurs only where the text is silent. *)
Theorem C03_eval_refines_spec :
  forall rx o path c1 c2 v1 v2, o <> OAssign ->
    refines_bin rx o path c1 c2 v1 v2 (eval_op rx (bin_name o) path [c1; c2] [RVal v1; RVal v2]).
Proof. exact eval_refines_spec. Qed.
Print Assumptions C03_eval_refines_spec.

Theorem C03_prefix_eval_refines_spec :
  forall rx o path c v,
    match eval_op rx (pre_name o) path [c] [RVal v] with
    | RVal r => spec_pre o v (SVal r)
    | RErr cl nm idf at_node => at_node = 0%nat :: path /\ spec_pre o v (SErr cl 0) /\ named_ok nm idf c
    | _ => False
    end.
Proof. exact eval_pre_refines. Qed.
Print Assumptions C03_prefix_eval_refines_spec.

(* an arithmetic or boolean operator applied to an operand of the wrong kind yields an
   error naming such an operand, never a value *)
Theorem C03_wrong_kind_is_error_naming_operand :
  forall rx o path c1 c2 v1 v2,
    arith_op o || bool_binop o = true -> kind_ok o v1 && kind_ok o v2 = false ->
    exists i at_node, (i = 0 \/ i = 1)%nat /\ kind_ok o (nth i [v1; v2] v1) = false /\
      eval_op rx (bin_name o) path [c1; c2] [RVal v1; RVal v2]
      = RErr (class_of o) (n_val (nth i [c1; c2] c1)) (n_ident (nth i [c1; c2] c1)) at_node.
Proof. exact wrong_kind_is_error. Qed.
Print Assumptions C03_wrong_kind_is_error_naming_operand.

(* an operator node is its operator applied to its operands' outcomes; a failing first
   operand is the node's outcome *)
Theorem C03_eval_node_is_operator_of_operands :
  forall env rx path o i c1 c2, o <> OAssign ->
    eval env rx path (leaf_of (bin_name o) i [c1; c2])
    = eval_op rx (bin_name o) path [c1; c2] [eval env rx (0%nat :: path) c1; eval env rx (1%nat :: path) c2].
Proof. exact eval_binary. Qed.
Print Assumptions C03_eval_node_is_operator_of_operands.

(* `//` is floor division: the model's floor is the mathematical floor ... *)
Theorem C03_floor_division :
  forall x y : float, op_divint x y = RVal (VNum (spec_floor (PrimFloat.div x y))).
Proof. intros; unfold op_divint; rewrite float_floor_spec; reflexivity. Qed.
Print Assumptions C03_floor_division.

(* ... z = floor(+-m * 2^e) is the integer with z * 2^-e <= +-m < (z+1) * 2^-e *)
Theorem C03_floor_characterised :
  forall (s : bool) (m : positive) (e : Z), (e < 0)%Z ->
    let x := if s then Z.neg m else Z.pos m in
    (spec_floorZ s m e * 2 ^ (- e) <= x < (spec_floorZ s m e + 1) * 2 ^ (- e))%Z.
Proof. exact spec_floorZ_is_floor. Qed.
Print Assumptions C03_floor_characterised.

(* `%` is the remainder of truncating integer division: a = b*q + r, |r| < |b|, sign of a *)
Theorem C03_integer_remainder :
  forall a b : Z, b <> 0%Z ->
    (a = b * Z.quot a b + Z.rem a b /\ Z.abs (Z.rem a b) < Z.abs b /\ 0 <= Z.rem a b * a)%Z.
Proof. exact rem_truncated. Qed.
Print Assumptions C03_integer_remainder.

(* ---- non-vacuity *)
Definition ti (v : bytes) (l : nat) : tinfo := mkTI v false false l.
(* 1 + 2 * (3 - 4) over three lines: the parentheses are required, the tree comes back *)
Example C03_example_parse :
  let e := EBin OPlus (ti [43] 1) (EAtom ANum (ti [49] 1))
             (EBin OTimes (ti [42] 2) (EAtom ANum (ti [50] 2))
                (EBin OMinus (ti [45] 3) (EAtom ANum (ti [51] 3)) (EAtom ANum (ti [52] 3)))) in
  List.length (toks (unparse (ti [] 9) e)) = 9%nat /\
  parse_expr (toks (unparse (ti [] 9) e) ++ [mkTok TokenEOF [] false false 3]) = POk (node_of e).
Proof. vm_compute. split; reflexivity. Qed.

(* -7 // 2 = -4, 7 % -2 = 1, "a" < "b", 1 + "a" names "a" *)
Example C03_example_eval :
  let num v := Node NodeNUMBER v false false 1%nat [] in
  let str v := Node NodeSTRING v false true 1%nat [] in
  let neg n := Node NodeMINUS [45] false false 1%nat [n] in
  let bin nm a b := Node nm [] false false 1%nat [a; b] in
  eval [] [] [] (bin NodeDIVINT (neg (num [55])) (num [50])) = RVal (VNum (-4)%float) /\
  eval [] [] [] (bin NodeMODINT (num [55]) (neg (num [50]))) = RVal (VNum 1%float) /\
  eval [] [] [] (bin NodeLT (str [97]) (str [98])) = RVal (VBool true) /\
  eval [] [] [] (bin NodePLUS (num [49]) (str [97])) = RErr ENotANumber [97] false [1%nat].
Proof. vm_compute. repeat split; reflexivity. Qed.
