(* Props/C16.v — The debugger command interface is total.
   Only theorem statements, closed by [exact], and Print Assumptions. *)
From Coq Require Import List String ZArith NArith Bool.
From Ecal Require Import Model.DebugCmd Spec.DebugCmdSpec Proofs.DebugCmdProofs.
Import ListNotations.

(* For EVERY debugger state reachable from a fresh debugger (with or without a global scope)
   by ANY history of thread events (start, references set, suspend at any stack depth, suspend
   on an error carrying any ECAL data, call, return, resume, finish) and command lines, and
   EVERY input line (any words — command names or not — any number of arguments of any kind,
   any answer of the scopes / the expression evaluator): the call returns a JSON-encodable
   result or an error (never panics, never waits), the number of held debugger locks (ed.lock and
   the condition mutex of every interrogated thread) is back at its value, every
   following line is answered as well and a following "status" returns a result. *)
Theorem C16_handle_total :
  total_interface dstate (list token) oracle gval model_handler locks_total json_ok is_status reachable.
Proof. exact handle_total. Qed.
Print Assumptions C16_handle_total.

(* The same, spelled out on the model's own outcome type: no panic site and no blocked call is
   reachable. *)
Theorem C16_never_panics_or_blocks :
  forall s o line, reachable s ->
    forall site, snd (handle s o line) <> RPanic site /\ snd (handle s o line) <> RBlocked.
Proof. exact never_panics. Qed.
Print Assumptions C16_never_panics_or_blocks.

(* Every result value is accepted by encoding/json: no map[interface{}]interface{}, no
   unencodable Go object anywhere inside, whatever data the debugged program put into its
   variables, stack frames and errors. *)
Theorem C16_result_json_encodable :
  forall s o line s' j, reachable s -> handle s o line = (s', ROk j) -> encodable j = true.
Proof. exact result_json_encodable. Qed.
Print Assumptions C16_result_json_encodable.

(* The set of states the theorems speak about is closed under every further event and command. *)
Theorem C16_reachable_closed :
  forall s e, valid_event e = true -> reachable s -> reachable (step s e).
Proof. exact reachable_closed. Qed.
Print Assumptions C16_reachable_closed.

(* What the repair of the error encoding relies on: converting any ECAL value (scalars,
   functions, lists, maps with arbitrary keys, nested) gives an encodable value. *)
Theorem C16_ecal_data_encodable :
  forall v, ecal_value v = true -> encodable (to_marshalable v) = true.
Proof. exact ecal_value_marshalable. Qed.
Print Assumptions C16_ecal_data_encodable.

(* ---- non-vacuity ---- *)

Definition w_cmd (c : cmd) : token := mkTok (Some c) None 0 TgNoColon false None true.
Definition w_num (n : N) : token := mkTok None (Some n) n TgNoColon false None false.
Definition w_stepout : token := mkTok None None 0 TgNoColon false (Some CtStepOut) true.
Definition w_garbage : token := mkTok None None 7 TgBadLine false None false.
Definition no_oracle : oracle := mkOracle false None false.

(* thread 1 suspended at top level (stack depth 0), thread 2 suspended inside two calls, thread 3
   suspended on an error whose data is a map with a non-string key *)
Definition example_history : list event :=
  [EvStart 1; EvRefs; EvSuspend 1 [GNum];
   EvStart 2; EvCall 2 [GMapI [(GNum, GStr)]]; EvCall 2 []; EvSuspend 2 [GNum; GMapI [(GNum, GNum)]];
   EvStart 3; EvCall 3 []; EvSuspendErr 3 [] (GMapI [(GNum, GList [GMapI [(GNum, GNum)]])])].

Definition example_state : dstate := run (init true) example_history.

Example C16_example_reachable : reachable example_state.
Proof. exists true, example_history. split; reflexivity. Qed.

Example C16_example_stepout :
  (* the top-level thread has an empty stack: the slice expression of the unguarded code has no value *)
  option_map (fun t => slice_but_last (t_stack t)) (find_thread example_state 1) = Some None
  (* "cont 1 stepout", "cont 2 stepout": a result; thread 1 resumes, thread 2 steps out to depth 1 *)
  /\ snd (handle example_state no_oracle [w_cmd CCont; w_num 1; w_stepout]) = ROk GNull
  /\ option_map (fun t => option_map i_cmd (t_is t))
       (find_thread (fst (handle example_state no_oracle [w_cmd CCont; w_num 1; w_stepout])) 1)
     = Some (Some IResume)
  /\ snd (handle example_state no_oracle [w_cmd CCont; w_num 2; w_stepout]) = ROk GNull
  /\ option_map (fun t => option_map (fun i => (i_cmd i, i_stepout i)) (t_is t))
       (find_thread (fst (handle example_state no_oracle [w_cmd CCont; w_num 2; w_stepout])) 2)
     = Some (Some (IStepOut, 1%nat))
  (* wrong argument count, unknown thread, unknown command, empty line *)
  /\ snd (handle example_state no_oracle [w_cmd CCont; w_num 1]) = RErr
  /\ snd (handle example_state no_oracle [w_cmd CCont; w_num 99; w_stepout]) = ROk GNull
  /\ snd (handle example_state no_oracle [w_garbage; w_num 1]) = RErr
  /\ snd (handle example_state no_oracle []) = ROk GNull
  (* "lockstate" on a fresh debugger *)
  /\ (exists j, snd (handle (init false) no_oracle [w_cmd CLockState]) = ROk j).
Proof. vm_compute. repeat split; try reflexivity. eexists; reflexivity. Qed.

(* "describe 3": the error data contains map[interface{}]interface{} values, the result does not *)
Example C16_example_describe_error :
  encodable (GMapI [(GNum, GList [GMapI [(GNum, GNum)]])]) = false
  /\ exists j, snd (handle example_state no_oracle [w_cmd CDescribe; w_num 3]) = ROk j
               /\ encodable j = true.
Proof. split; [reflexivity|]. vm_compute. eexists; split; reflexivity. Qed.
