(* Props/C12.v — Mutex blocks of one name are mutually exclusive, re-entrant and always
   released.  Only theorem statements, closed by [exact] / one-line proofs, and Print
   Assumptions.

   Setting (Model/Mutex.v): a system is a list of threads (thread id, program); a schedule
   is a list of thread numbers; [step s i] is the next lock-delimited region of
   mutexRuntime.Eval executed by thread number i ([None]: finished or blocked in
   mutex.Lock()).  All theorems hold for EVERY schedule, any number of threads, any
   programs, any names, under the guard [good_ids]: thread ids pairwise distinct and
   non-zero (ECALRuntimeProvider.NewThreadID hands out 1, 2, 3, ... under a lock; 0 is the
   value the owner table holds for "free" - C12_zero_id_breaks_exclusion shows the guard
   is needed). *)
From Ecal Require Import Common.Sched Model.Mutex Spec.MutexSpec Proofs.MutexProofs.

(* At any moment at most one thread executes inside mutex blocks carrying the same name. *)
Theorem C12_mutual_exclusion :
  forall specs s, good_ids specs -> reachable step (init specs) s ->
    Exclusive (fun i n => exists t, nth_error (thr s) i = Some t /\ inside t n).
Proof. exact mutual_exclusion. Qed.
Print Assumptions C12_mutual_exclusion.

(* The same as a statement about what an observer sees: the entries and exits of any run
   are accepted by the Spec's occupancy automaton (an entry only when nobody else is
   inside the name, nesting by the occupant allowed, exits by the occupant only). *)
Theorem C12_trace_refines_occupancy :
  forall specs sched s, good_ids specs -> run step (init specs) sched = Some s ->
    occ_ok (map to_occ (trace_of (init specs) sched)) = true.
Proof. exact trace_refines. Qed.
Print Assumptions C12_trace_refines_occupancy.

(* The only way an unfinished thread can be unable to move: it is about to lock the mutex
   of a name that ANOTHER thread holds.  (Nothing else blocks: not other names, not the
   thread's own blocks, not the release.) *)
Theorem C12_blocked_only_by_other_holder_of_same_name :
  forall specs s i t, good_ids specs -> reachable step (init specs) s ->
    nth_error (thr s) i = Some t ->
    (step s i = None <->
     finished t \/ exists n h, pc t = PWant n /\ mtx (sh s) n = Some (Some h) /\ h <> tid t).
Proof. exact blocked_iff. Qed.
Print Assumptions C12_blocked_only_by_other_holder_of_same_name.

(* Blocks with different names do not exclude each other: a thread that wants name n can
   move whenever n's mutex is free or its own - whatever other names are held by whomever. *)
Theorem C12_different_names_independent :
  forall specs s i t n, good_ids specs -> reachable step (init specs) s ->
    nth_error (thr s) i = Some t -> wants t n ->
    (forall h, mtx (sh s) n = Some (Some h) -> h = tid t) ->
    exists s', step s i = Some s'.
Proof. intros specs s i t n Hg Hr. apply wants_enabled. eapply inv_reach; eauto. Qed.
Print Assumptions C12_different_names_independent.

(* A thread already inside a block of name n enters a nested block of n in ONE step that
   touches neither the Go mutex nor the owner table and cannot block. *)
Theorem C12_reentrant_no_block :
  forall specs s i t n rest, good_ids specs -> reachable step (init specs) s ->
    nth_error (thr s) i = Some t -> pc t = PIdle -> ops t = OEnter n :: rest -> inside t n ->
    step_ev s i =
    Some (mkState (sh s) (set_nth i (mkThread (tid t) PIdle ((n, false) :: stack t) rest) (thr s)),
          Some (EvEnter (tid t) n)).
Proof. intros specs s i t n rest Hg Hr. apply reentry_step. eapply inv_reach; eauto. Qed.
Print Assumptions C12_reentrant_no_block.

(* Released on every way out: when the body of the outermost block of name n completes
   with ANY completion kind k, the deferred function's two steps are enabled whatever the
   other threads do, the owner is 0 from the first of them on and the Go mutex is free
   after the second; the thread is then outside n.  (Leaving a re-entered block releases
   nothing: see C12_mutual_exclusion, which holds while the outer block continues.) *)
Theorem C12_released_on_every_exit :
  forall specs s i t n, good_ids specs -> reachable step (init specs) s ->
    nth_error (thr s) i = Some t ->
    (forall (k : exitk) st rest,
        pc t = PIdle -> ops t = OLeave k :: rest -> stack t = (n, true) :: st ->
        exists s1, step_ev s i = Some (s1, Some (EvLeave (tid t) n)) /\
                   own (sh s1) n = Some 0%N /\
                   nth_error (thr s1) i = Some (mkThread (tid t) (PUnlock n) st rest) /\
                   ~ In n (names st)) /\
    (pc t = PUnlock n ->
       own (sh s) n = Some 0%N /\
       exists s1, step_ev s i = Some (s1, None) /\
                  own (sh s1) n = Some 0%N /\ mtx (sh s1) n = Some None /\ fatal (sh s1) = false /\
                  (forall m, m <> n -> mtx (sh s1) m = mtx (sh s) m) /\
                  thr s1 = set_nth i (mkThread (tid t) PIdle (stack t) (ops t)) (thr s) /\
                  ~ inside t n).
Proof. exact released. Qed.
Print Assumptions C12_released_on_every_exit.

(* Leaving a RE-ENTERED block (any completion kind) releases nothing: no table changes, the
   thread is still inside the name, still holds the Go mutex and is still the owner. *)
Theorem C12_inner_exit_keeps_lock :
  forall specs s i t n (k : exitk) st rest, good_ids specs -> reachable step (init specs) s ->
    nth_error (thr s) i = Some t ->
    pc t = PIdle -> ops t = OLeave k :: rest -> stack t = (n, false) :: st ->
    step_ev s i = Some (mkState (sh s) (set_nth i (mkThread (tid t) PIdle st rest) (thr s)),
                        Some (EvLeave (tid t) n)) /\
    In n (names st) /\ mtx (sh s) n = Some (Some (tid t)) /\ own (sh s) n = Some (tid t).
Proof. exact inner_exit_step. Qed.
Print Assumptions C12_inner_exit_keeps_lock.

(* ... so a later entrant gets in: right after the release a thread waiting for n locks it. *)
Theorem C12_later_entrant_gets_in :
  forall specs s i t n j tj, good_ids specs -> reachable step (init specs) s ->
    nth_error (thr s) i = Some t -> pc t = PUnlock n ->
    nth_error (thr s) j = Some tj -> pc tj = PWant n ->
    exists s1 s2, step s i = Some s1 /\ step s1 j = Some s2 /\
                  nth_error (thr s2) j = Some (mkThread (tid tj) (PLocked n) (stack tj) (ops tj)).
Proof. intros specs s i t n j tj Hg Hr. apply later_entrant. eapply inv_reach; eauto. Qed.
Print Assumptions C12_later_entrant_gets_in.

(* mutex.Unlock() is never called on an unlocked mutex (Go: fatal error) *)
Theorem C12_never_unlocks_unlocked :
  forall specs s, good_ids specs -> reachable step (init specs) s -> fatal (sh s) = false.
Proof. exact no_fatal. Qed.
Print Assumptions C12_never_unlocks_unlocked.

(* No deadlock: when the programs nest different names in one global order (inner name >=
   outer name; equal = re-entry) and leave every block they enter - in particular after a
   holder left its block by an error - some thread can move as long as one is unfinished.
   (Two threads nesting two names in opposite orders can deadlock with any mutex; the
   property text promises release and re-entrancy, not that.) *)
Theorem C12_no_deadlock :
  forall specs s, good_ids specs -> (forall p, In p specs -> ordered [] (snd p)) ->
    reachable step (init specs) s ->
    (exists i t, nth_error (thr s) i = Some t /\ ~ finished t) ->
    exists j s', step s j = Some s'.
Proof. exact no_deadlock. Qed.
Print Assumptions C12_no_deadlock.

(* the same for programs given as trees of nested blocks with arbitrary exit kinds *)
Theorem C12_no_deadlock_trees :
  forall ts s, NoDup (map fst ts) -> Forall (fun x => x <> 0%N) (map fst ts) ->
    (forall p, In p ts -> Forall (tord 0%N) (snd p)) ->
    reachable step (init (tree_specs ts)) s ->
    (exists i t, nth_error (thr s) i = Some t /\ ~ finished t) ->
    exists j s', step s j = Some s'.
Proof. exact no_deadlock_trees. Qed.
Print Assumptions C12_no_deadlock_trees.

(* No lost update: a shared variable incremented by read / write steps that the programs
   perform only inside blocks of name n0 equals, in every reachable state, the number of
   increments done so far, and the total number of increments when all threads are done. *)
Theorem C12_no_lost_update :
  forall specs n0 sched s, good_ids specs ->
    (forall p, In p specs -> guarded n0 [] (snd p)) ->
    run step (init specs) sched = Some s ->
    (ctr (sh s) + N.of_nat (pending s) = N.of_nat (total_incs specs))%N /\
    ((forall i t, nth_error (thr s) i = Some t -> finished t) ->
     ctr (sh s) = N.of_nat (total_incs specs)).
Proof. exact no_lost_update. Qed.
Print Assumptions C12_no_lost_update.

Theorem C12_no_lost_update_trees :
  forall ts n0 sched s, NoDup (map fst ts) -> Forall (fun x => x <> 0%N) (map fst ts) ->
    (forall p, In p ts -> Forall (tguard n0 false) (snd p)) ->
    run step (init (tree_specs ts)) sched = Some s ->
    (forall i t, nth_error (thr s) i = Some t -> finished t) ->
    ctr (sh s) = N.of_nat (total_incs (tree_specs ts)).
Proof. exact no_lost_update_trees. Qed.
Print Assumptions C12_no_lost_update_trees.

(* ---------------------------------------------------------------- non-vacuity *)

Definition obs (s : state) : N * option (option N) * option N * bool * list pcs :=
  (ctr (sh s), mtx (sh s) 1%N, own (sh s) 1%N, forallb finishedb (thr s), map pc (thr s)).

(* two threads, each: mutex 1 { mutex 1 { counter++ ; raise } }  (error leaves both blocks) *)
Definition ex_prog : list blk := [BMutex 1 [BMutex 1 [BInc] XError] XError].
Definition ex_specs : list (N * list op) := tree_specs [(1%N, ex_prog); (2%N, ex_prog)].

(* both look the name up, thread 0 locks: thread 1 is blocked in mutex.Lock() *)
Example C12_example_second_thread_blocks :
  option_map (fun s => (obs s, step s 1)) (run step (init ex_specs) [0; 1; 0]%nat)
  = Some ((0%N, Some (Some 1%N), None, false, [PLocked 1%N; PWant 1%N]), None).
Proof. vm_compute. reflexivity. Qed.

(* thread 0 runs on: registers as owner, re-enters, increments, the error leaves the inner
   and the outer block, owner cleared, mutex unlocked; now thread 1 gets in and does the
   same: counter 2, owner 0, mutex free, everybody finished *)
Example C12_example_released_after_error :
  option_map obs (run step (init ex_specs)
                      ([0; 1; 0] ++ [0; 0; 0; 0; 0; 0; 0] ++ [1; 1; 1; 1; 1; 1; 1; 1])%nat)
  = Some (2%N, Some None, Some 0%N, true, [PIdle; PIdle]).
Proof. vm_compute. reflexivity. Qed.

Example C12_example_trace :
  map to_occ (trace_of (init ex_specs)
                ([0; 1; 0] ++ [0; 0; 0; 0; 0; 0; 0] ++ [1; 1; 1; 1; 1; 1; 1; 1])%nat)
  = [OccEnter 1 1; OccEnter 1 1; OccLeave 1 1; OccLeave 1 1;
     OccEnter 2 1; OccEnter 2 1; OccLeave 2 1; OccLeave 2 1]%N.
Proof. vm_compute. reflexivity. Qed.

(* the counter model does lose updates without the block: two bare increments, reads first *)
Example C12_example_lost_update_without_mutex :
  option_map obs (run step (init [(1%N, [OInc]); (2%N, [OInc])]) [0; 1; 0; 1]%nat)
  = Some (1%N, None, None, true, [PIdle; PIdle]).
Proof. vm_compute. reflexivity. Qed.

(* the guard is needed: with thread id 0 (what the owner table holds for "free") a second
   thread can be inside the same name at the same time *)
Definition bad_specs : list (N * list op) :=
  [(0%N, [OEnter 1; OLeave XNormal; OEnter 1; OLeave XNormal]%N);
   (1%N, [OEnter 1; OLeave XNormal]%N)].
Definition bad_sched : list nat := [0; 0; 0; 0; 0; 1; 1; 0; 1]%nat.

Theorem C12_zero_id_breaks_exclusion :
  exists s, run step (init bad_specs) bad_sched = Some s /\
            ~ Exclusive (fun i n => exists t, nth_error (thr s) i = Some t /\ inside t n) /\
            occ_ok (map to_occ (trace_of (init bad_specs) bad_sched)) = false.
Proof.
  destruct (run step (init bad_specs) bad_sched) as [s|] eqn:E; [|vm_compute in E; discriminate].
  exists s. split; [reflexivity|]. split.
  - intros H.
    assert (Hs : option_map (fun s => map (fun t => names (stack t)) (thr s))
                            (run step (init bad_specs) bad_sched) = Some [[1%N]; [1%N]])
      by (vm_compute; reflexivity).
    rewrite E in Hs. simpl in Hs. injection Hs as Hs.
    destruct (thr s) as [|t0 [|t1 [|t2 r]]]; try discriminate.
    injection Hs as H0 H1.
    assert (X : 0%nat = 1%nat).
    { apply (H 0%nat 1%nat 1%N).
      - exists t0. split; [reflexivity|]. unfold inside. rewrite H0. left; reflexivity.
      - exists t1. split; [reflexivity|]. unfold inside. rewrite H1. left; reflexivity. }
    discriminate.
  - vm_compute. reflexivity.
Qed.
Print Assumptions C12_zero_id_breaks_exclusion.
