(* Props/C20_history.v — refutation of C20_scan_finds_archive for the UNREPAIRED scan
   (Model/PackScanOld.v) with the constants of pack.go (b1 = 4096, b2 = 28, the ECALSRC
   marker).  Both witnesses satisfy every hypothesis of the theorem; they were replayed on
   the implementation before the repair and stay first in the harness corpus. *)
From Ecal Require Import Common.Bytes Common.Outcome Model.PackScan Model.PackScanOld Spec.PackSpec.

Definition old_b1 : nat := N.to_nat 4096.
Definition old_b2 : nat := N.to_nat 28.
Definition some_zip : bytes := [80; 75; 3; 4; 20; 0; 8; 0; 8; 0].

Lemma some_zip_is_zip : is_zip some_zip.
Proof. exists [3; 4; 20; 0; 8; 0; 8; 0]. reflexivity. Qed.

(* a binary of 4095 zero bytes: the marker's leading newline ends the first block, the block
   that follows has no complete marker - the packed file behaves like the plain interpreter *)
Theorem C20_old_marker_missed :
  exists B Z, unambiguous ECAL_MARKER B /\ is_zip Z /\
              old_scan ECAL_MARKER old_b1 old_b2 (packed ECAL_MARKER B Z) = Ok None.
Proof.
  exists (repeat 0 (N.to_nat 4095)), some_zip.
  split; [apply find_sub_none; vm_compute; reflexivity|].
  split; [exact some_zip_is_zip | vm_compute; reflexivity].
Qed.
Print Assumptions C20_old_marker_missed.

(* 4107 bytes '#': the marker ends exactly with the 4096+28 candidate window and the white
   space skip indexes past it *)
Theorem C20_old_scan_panics :
  exists B Z, unambiguous ECAL_MARKER B /\ is_zip Z /\
              is_panic (old_scan ECAL_MARKER old_b1 old_b2 (packed ECAL_MARKER B Z)) = true.
Proof.
  exists (repeat 35 (N.to_nat 4107)), some_zip.
  split; [apply find_sub_none; vm_compute; reflexivity|].
  split; [exact some_zip_is_zip | vm_compute; reflexivity].
Qed.
Print Assumptions C20_old_scan_panics.

(* 4108 bytes '#': the marker straddles two candidate windows *)
Theorem C20_old_marker_straddles :
  exists B Z, unambiguous ECAL_MARKER B /\ is_zip Z /\
              old_scan ECAL_MARKER old_b1 old_b2 (packed ECAL_MARKER B Z) = Ok None.
Proof.
  exists (repeat 35 (N.to_nat 4108)), some_zip.
  split; [apply find_sub_none; vm_compute; reflexivity|].
  split; [exact some_zip_is_zip | vm_compute; reflexivity].
Qed.
Print Assumptions C20_old_marker_straddles.
