(* Props/C05_interp.v — C05 (lexical scoping, functions, containers) stated on the UNIFIED
   interpreter model Model/Interp.v (the model that evaluates the real parser's trees and is tied to
   the real interpreter by the C06 correspondence stream on whole programs).

   Vocabulary (Proofs/InterpScope.v, Proofs/InterpScope2.v; all plain structural definitions):
     binding st i x          the value of name x in the variable table of scope i ITSELF (no parents)
     parent_of st i          the parent index of scope i
     scope_chain st s        the parent chain s = s0, s1, ..., sk (root); C05_interp_scope_chain says it
                             IS the plain recursion  s :: scope_chain (parent s)
     lookup_chain st x c     (scope, value) of the FIRST member of the list c that defines x;
                             C05_interp_lookup_chain_is_first says so without recursion
     assign_target st s x    the first scope on the chain of s that defines x, else s
     set_var st t x v        st with variable x of scope t set to v; C05_interp_set_var_frame is the
                             frame condition: every other (scope, name) binding, every scope's
                             name / parent / children, all arrays, maps, functions, instance states
                             are unchanged
     simple_name x           x contains no '.'
     scopes_acyclic st       the parent of a scope has a smaller index; part of the invariant st_ok
                             (C05_interp_st_ok_acyclic), which every state reachable by eval from the
                             initial state satisfies (Props/C06_interp_wf.v)
     frame_state st f vars   st plus ONE new scope (index = |scopes|) with parent cl_scope f and the
                             variable table vars, plus one new instance state
   Every theorem: for all implementations NO of float64, all states with an acyclic scope arena
   (hence all st_ok states), all allocated scope indices, all names without dots, all values. *)
From Coq Require Import List String NArith ZArith Bool Arith Lia.
From Ecal Require Import Common.Bytes Common.Ast gen.Tokens Spec.ParseSpec Model.Interp Proofs.InterpShape
  Proofs.InterpInv Proofs.InterpInv2 Proofs.InterpInv8 Proofs.InterpScope Proofs.InterpScope2 Proofs.InterpScope3.
Import ListNotations.
Local Open Scope string_scope.
Local Open Scope list_scope.
Local Open Scope nat_scope.

(* ================================================================ the vocabulary means what it says *)
Theorem C05_interp_st_ok_acyclic : forall (NO : NumOps) (st : state), st_ok st -> scopes_acyclic st.
Proof. exact @st_ok_acyclic. Qed.
Print Assumptions C05_interp_st_ok_acyclic.

(* the chain of s is s followed by the chain of its parent; its members are allocated scopes with
   indices <= s (so: never a scope created later, a sibling, a child, a call frame); it ends in a root *)
Theorem C05_interp_scope_chain :
  forall (NO : NumOps) (st : state) (s : nat), scopes_acyclic st -> s < length (st_scopes st) ->
    scope_chain st s = s :: match parent_of st s with Some p => scope_chain st p | None => [] end /\
    (forall j, In j (scope_chain st s) -> j <= s /\ j < length (st_scopes st)) /\
    (forall d, parent_of st (last (scope_chain st s) d) = None).
Proof. exact @scope_chain_spec. Qed.
Print Assumptions C05_interp_scope_chain.

Theorem C05_interp_lookup_chain_is_first :
  forall (NO : NumOps) (st : state) (x : bytes) (c : list nat),
    (forall t v, lookup_chain st x c = Some (t, v) <->
                 exists pre post, c = pre ++ t :: post /\ Forall (fun j => binding st j x = None) pre /\
                                  binding st t x = Some v) /\
    (lookup_chain st x c = None <-> Forall (fun j => binding st j x = None) c).
Proof. exact @lookup_chain_spec. Qed.
Print Assumptions C05_interp_lookup_chain_is_first.

Theorem C05_interp_set_var_frame :
  forall (NO : NumOps) (st : state) (t : nat) (x : bytes) (v : value), t < length (st_scopes st) ->
    let st' := set_var st t x v in
    (forall j y, binding st' j y = if (Nat.eqb j t && bytes_eqb x y)%bool then Some v else binding st j y) /\
    (forall j, scope_shape st' j = scope_shape st j) /\
    (forall s, scope_chain st' s = scope_chain st s) /\
    length (st_scopes st') = length (st_scopes st) /\
    st_arrs st' = st_arrs st /\ st_maps st' = st_maps st /\ st_funs st' = st_funs st /\ st_is st' = st_is st /\
    (scopes_acyclic st -> scopes_acyclic st').
Proof. exact @set_var_frame. Qed.
Print Assumptions C05_interp_set_var_frame.

(* ================================================================ 1. names resolve to the nearest enclosing definition *)
(* getValue / the (value, found) pair of the scope's lookup: the binding in the FIRST scope of the
   parent chain that defines x; "not found" (null, false) iff none does; reading changes nothing *)
Theorem C05_interp_lookup_nearest :
  forall (NO : NumOps) (st : state) (s : nat) (x : bytes),
    scopes_acyclic st -> s < length (st_scopes st) -> simple_name x = true ->
    lookup_simple s x st = (ROk (found_of (lookup_chain st x (scope_chain st s))), st) /\
    get_value s x st = (ROk (value_of (lookup_chain st x (scope_chain st s))), st).
Proof. exact @lookup_nearest. Qed.
Print Assumptions C05_interp_lookup_nearest.

(* ================================================================ 2. assignment *)
(* `x := v` from scope s succeeds and changes exactly variable x of scope t (frame:
   C05_interp_set_var_frame), t = the nearest enclosing scope that defines x, else s itself *)
Theorem C05_interp_assign_nearest_or_define_here :
  forall (NO : NumOps) (st : state) (s : nat) (x : bytes) (v : value),
    scopes_acyclic st -> s < length (st_scopes st) -> simple_name x = true ->
    let t := assign_target st s x in
    set_value s x v st = (ROk tt, set_var st t x v) /\
    t < length (st_scopes st) /\
    ((exists j, In j (scope_chain st s) /\ binding st j x <> None) ->
     exists pre post, scope_chain st s = pre ++ t :: post /\
                      Forall (fun j => binding st j x = None) pre /\ binding st t x <> None) /\
    ((forall j, In j (scope_chain st s) -> binding st j x = None) -> t = s).
Proof. exact @assign_nearest_or_define_here. Qed.
Print Assumptions C05_interp_assign_nearest_or_define_here.

(* ================================================================ 3. let *)
(* SetLocalValue(x, nil) defines x := null in s ITSELF whatever the outer scopes define; followed
   by the assignment of `let x := v` the result is exactly "x of s is v"; and in any later state in
   which s still defines x the assignment writes s.  By the frame condition an outer x keeps its value. *)
Theorem C05_interp_let_defines_locally :
  forall (NO : NumOps) (st : state) (s : nat) (x : bytes) (v : value),
    scopes_acyclic st -> s < length (st_scopes st) -> simple_name x = true ->
    set_local_nil s x st = (ROk tt, set_var st s x VNull) /\
    bind (set_local_nil s x) (fun _ => set_value s x v) st = (ROk tt, set_var st s x v) /\
    (forall st2, scopes_acyclic st2 -> s < length (st_scopes st2) -> binding st2 s x <> None ->
                 set_value s x v st2 = (ROk tt, set_var st2 s x v)).
Proof. exact @let_defines_locally. Qed.
Print Assumptions C05_interp_let_defines_locally.

(* ================================================================ 4. write, then read *)
Theorem C05_interp_write_then_read :
  forall (NO : NumOps) (st : state) (s : nat) (x : bytes) (v : value),
    scopes_acyclic st -> s < length (st_scopes st) -> simple_name x = true ->
    bind (set_value s x v) (fun _ => get_value s x) st = (ROk v, set_var st (assign_target st s x) x v).
Proof. exact @write_then_read_same. Qed.
Print Assumptions C05_interp_write_then_read.

(* every other read after variable x of scope t was written (first_on st x c t: t is on c and no
   member of c before t defines x): another name reads as before; the same name reads the new value
   exactly from the scopes for which t is the nearest candidate, and as before from all others *)
Theorem C05_interp_read_after_write :
  forall (NO : NumOps) (st : state) (t : nat) (x : bytes) (v : value) (s2 : nat) (y : bytes),
    scopes_acyclic st -> t < length (st_scopes st) -> s2 < length (st_scopes st) -> simple_name y = true ->
    let st' := set_var st t x v in
    (x <> y -> fst (get_value s2 y st') = fst (get_value s2 y st)) /\
    (x = y -> first_on st x (scope_chain st s2) t -> fst (get_value s2 y st') = ROk v) /\
    (x = y -> ~ first_on st x (scope_chain st s2) t -> fst (get_value s2 y st') = fst (get_value s2 y st)) /\
    snd (get_value s2 y st') = st'.
Proof. exact @read_after_write. Qed.
Print Assumptions C05_interp_read_after_write.

(* nothing defined or written in a scope t is visible from a scope whose chain does not contain t
   (t an inner block, a sibling, a call frame ...) *)
Theorem C05_interp_invisible_outside :
  forall (NO : NumOps) (st : state) (t : nat) (x : bytes) (v : value) (s2 : nat) (y : bytes),
    scopes_acyclic st -> t < length (st_scopes st) -> s2 < length (st_scopes st) -> simple_name y = true ->
    ~ In t (scope_chain st s2) ->
    get_value s2 y (set_var st t x v) = (fst (get_value s2 y st), set_var st t x v).
Proof. exact @write_invisible_outside. Qed.
Print Assumptions C05_interp_invisible_outside.

(* ================================================================ 5. function calls *)
(* function.Run for a closure whose parameters bind without evaluation (identifiers, and presets
   whose argument is supplied: static_names): the body is evaluated ONCE, in the scope with the NEW
   index |scopes|, with a NEW instance state, in the state frame_state st f (param_vars ...):
   nothing else of st is changed before the body starts.  ev, the evaluator of the body, is
   arbitrary.  The caller's scope is not an input of run_closure / exec_function at all. *)
Theorem C05_interp_call_scope :
  forall (NO : NumOps) (ev : evalT) (f : closure) (args : list value) (inst : nat) (st : state)
         (params body : node) (names : list bytes),
    scopes_acyclic st ->
    nth_error (n_children (cl_decl f)) (decl_offset (cl_decl f)) = Some params ->
    nth_error (n_children (cl_decl f)) (S (decl_offset (cl_decl f))) = Some body ->
    static_names (length args) 0 (n_children params) = Some names ->
    run_closure ev f args inst st =
    call_outcome (ev (S (decl_offset (cl_decl f)) :: cl_path f) body (length (st_scopes st)) (length (st_is st))
                     (frame_state st f (param_vars 0 names args []))).
Proof. exact @run_closure_frame. Qed.
Print Assumptions C05_interp_call_scope.

Theorem C05_interp_call_scope_exec :
  forall (NO : NumOps) (ev : evalT) (id : nat) (self : list nat) (f : closure) (args : list value) (inst : nat)
         (st : state) (params body : node) (names : list bytes),
    scopes_acyclic st ->
    nth_error (st_funs st) id = Some f ->
    nth_error (n_children (cl_decl f)) (decl_offset (cl_decl f)) = Some params ->
    nth_error (n_children (cl_decl f)) (S (decl_offset (cl_decl f))) = Some body ->
    static_names (length args) 0 (n_children params) = Some names ->
    exec_function ev (FClosure id) self args inst st =
    match call_outcome (ev (S (decl_offset (cl_decl f)) :: cl_path f) body (length (st_scopes st)) (length (st_is st))
                           (frame_state st f (param_vars 0 names args []))) with
    | (ROk r, st') => (ROk (fst r, match snd r with Some EPlain => e_runtime | x => x end), st')
    | (RErr e, st') => (RErr e, st')
    | (RPanic s, st') => (RPanic s, st')
    | (RFuel, st') => (RFuel, st')
    | (RUnmod w, st') => (RUnmod w, st')
    | (RInvalid w, st') => (RInvalid w, st')
    end.
Proof. exact @exec_function_frame. Qed.
Print Assumptions C05_interp_call_scope_exec.

(* the frame: its parent is the DECLARATION scope, its variables are exactly vars, its chain is
   itself followed by the declaration scope's chain, every older scope and the heap are as in st *)
Theorem C05_interp_call_frame :
  forall (NO : NumOps) (st : state) (f : closure) (vars : list (bytes * value)),
    scopes_acyclic st -> cl_scope f < length (st_scopes st) ->
    let fvs := length (st_scopes st) in
    let st' := frame_state st f vars in
    parent_of st' fvs = Some (cl_scope f) /\
    vars_of st' fvs = vars /\
    scope_chain st' fvs = fvs :: scope_chain st (cl_scope f) /\
    (forall j, j < fvs -> nth_error (st_scopes st') j = nth_error (st_scopes st) j) /\
    st_arrs st' = st_arrs st /\ st_maps st' = st_maps st /\ st_funs st' = st_funs st /\
    scopes_acyclic st'.
Proof. exact @frame_state_spec. Qed.
Print Assumptions C05_interp_call_frame.

(* a name read in the frame is the parameter of that name, else what the declaration scope sees *)
Theorem C05_interp_call_reads_definition_scope :
  forall (NO : NumOps) (st : state) (f : closure) (vars : list (bytes * value)) (y : bytes),
    scopes_acyclic st -> cl_scope f < length (st_scopes st) -> simple_name y = true ->
    get_value (length (st_scopes st)) y (frame_state st f vars) =
    (match v_get y vars with
     | Some v => ROk v
     | None => fst (get_value (cl_scope f) y st)
     end, frame_state st f vars).
Proof. exact @frame_state_read. Qed.
Print Assumptions C05_interp_call_reads_definition_scope.

(* the frame's variables are invisible from every scope that existed at the call (fresh locals per
   call, nothing defined in a call is visible outside it) *)
Theorem C05_interp_call_frame_invisible :
  forall (NO : NumOps) (st : state) (f : closure) (vars : list (bytes * value)) (s : nat) (y : bytes),
    scopes_acyclic st -> cl_scope f < length (st_scopes st) -> s < length (st_scopes st) -> simple_name y = true ->
    get_value s y (frame_state st f vars) = (fst (get_value s y st), frame_state st f vars).
Proof. exact @frame_invisible. Qed.
Print Assumptions C05_interp_call_frame_invisible.

(* a default value is evaluated in the declaration scope dvs when the argument is missing *)
Theorem C05_interp_call_default_in_definition_scope :
  forall (NO : NumOps) (ev : evalT) (ppath : list nat) (idx : nat) (p c0 c1 : node) (rest r : list node)
         (args : list value) (fvs dvs inst : nat) (st : state),
    is_name p NodeIDENTIFIER = false -> is_name p NodePRESET = true -> n_children p = c0 :: c1 :: rest ->
    length args <= idx ->
    bind_params ev ppath idx (p :: r) args fvs dvs inst st =
    bind (ev (1 :: idx :: ppath) c1 dvs inst)
         (fun v => bind (attempt (set_value fvs (n_val c0) v))
                        (fun _ => bind_params ev ppath (S idx) r args fvs dvs inst)) st.
Proof. exact @bind_params_default. Qed.
Print Assumptions C05_interp_call_default_in_definition_scope.

(* a function declaration records the scope it is evaluated in as the declaration scope *)
Theorem C05_interp_eval_func_closure :
  forall (NO : NumOps) (f : nat) (path : list nat) (v : bytes) (i a : bool) (l : nat) (h : node) (cs : list node)
         (sc inst : nat) (st : state),
    eval (S f) path (Node NodeFUNC v i a l (h :: cs)) sc inst st =
    let n := Node NodeFUNC v i a l (h :: cs) in
    let name := if is_name h NodeIDENTIFIER then n_val h else [] in
    let id := length (st_funs st) in
    let st1 := mkSt (st_scopes st) (st_arrs st) (st_maps st) (st_funs st ++ [mkClo name n path sc]) (st_is st) in
    match name with
    | [] => (ROk (VFun id), st1)
    | _ => match attempt (set_value sc name (VFun id)) st1 with
           | (ROk _, st2) => (ROk (VFun id), st2)
           | (RErr e, st2) => (RErr e, st2)
           | (RPanic s, st2) => (RPanic s, st2)
           | (RFuel, st2) => (RFuel, st2)
           | (RUnmod w, st2) => (RUnmod w, st2)
           | (RInvalid w, st2) => (RInvalid w, st2)
           end
    end.
Proof. exact @eval_func_closure. Qed.
Print Assumptions C05_interp_eval_func_closure.

(* ================================================================ 6. containers are references, scalars are values *)
(* x (seen from s1) and y (seen from s2) hold the SAME map: `x.k := v` succeeds, changes that one
   map object and nothing else, and `y.k` then reads v *)
Theorem C05_interp_containers_by_reference :
  forall (NO : NumOps) (st : state) (s1 : nat) (x : bytes) (s2 : nat) (y k : bytes) (v : value) (id : nat)
         (m : list (value * value)),
    scopes_acyclic st -> s1 < length (st_scopes st) -> s2 < length (st_scopes st) ->
    simple_name x = true -> simple_name y = true -> simple_name k = true ->
    (exists t, lookup_chain st x (scope_chain st s1) = Some (t, VMap id)) ->
    (exists t, lookup_chain st y (scope_chain st s2) = Some (t, VMap id)) ->
    nth_error (st_maps st) id = Some m ->
    let st' := set_map_entry st id (m_set (map_field_key m k) v m) in
    set_value s1 (dotted x k) v st = (ROk tt, st') /\
    get_value s2 (dotted y k) st' = (ROk v, st') /\
    st_scopes st' = st_scopes st /\ st_arrs st' = st_arrs st /\ st_funs st' = st_funs st /\ st_is st' = st_is st /\
    length (st_maps st') = length (st_maps st) /\
    (forall id', id' <> id -> nth_error (st_maps st') id' = nth_error (st_maps st) id').
Proof. exact @map_by_reference. Qed.
Print Assumptions C05_interp_containers_by_reference.

(* the same for lists: x and y hold slices of the SAME array that both contain index k *)
Theorem C05_interp_lists_by_reference :
  forall (NO : NumOps) (st : state) (s1 : nat) (x : bytes) (s2 : nat) (y k : bytes) (v : value)
         (a len len2 : nat) (cells : list value) (i : Z),
    scopes_acyclic st -> s1 < length (st_scopes st) -> s2 < length (st_scopes st) ->
    simple_name x = true -> simple_name y = true -> simple_name k = true ->
    (exists t, lookup_chain st x (scope_chain st s1) = Some (t, VList a len)) ->
    (exists t, lookup_chain st y (scope_chain st s2) = Some (t, VList a len2)) ->
    nth_error (st_arrs st) a = Some cells -> len <= length cells -> len2 <= length cells ->
    list_index len k = Some i -> list_index len2 k = Some i ->
    let st' := set_arr_cells st a (list_upd cells (Z.to_nat i) v) in
    set_value s1 (dotted x k) v st = (ROk tt, st') /\
    get_value s2 (dotted y k) st' = (ROk v, st') /\
    st_scopes st' = st_scopes st /\ st_maps st' = st_maps st /\ st_funs st' = st_funs st /\ st_is st' = st_is st /\
    length (st_arrs st') = length (st_arrs st) /\
    (forall a', a' <> a -> nth_error (st_arrs st') a' = nth_error (st_arrs st) a').
Proof. exact @list_by_reference. Qed.
Print Assumptions C05_interp_lists_by_reference.

(* y := x; x := v2; y  reads what x held first (for a container value: the same reference) *)
Theorem C05_interp_copy_is_by_value :
  forall (NO : NumOps) (st : state) (s : nat) (x y : bytes) (v2 : value),
    scopes_acyclic st -> s < length (st_scopes st) -> simple_name x = true -> simple_name y = true -> x <> y ->
    let w := value_of (lookup_chain st x (scope_chain st s)) in
    fst (bind (set_value s y w) (fun _ => bind (set_value s x v2) (fun _ => get_value s y)) st) = ROk w.
Proof. exact @copy_is_by_value. Qed.
Print Assumptions C05_interp_copy_is_by_value.

(* ================================================================ 7. the statements of eval *)
(* `x := e` for an ARBITRARY validated right side e, from any ok state: e is evaluated once, then x
   is written in the nearest enclosing definition (as the scopes are AFTER e), else defined in sc *)
Theorem C05_interp_eval_assign :
  forall (NO : NumOps) (f : nat) (path : list nat) (av : bytes) (ai aa : bool) (al : nat)
         (x : bytes) (li la : bool) (ll : nat) (r : node) (sc inst : nat) (st : state),
    tok r = true -> st_ok st -> sc_ok st sc -> is_ok st inst -> simple_name x = true ->
    eval (S (S (S f))) path (Node NodeASSIGN av ai aa al [Node NodeIDENTIFIER x li la ll []; r]) sc inst st =
    match eval (S (S f)) (1 :: path) r sc inst st with
    | (ROk v, st2) => (ROk VNull, set_var st2 (assign_target st2 sc x) x v)
    | other => other
    end.
Proof. exact @eval_assign_nearest. Qed.
Print Assumptions C05_interp_eval_assign.

(* `let x := e`.  FULL statement: "the value of e ends up in x of sc itself".  PARTIAL: proved up to
   the explicit hypothesis that sc still defines x after e was evaluated (no operation of the model
   removes a variable, but that monotonicity through all of eval is not proved here).  Note that e
   is evaluated in st1, AFTER x was set to null in sc: `let x := x + 1` reads the new local null,
   not an outer x (as rt_assign.go does: the left side is evaluated first). *)
Theorem C05_interp_eval_let_partial :
  forall (NO : NumOps) (f : nat) (path : list nat) (av : bytes) (ai aa : bool) (al : nat)
         (lv : bytes) (li la : bool) (ll : nat) (x : bytes) (xi xa : bool) (xl : nat) (r : node)
         (sc inst : nat) (st : state),
    tok r = true -> st_ok st -> sc_ok st sc -> is_ok st inst -> simple_name x = true ->
    let st1 := set_var st sc x VNull in
    st_ok st1 /\
    eval (S (S (S (S f)))) path
         (Node NodeASSIGN av ai aa al [Node NodeLET lv li la ll [Node NodeIDENTIFIER x xi xa xl []]; r]) sc inst st =
    match eval (S (S (S f))) (1 :: path) r sc inst st1 with
    | (ROk v, st2) => (ROk VNull, set_var st2 (assign_target st2 sc x) x v)
    | other => other
    end /\
    (forall v st2, eval (S (S (S f))) (1 :: path) r sc inst st1 = (ROk v, st2) ->
                   binding st2 sc x <> None -> assign_target st2 sc x = sc).
Proof. exact @eval_let_local_partial. Qed.
Print Assumptions C05_interp_eval_let_partial.

(* ================================================================ non-vacuity *)
Fixpoint z_digits5 (acc : Z) (s : bytes) : option Z :=
  match s with
  | [] => Some acc
  | c :: r => if (N.leb 48 c && N.leb c 57)%N then z_digits5 (acc * 10 + Z.of_N (c - 48)%N)%Z r else None
  end.
Definition z_ops5 : NumOps :=
  Build_NumOps Z (fun s => match s with [] => None | _ => z_digits5 0%Z s end) (fun _ => None)
               Z.add Z.sub Z.mul Z.quot Z.div Z.opp (fun z => z) (fun z => z)
               Z.ltb Z.leb Z.eqb (fun _ => None).

Definition nX : bytes := [120%N].   (* x *)
Definition nY : bytes := [121%N].   (* y *)
Definition nM : bytes := [109%N].   (* m *)
Definition nA : bytes := [97%N].    (* a *)
Definition nK : bytes := [107%N].   (* k *)

(* global { x = 1, m = map#0 } > block 1 { y = 2, a = map#0 } > block 2 { } ; block 3 { x = 9 } is a
   sibling of block 1 *)
Definition st_ex : @state z_ops5 :=
  @mkSt z_ops5
    [ @mkScope z_ops5 [] None [1; 3] [(nX, @VNum z_ops5 1%Z); (nM, @VMap z_ops5 0)];
      @mkScope z_ops5 [1] (Some 0) [2] [(nY, @VNum z_ops5 2%Z); (nA, @VMap z_ops5 0)];
      @mkScope z_ops5 [2] (Some 1) [] [];
      @mkScope z_ops5 [3] (Some 0) [] [(nX, @VNum z_ops5 9%Z)] ]
    [] [[]] [] [[]].

Example C05_interp_ex_acyclic : @scopes_acyclic z_ops5 st_ex.
Proof.
  intros i p H. unfold parent_of in H.
  do 4 (destruct i as [|i]; [vm_compute in H; try discriminate; injection H as <-; lia|]).
  destruct i; vm_compute in H; discriminate.
Qed.

(* the chain of block 2, and x resolved through two levels; the sibling's x = 9 is not seen *)
Example C05_interp_ex_lookup :
  @scope_chain z_ops5 st_ex 2 = [2; 1; 0] /\
  @lookup_chain z_ops5 st_ex nX (@scope_chain z_ops5 st_ex 2) = Some (0, @VNum z_ops5 1%Z) /\
  fst (@get_value z_ops5 2 nX st_ex) = ROk (@VNum z_ops5 1%Z) /\
  @lookup_simple z_ops5 2 nK st_ex = (ROk (@VNull z_ops5, false), st_ex).
Proof. repeat split; vm_compute; reflexivity. Qed.

(* x := 7 from block 2 writes the GLOBAL x; k := 7 from block 2 defines k in block 2;
   let x from block 2 defines x in block 2 and the global x keeps 1 *)
Example C05_interp_ex_assign :
  @assign_target z_ops5 st_ex 2 nX = 0 /\ @assign_target z_ops5 st_ex 2 nK = 2 /\
  (exists j, In j (@scope_chain z_ops5 st_ex 2) /\ @binding z_ops5 st_ex j nX <> None) /\
  (forall j, In j (@scope_chain z_ops5 st_ex 2) -> @binding z_ops5 st_ex j nK = None) /\
  (let st' := snd (@bind z_ops5 _ _ (@set_local_nil z_ops5 2 nX) (fun _ => @set_value z_ops5 2 nX (@VNum z_ops5 5%Z)) st_ex) in
   @binding z_ops5 st' 2 nX = Some (@VNum z_ops5 5%Z) /\ @binding z_ops5 st' 0 nX = Some (@VNum z_ops5 1%Z)).
Proof.
  split; [vm_compute; reflexivity|]. split; [vm_compute; reflexivity|]. split.
  - exists 0. split; [vm_compute; auto|vm_compute; discriminate].
  - split; [|vm_compute; auto].
    intros j H. vm_compute in H. destruct H as [<-|[<-|[<-|[]]]]; vm_compute; reflexivity.
Qed.

(* t = global is first_on for x from block 2 but hidden from block 3 (its own x) *)
Example C05_interp_ex_first_on :
  @first_on z_ops5 st_ex nX (@scope_chain z_ops5 st_ex 2) 0 /\
  ~ @first_on z_ops5 st_ex nX (@scope_chain z_ops5 st_ex 3) 0 /\
  ~ In 2 (@scope_chain z_ops5 st_ex 0).
Proof.
  split; [|split].
  - exists [2; 1], []. split; [vm_compute; reflexivity|]. repeat constructor.
  - intros (pre & post & E & F). vm_compute in E.
    destruct pre as [|a [|b pre]]; cbn in E; try discriminate.
    + injection E as Ea _. subst a. inversion F as [|? ? H _]; subst. vm_compute in H. discriminate.
    + injection E as _ _ E. destruct pre; discriminate.
  - vm_compute. intros [H|[]]. discriminate.
Qed.

(* aliasing: m (global) and a (block 1) hold map#0; m.k := 5 from block 2 is read as a.k *)
Example C05_interp_ex_alias :
  (exists t, @lookup_chain z_ops5 st_ex nM (@scope_chain z_ops5 st_ex 2) = Some (t, @VMap z_ops5 0)) /\
  (exists t, @lookup_chain z_ops5 st_ex nA (@scope_chain z_ops5 st_ex 1) = Some (t, @VMap z_ops5 0)) /\
  nth_error (@st_maps z_ops5 st_ex) 0 = Some [] /\
  fst (@bind z_ops5 _ _ (@set_value z_ops5 2 (dotted nM nK) (@VNum z_ops5 5%Z))
             (fun _ => @get_value z_ops5 1 (dotted nA nK)) st_ex) = ROk (@VNum z_ops5 5%Z).
Proof.
  split; [exists 0; vm_compute; reflexivity|]. split; [exists 1; vm_compute; reflexivity|].
  split; vm_compute; reflexivity.
Qed.

(* a parameter list  (a, k = 3)  called with two arguments binds statically; with one argument the
   default must be evaluated (C05_interp_call_default_in_definition_scope) *)
Definition ps_ex : list node :=
  [Nd "identifier" nA 1 1 [];
   Nd "preset" [] 0 1 [Nd "identifier" nK 1 1 []; Nd "number" [51%N] 0 1 []]].
Example C05_interp_ex_params :
  static_names 2 0 ps_ex = Some [nA; nK] /\ static_names 1 0 ps_ex = None /\
  @param_vars z_ops5 0 [nA; nK] [@VNum z_ops5 7%Z; @VNum z_ops5 8%Z; @VNum z_ops5 9%Z] [] =
  [(nA, @VNum z_ops5 7%Z); (nK, @VNum z_ops5 8%Z)] /\
  @param_vars z_ops5 0 [nA; nK] [@VNum z_ops5 7%Z] [] = [(nA, @VNum z_ops5 7%Z); (nK, @VNull z_ops5)].
Proof. repeat split; vm_compute; reflexivity. Qed.

(* `let x := 1` in a block whose enclosing global scope defines x = 5: all hypotheses of
   C05_interp_eval_let_partial hold (the state is produced by eval itself), the local x becomes 1,
   the global x stays 5 *)
Definition st_blk : @state z_ops5 :=
  snd (@new_child z_ops5 0 [7]
         (snd (@eval z_ops5 10 [] (Nd ":=" [] 0 1 [Nd "identifier" nX 1 1 []; Nd "number" [53%N] 0 1 []]) 0 0
                     (@init_state z_ops5)))).
Example C05_interp_ex_let :
  @st_ok z_ops5 st_blk /\ @sc_ok z_ops5 st_blk 1 /\ @is_ok z_ops5 st_blk 0 /\
  @tok z_ops5 (Nd "number" [49%N] 0 1 []) = true /\
  @binding z_ops5 st_blk 0 nX = Some (@VNum z_ops5 5%Z) /\
  (let r := @eval z_ops5 10 [] (Nd ":=" [] 0 1 [Nd "let" [] 0 1 [Nd "identifier" nX 1 1 []]; Nd "number" [49%N] 0 1 []])
                  1 0 st_blk in
   fst r = ROk (@VNull z_ops5) /\
   @binding z_ops5 (snd r) 1 nX = Some (@VNum z_ops5 1%Z) /\
   @binding z_ops5 (snd r) 0 nX = Some (@VNum z_ops5 5%Z)).
Proof.
  split.
  - unfold st_blk.
    pose proof (@eval_inv z_ops5 10 [] (Nd ":=" [] 0 1 [Nd "identifier" nX 1 1 []; Nd "number" [53%N] 0 1 []]) 0 0
                  (@init_state z_ops5)) as H.
    destruct H as (H1 & H2 & _); [vm_compute; reflexivity | apply init_state_ok | vm_compute; lia | vm_compute; lia |].
    refine (proj1 (@T_new_child z_ops5 _ 0 [7] _ H1)).
    eapply sc_ok_le; [exact H2|]. vm_compute. lia.
  - repeat split; vm_compute; try reflexivity; lia.
Qed.
