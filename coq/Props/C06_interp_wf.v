(* Props/C06_interp_wf.v — the seam between C07 (the parser returns well-formed trees) and the
   interpreter model (Model/Interp.v): on a tree the parser can produce the model never answers
   [RInvalid].

   [RInvalid] is the model's answer to an input no Go execution can present: a tree shape the
   parser does not produce (e.g. "operation requires 2 operands", "try without a block"), a tree
   Validate would have rejected ("number literal rejected by Validate", "map entry rejected by
   Validate", ...), or an inconsistent heap ("slice longer than its array", "dangling scope
   reference", "cyclic scope chain", ...).  Until now the correspondence run checked that on every
   really parsed program (verdict 109); here it is a theorem for EVERY well-formed tree, state
   reachable from the initial state, fuel and implementation of float64 ([NumOps]).

   Stage 1  wf (Spec/ParseSpec.v, proved of every parser result by C07_parse_wf) implies
            [interp_shape] (Proofs/InterpShape.v): the WEAKER, decidable predicate that says what the
            runtime components index in their children.
   Stage 2  Validate itself never meets a tree shape it cannot handle.
   Stage 3  a state invariant [st_ok] (Proofs/InterpInv.v: every stored slice fits its array, every
            stored array / map / function reference is allocated, a scope's parent has a smaller
            index than the scope - chains are acyclic and stay in the arena -, every closure holds
            a validated function declaration and an allocated scope) holds initially, is
            preserved by eval (the state only grows: [st_le]), and excludes every RInvalid site.
   wf alone suffices for [run] (no extra hypothesis on map literals or assignment targets:
   run validates first, and a tree that Validate rejects ends in an error, not in RInvalid). *)
From Coq Require Import List String NArith ZArith Bool.
From Ecal Require Import Common.Bytes Common.Ast Common.Outcome gen.Tokens Spec.ParseSpec Model.Parser Model.Interp
  Model.LexParse
  Proofs.InterpProofs Proofs.InterpShape Proofs.InterpWf Proofs.InterpInv Proofs.InterpInv8
  Props.C07 Props.C06_interp.
Import ListNotations.
Local Open Scope string_scope.
Local Open Scope list_scope.
Local Open Scope nat_scope.

(* Stage 1: every tree the parser can return has the shape the interpreter relies on *)
Theorem C06_interp_shape_of_wf : forall t : node, wf t -> interp_shape t = true.
Proof. exact wf_interp_shape. Qed.
Print Assumptions C06_interp_shape_of_wf.

(* Stage 2: Validate never answers "invalid" on such a tree *)
Theorem C06_interp_validate_never_invalid :
  forall (NO : NumOps) (t : node), wf t -> forall w, validate t <> VInvalid w.
Proof. intros NO t. apply wf_validate_not_invalid. Qed.
Print Assumptions C06_interp_validate_never_invalid.

(* Stage 3: the state invariant holds initially ... *)
Theorem C06_interp_init_state_ok : forall NO : NumOps, st_ok init_state.
Proof. intros NO. apply init_state_ok. Qed.
Print Assumptions C06_interp_init_state_ok.

(* ... is preserved by the evaluation of a validated well-formed tree in an allocated scope, the
   state only grows, RInvalid is never the answer, and a returned value is allocated *)
Theorem C06_interp_eval_never_invalid :
  forall (NO : NumOps) (fuel : nat) (path : list nat) (t : node) (scope inst : nat) (st : state),
    wf t -> validate t = VOk -> st_ok st -> sc_ok st scope -> is_ok st inst ->
    st_ok (snd (eval fuel path t scope inst st)) /\
    st_le st (snd (eval fuel path t scope inst st)) /\
    (forall w, fst (eval fuel path t scope inst st) <> RInvalid w) /\
    (forall v, fst (eval fuel path t scope inst st) = ROk v -> val_ok (snd (eval fuel path t scope inst st)) v).
Proof.
  intros NO fuel path t scope inst st Hwf Hv Hok Hs Hi.
  apply eval_inv; try assumption. apply wf_validate_tok; assumption.
Qed.
Print Assumptions C06_interp_eval_never_invalid.

(* a whole run: Validate, then Eval in a fresh global scope *)
Theorem C06_interp_run_never_invalid :
  forall (NO : NumOps) (fuel : nat) (t : node), wf t -> forall w, fst (run fuel t) <> RInvalid w.
Proof. intros NO fuel t. apply run_never_invalid. Qed.
Print Assumptions C06_interp_run_never_invalid.

(* the same under the weaker, decidable hypothesis the interpreter really needs *)
Theorem C06_interp_run_never_invalid_shape :
  forall (NO : NumOps) (fuel : nat) (t : node),
    interp_shape t = true -> forall w, fst (run fuel t) <> RInvalid w.
Proof. intros NO fuel t. apply run_never_invalid_shape. Qed.
Print Assumptions C06_interp_run_never_invalid_shape.

Theorem C06_interp_run_state_ok :
  forall (NO : NumOps) (fuel : nat) (t : node), wf t -> st_ok (snd (run fuel t)).
Proof. intros NO fuel t. apply run_state_ok. Qed.
Print Assumptions C06_interp_run_state_ok.

(* composition with C07, token level: for every token list the lexer can send and the parser
   model accepts, the run of the parsed tree neither panics nor leaves the model's domain *)
Theorem C06_C07_parsed_run_safe :
  forall (all : list Parser.tok), lexer_shaped all ->
  forall (t : node) (r : nat), parse all = PRes (Some t) None r ->
  forall (NO : NumOps) (fuel : nat),
    (forall site, fst (run fuel t) <> RPanic site) /\ (forall w, fst (run fuel t) <> RInvalid w).
Proof.
  intros all Hl t r Hp NO fuel. pose proof (C07_parse_wf all Hl t r Hp) as Hwf. split.
  - intros site. apply run_no_panic.
  - apply run_never_invalid. exact Hwf.
Qed.
Print Assumptions C06_C07_parsed_run_safe.

(* composition with C07 and C18, source level: for EVERY byte string the lexer + parser models
   accept, the same *)
Theorem C06_C07_source_run_safe :
  forall (input : bytes) (t : node) (e : option perr) (r : nat),
    parse_source input = Outcome.Ok (PRes (Some t) e r) ->
  forall (NO : NumOps) (fuel : nat),
    (forall site, fst (run fuel t) <> RPanic site) /\ (forall w, fst (run fuel t) <> RInvalid w).
Proof.
  intros input t e r Hp NO fuel.
  assert (Hwf : wf t).
  { destruct (C07_source_parse_total input) as (ts & _ & [(t' & H & Hw)|(e' & H & _)]);
      rewrite H in Hp; inversion Hp; subst. exact Hw. }
  split.
  - intros site. apply run_no_panic.
  - apply run_never_invalid. exact Hwf.
Qed.
Print Assumptions C06_C07_source_run_safe.

(* ---------------------------------------------------------------- non-vacuity *)
(* the real parser's tree of Props/C06_interp.v (function, loop, try, map, container access) is
   well formed, validates, and runs to a value *)
Example C06_interp_wf_example_premises :
  wfb ex_tree = true /\ interp_shape ex_tree = true /\ @validate z_ops ex_tree = VOk /\
  @tok z_ops ex_tree = true /\ fst (@run z_ops 100 ex_tree) = ROk (VNum (NO := z_ops) 107%Z).
Proof. vm_compute. repeat split; reflexivity. Qed.

(* the hypothesis wf is needed: on a tree the parser cannot produce the model does answer RInvalid *)
Example C06_interp_wf_example_needed :
  fst (@run z_ops 10 (Nd "plus" [43]%N 0 1 [])) = RInvalid "operation requires 2 operands" /\
  wfb (Nd "plus" [43]%N 0 1 []) = false.
Proof. vm_compute. split; reflexivity. Qed.

(* interp_shape is strictly weaker than wf: it does not look at the kinds of most children *)
Example C06_interp_wf_example_shape_weaker :
  interp_shape (Nd "times" [42]%N 0 1 [Nd "<nil>" [] 0 0 []; Nd "sink" [] 0 1 []]) = true /\
  wfb (Nd "times" [42]%N 0 1 [Nd "<nil>" [] 0 0 []; Nd "sink" [] 0 1 []]) = false.
Proof. vm_compute. split; reflexivity. Qed.

(* so is the state invariant: evaluation in a scope that is not allocated *)
Example C06_interp_wf_example_state_needed :
  fst (@eval z_ops 5 [] (Nd "identifier" [120]%N 1 1 []) 7 0 init_state) = RInvalid "dangling scope reference" /\
  ~ sc_ok (NO := z_ops) init_state 7.
Proof. split; [vm_compute; reflexivity | unfold sc_ok; cbn; intros H; inversion H as [|? H1]; inversion H1]. Qed.

(* source text -> lexer model -> parser model -> interpreter model:
     l := [1, 2, 3] / t := 0 / for x in l { t := t + x } / t      evaluates to 6 *)
Example C06_C07_example_source_run :
  match parse_source [108;32;58;61;32;91;49;44;32;50;44;32;51;93;10;116;32;58;61;32;48;10;102;111;114;32;120;32;105;110;32;108;32;123;10;32;116;32;58;61;32;116;32;43;32;120;10;125;10;116]%N with
  | Outcome.Ok (PRes (Some t) None _) => fst (@run z_ops 100 t)
  | _ => RFuel
  end = ROk (VNum (NO := z_ops) 6%Z).
Proof. vm_compute. reflexivity. Qed.
