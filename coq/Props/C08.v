(* Props/C08.v — Formatting preserves program meaning and is idempotent.
   Only theorem statements, closed by [exact] / one line, and Print Assumptions.

   Scope of the theorems: the expression language at full strength — every tree built from
   the infix operators of parser.astNodeMap (binding powers read from the regenerated
   table), the prefix operators - + not, terminals (numbers, identifiers, strings of both
   kinds, true/false/null), any nesting, no size bound — and string literals at byte level.
   Statements (blocks, if, for, try, func, sink, ...) are tied by the correspondence check
   only (see lib/propcfg/C08.json). *)
From Coq Require Import List String NArith Bool Arith.
From Ecal Require Import Common.Bytes Common.Ast gen.Tokens gen.Grammar
     Model.Printer Spec.FormatSpec Proofs.PrinterProofs.
Import ListNotations.
Local Open Scope nat_scope.

(* parse (print t) = t up to positions: same kinds, values, nesting, raw flag.  [wf_expr]
   excludes exactly (a) a raw string that contains a newline or both quote characters and
   (b) a `times` node whose right operand is a `div` node — see the two _refuted theorems. *)
Theorem C08_print_parse_roundtrip :
  forall t, wf_expr t -> RoundTrip (list item) pp parse_expr erase t.
Proof. exact roundtrip. Qed.
Print Assumptions C08_print_parse_roundtrip.

(* the general form: the printed tokens of t in front of ANY continuation ts that does not
   bind tighter than t's right edge are read as t, then the loop goes on with ts — for every
   right binding rb the tree can be entered with and every fuel above |tokens| *)
Theorem C08_print_parse_in_context :
  forall t, wf_expr t ->
  forall rb ts res,
    enter rb t -> stop (redge t) ts ->
    (forall f, length ts + 1 <= f -> loop f rb (erase t) ts = res) ->
    forall f, length (pp t ++ ts) + 1 <= f -> run f rb (pp t ++ ts) = res.
Proof. exact key. Qed.
Print Assumptions C08_print_parse_in_context.

(* print (parse (print t)) = print t *)
Theorem C08_print_idempotent :
  forall t, wf_expr t -> Idempotent (list item) pp parse_expr t.
Proof. exact idempotent. Qed.
Print Assumptions C08_print_idempotent.

(* the format tool: the text written back parses, and to the same tree *)
Theorem C08_format_never_unparsable :
  forall t, wf_expr t -> FormatSafe (list item) pp parse_expr erase t.
Proof. intros t H. exists (erase t). split; [apply roundtrip | apply erase_idem]; exact H. Qed.
Print Assumptions C08_format_never_unparsable.

(* String literals, byte level: for every value and both kinds, lexing the printed literal
   (whatever follows it) gives back the value, and the kind the token-level printer model
   assumes ([str_allow]) ... *)
Theorem C08_string_value_roundtrip :
  forall (allow : bool) (v rest : bytes),
    lex_literal (print_literal allow v ++ rest) = Some (v, str_allow v allow, rest).
Proof. exact lex_printed. Qed.
Print Assumptions C08_string_value_roundtrip.

(* ... which is the original kind for every quoted string and every raw string that the
   printer can write raw (modelled alphabet: printable ASCII, \n, \t, bytes of multi-byte
   runes; strconv.Quote/Unquote are modelled on this alphabet only) *)
Theorem C08_string_requote_roundtrip :
  forall (allow : bool) (v : bytes),
    forallb in_alphabet v = true ->
    (allow = false -> raw_printable v = true) ->
    LiteralRoundTrip print_literal lex_literal allow v.
Proof.
  intros allow v _ H rest. rewrite lex_printed. unfold str_allow.
  destruct allow; [reflexivity|]. rewrite (H eq_refl). reflexivity.
Qed.
Print Assumptions C08_string_requote_roundtrip.

(* a raw value produced by the lexer never contains its own end quote: unless it spans
   lines (or contains the byte the printer uses as internal marker) it is printed raw *)
Theorem C08_lexed_raw_values_printable :
  forall s v rest,
    lex_literal s = Some (v, false, rest) ->
    has_byte 10 v = false -> has_byte 1 v = false -> raw_printable v = true.
Proof. exact lexed_raw_printable. Qed.
Print Assumptions C08_lexed_raw_values_printable.

(* ---------------------------------------------------------------------------------- *)
(* Refutations: the unrepaired rules (F12, F13) and the two places the repaired printer
   still deviates because unedited tests of /repo pin that output. *)

Local Open Scope string_scope.
Definition ident (c : N) : node := Nd "identifier" [c] 1 1 [].
Definition num (c : N) : node := Nd "number" [c] 0 1 [].
Definition bin (name : string) (l r : node) : node := Nd name [] 0 1 [l; r].
Definition pre (name : string) (x : node) : node := Nd name [] 0 1 [x].
Definition differs (p : node -> list item) (t : node) : bool :=
  match parse_expr (p t) with Some t' => negb (node_eqb t' (erase t)) | None => true end.

(* F12: 10 - (2 + 3), not (a and b), -(a + b), a / (b * c), a == (b == c), (a == b) * c
   are all re-parsed to a different tree under the bracket rule of the unrepaired printer *)
Theorem C08_old_printer_refuted :
  forallb (differs pp_old)
    [bin "minus" (num 49%N) (bin "plus" (num 50%N) (num 51%N));
     pre "not" (bin "and" (ident 97%N) (ident 98%N));
     pre "minus" (bin "plus" (ident 97%N) (ident 98%N));
     bin "div" (ident 97%N) (bin "times" (ident 98%N) (ident 99%N));
     bin "==" (ident 97%N) (bin "==" (ident 98%N) (ident 99%N));
     bin "times" (bin "==" (ident 97%N) (ident 98%N)) (ident 99%N);
     bin "==" (pre "not" (ident 97%N)) (ident 98%N)] = true
  /\
  (* and correctly under the repaired rule *)
  existsb (differs pp)
    [bin "minus" (num 49%N) (bin "plus" (num 50%N) (num 51%N));
     pre "not" (bin "and" (ident 97%N) (ident 98%N));
     pre "minus" (bin "plus" (ident 97%N) (ident 98%N));
     bin "div" (ident 97%N) (bin "times" (ident 98%N) (ident 99%N));
     bin "==" (ident 97%N) (bin "==" (ident 98%N) (ident 99%N));
     bin "times" (bin "==" (ident 97%N) (ident 98%N)) (ident 99%N);
     bin "==" (pre "not" (ident 97%N)) (ident 98%N)] = false.
Proof. split; vm_compute; reflexivity. Qed.
Print Assumptions C08_old_printer_refuted.

(* F13: the unrepaired printer turns the raw string r"Foo {{1+2}}" into an interpolating
   one, and writes r"a\" as "a\\", which the unrepaired lexValue cannot read (the repaired
   one can) *)
Theorem C08_old_strings_refuted :
  differs pp_old (Nd "string" [70;111;111;32;123;123;49;43;50;125;125]%N 0 1 []) = true /\
  differs pp (Nd "string" [70;111;111;32;123;123;49;43;50;125;125]%N 0 1 []) = false /\
  lex_literal_old (quote [97; 92]%N) = None /\
  lex_literal (quote [97; 92]%N) = Some ([97; 92], true, [])%N.
Proof. repeat split; vm_compute; reflexivity. Qed.
Print Assumptions C08_old_strings_refuted.

(* Known finding 1 (pinned by parser.TestArithmeticParsing): a * (b / c) is printed
   a * b / c and re-parsed as (a * b) / c — the reason for the exemption in [wf_expr]. *)
Theorem C08_times_div_refuted :
  differs pp (bin "times" (ident 97%N) (bin "div" (ident 98%N) (ident 99%N))) = true.
Proof. vm_compute. reflexivity. Qed.
Print Assumptions C08_times_div_refuted.

(* Known finding 2 (pinned by parser.TestSpacing): a raw string containing a newline is
   printed as an interpolating string — value kept, kind lost. *)
Theorem C08_raw_multiline_refuted :
  lex_literal (print_literal false [97; 10; 123; 123; 49; 125; 125]%N)
  = Some ([97; 10; 123; 123; 49; 125; 125], true, [])%N.
Proof. vm_compute. reflexivity. Qed.
Print Assumptions C08_raw_multiline_refuted.

(* ---------------------------------------------------------------------------------- *)
(* Non-vacuity: a tree using both associativity sides, a prefix operator under a tighter
   operator, both string kinds, is in the domain of the theorems and needs brackets. *)
Definition example_tree : node :=
  bin "minus" (num 49%N)
      (bin "plus" (pre "not" (bin "and" (ident 97%N) (Nd "string" [34;120]%N 0 1 [])))
           (bin "times" (Nd "string" [120]%N 2 1 []) (pre "minus" (bin "plus" (ident 98%N) (num 50%N))))).

Example C08_example_in_domain : wf_expr example_tree.
Proof.
  unfold example_tree, bin, pre, num, ident, Nd.
  apply (WfBin TokenMINUS); [reflexivity| | |reflexivity].
  - apply (WfAtom TokenNUMBER); [reflexivity|discriminate].
  - apply (WfBin TokenPLUS); [reflexivity| | |reflexivity].
    + apply (WfPre TokenNOT); [reflexivity|reflexivity|].
      apply (WfBin TokenAND); [reflexivity| | |reflexivity].
      * apply (WfAtom TokenIDENTIFIER); [reflexivity|discriminate].
      * apply (WfAtom TokenSTRING); [reflexivity|reflexivity].
    + apply (WfBin TokenTIMES); [reflexivity| | |reflexivity].
      * apply (WfAtom TokenSTRING); [reflexivity|reflexivity].
      * apply (WfPre TokenMINUS); [reflexivity|reflexivity|].
        apply (WfBin TokenPLUS); [reflexivity| | |reflexivity].
        -- apply (WfAtom TokenIDENTIFIER); [reflexivity|discriminate].
        -- apply (WfAtom TokenNUMBER); [reflexivity|discriminate].
Qed.

Example C08_example_brackets :
  length (filter (fun x => match x with T id _ _ => Nat.eqb id TokenLPAREN | NL => false end)
                 (pp example_tree)) = 4
  /\ parse_expr (pp example_tree) = Some (erase example_tree).
Proof. split; vm_compute; reflexivity. Qed.

(* ================================================================================== *)
(* STATEMENT LEVEL.  The printer emits tokens WITH line structure; the parser side is the FULL
   parser model Model/Parser.v [Parser.parse] (ParseWithRuntime with the look-ahead ring, the
   guard flag, token lines — the model C07's correspondence ties to the real parser), not the
   expression-only reader of Model/Printer.v.

   Covered statement kinds (guard [wfS] of Spec/StmtFormatSpec.v):
     statement sequences at top level and in blocks (one statement per line), expression
     statements incl. assignments `:=`, `let`, `break`, `continue`; `return` bare and with a
     value; `if` / `elif` / `else`; `for` in the condition and the `in` form; `mutex`.
   In the syntax and the printer, but NOT in the theorem (correspondence only): try / except /
   otherwise / finally, func, import, sink, function calls / access chains, list and map
   literals.
   Guards ([wfP], [wfS], [wfe]): expression leaves as in the expression theorems (no `times`
   over a right `div`, raw strings printable raw) and no EOF terminal; a final `elif true` is
   written as `else` (same tree); the program does not end in a bare `return` (such a text does
   not parse).  The printer model is the printer after repair C08-5: a statement that is not the
   first of its block and starts with + - or "(" is printed with a leading ";" (without it the
   round trip fails: C08_stmt_start_operator_refuted about the printer before that repair). *)
From Ecal Require Import Model.StmtPrinter Spec.StmtFormatSpec Proofs.StmtState Proofs.StmtExpr Proofs.StmtProofs
     Proofs.StmtKey Proofs.StmtNoEof Proofs.StmtTop Proofs.StmtPrinterEq Proofs.StmtFinal.

From Coq Require Import ZArith.
Definition parse_tokens (ts : list Parser.tok) : option node := parsed (Parser.parse ts).

(* parse (print p) = p up to positions, for every layout start line and every position of EOF *)
Theorem C08_stmt_print_parse_roundtrip_partial :
  forall b, wfP b -> StmtRoundTrip parse_tokens b.
Proof. exact prog_roundtrip. Qed.
Print Assumptions C08_stmt_print_parse_roundtrip_partial.

(* the statement printer IS the correspondence-checked printer model on the embedded tree ... *)
Theorem C08_stmt_printer_is_model :
  forall b, wfP b -> pp (embed_prog b) = pp_prog b.
Proof. exact prog_printer_eq. Qed.
Print Assumptions C08_stmt_printer_is_model.

(* ... so the round trip holds for the model printer [pp] run on the AST itself *)
Theorem C08_stmt_print_parse_roundtrip :
  forall b, wfP b -> forall l0 le epos,
  exists t', parse_tokens (source_tokens l0 le epos (pp (embed_prog b))) = Some t' /\ strip t' = embed_prog b.
Proof. exact prog_roundtrip_pp. Qed.
Print Assumptions C08_stmt_print_parse_roundtrip.

(* print (parse (print p)) = print p *)
Theorem C08_stmt_print_idempotent :
  forall b, wfP b -> StmtIdempotent parse_tokens b.
Proof. exact prog_idempotent. Qed.
Print Assumptions C08_stmt_print_idempotent.

(* the printer model never looks at token positions *)
Theorem C08_print_ignores_positions : forall t, pp (strip t) = pp t.
Proof. exact pp_strip. Qed.
Print Assumptions C08_print_ignores_positions.

(* key lemma, statements: in front of ANY continuation token that separates ([sepT]: on a
   later line or binding nothing, no left denotation, not "(" "." elif else) the printed
   statement is read by parser.run(0) as the statement, and the parser stands on that token *)
Theorem C08_stmt_print_parse_in_context :
  forall s, wfS s -> forall f ln tc k,
    sepT ln tc -> (s = SReturn0 -> ln < Parser.t_line tc) ->
    length (lay ln (pp_stmt s)) + length k <= f ->
    exists i tr,
      Parser.run Parser.repaired (S f) 0 (pos false (lay ln (pp_stmt s) ++ tc :: k))
      = Parser.ROk (i, tr) (st (Some (cn false tc)) k false)
      /\ strip tr = embed s /\ n_line tr = ln.
Proof. exact (proj1 stmt_key). Qed.
Print Assumptions C08_stmt_print_parse_in_context.

(* key lemma, expressions, against the FULL parser model (C08_print_parse_in_context re-proved
   for Parser.run / run_body / null_den / ld_loop, any guard flag, tokens on line ln) *)
Theorem C08_expr_print_parse_full_parser :
  forall t, wfe t -> KeyP t.
Proof. exact keyP. Qed.
Print Assumptions C08_expr_print_parse_full_parser.

(* ---------------------------------------------------------------------------------- *)
(* Refutations at statement level (vm_compute on the full parser model) *)

Definition sdiffers (b : sblock) : bool :=
  match parse_tokens (source_tokens 1 9 0%Z (pp_prog b)) with
  | Some t' => negb (node_eqb t' (embed_prog b))
  | None => true
  end.
Definition ndiffers (t : node) : bool :=
  match parse_tokens (source_tokens 1 9 0%Z (pp t)) with
  | Some t' => negb (node_eqb t' t)
  | None => true
  end.

(* Finding statement-start-operator, repaired by C08-5: under the printer WITHOUT the statement
   separator ([pp_nosemi]: one statement per line, nothing else) `a; -b` is printed as the two
   lines a / -b, which parse as ONE statement a - b; `a; (b + c) * d` is printed a / (b + c) * d,
   which parses as the call a(b + c) * d; `if a { b }; -c` parses as (if ...) - c.  With the
   separator ([pp]) all of them are read back unchanged. *)
Definition pdiffers (p : node -> list item) (b : sblock) : bool :=
  match parse_tokens (source_tokens 1 9 0%Z (p (embed_prog b))) with
  | Some t' => negb (node_eqb t' (embed_prog b))
  | None => true
  end.
Definition start_witnesses : list sblock :=
  [BCons (SExpr (ident 97%N)) (BCons (SExpr (pre "minus" (ident 98%N))) BNil);
   BCons (SExpr (ident 97%N)) (BCons (SExpr (pre "plus" (ident 98%N))) BNil);
   BCons (SExpr (ident 97%N))
     (BCons (SExpr (bin "times" (bin "plus" (ident 98%N) (ident 99%N)) (ident 100%N))) BNil);
   BCons (SIf (ident 97%N) (BCons (SExpr (ident 98%N)) BNil) INone) (BCons (SExpr (pre "minus" (ident 99%N))) BNil);
   BCons (SFor (ident 97%N) (BCons (SExpr (ident 98%N)) (BCons (SExpr (pre "minus" (ident 99%N))) BNil))) BNil].
Theorem C08_stmt_start_operator_refuted :
  forallb (pdiffers pp_nosemi) start_witnesses = true /\
  existsb (pdiffers pp) start_witnesses = false /\
  existsb sdiffers start_witnesses = false.
Proof. repeat split; vm_compute; reflexivity. Qed.
Print Assumptions C08_stmt_start_operator_refuted.

(* Known finding return-left-operand: the tree minus(return, a) (from "return<newline>-a") is
   printed `return - a`, which parses as return(-a).  A bare return is a statement in [stmt],
   never an operand, so the guard excludes the shape. *)
Theorem C08_return_left_operand_refuted :
  ndiffers (Nd "minus" [] 0 0 [Nd "return" [] 0 0 []; Nd "identifier" [97%N] 1 0 []]) = true.
Proof. vm_compute. reflexivity. Qed.
Print Assumptions C08_return_left_operand_refuted.

(* ---------------------------------------------------------------------------------- *)
(* Non-vacuity *)

Definition e_id (c : N) : node := ident c.
Lemma wfe_id c : wfe (e_id c).
Proof. apply (WeAtom TokenIDENTIFIER); [reflexivity | discriminate | discriminate]. Qed.
Lemma wfe_num c : wfe (num c).
Proof. apply (WeAtom TokenNUMBER); [reflexivity | discriminate | discriminate]. Qed.
Lemma wfe_bin id l r : is_infix id = true -> exempt_at id r = false -> wfe l -> wfe r -> wfe (Node (name_of id) [] false false 1 [l; r]).
Proof. intros. apply (WeBin id); assumption. Qed.

(* for a in b { if a > 1 { x := a + 1 \n continue } elif a == 0 { break } else { mutex m { return a } } \n return }
   followed by a second top-level statement *)
Definition example_prog : sblock :=
  BCons (SFor (bin "in" (e_id 97) (e_id 98))
          (BCons (SIf (bin ">" (e_id 97) (num 49))
                      (BCons (SExpr (bin ":=" (e_id 120) (bin "plus" (e_id 97) (num 49))))
                        (BCons (SExpr (Nd "continue" [] 0 1 [])) BNil))
                      (IElif (bin "==" (e_id 97) (num 48))
                             (BCons (SExpr (Nd "break" [] 0 1 [])) BNil)
                             (IElse (BCons (SMutex [109%N] (BCons (SReturn1 (e_id 97)) BNil)) BNil))))
            (BCons SReturn0 BNil)))
    (BCons (SExpr (bin ":=" (e_id 121) (num 50))) BNil).

Example C08_stmt_example_in_domain : wfP example_prog.
Proof.
  unfold wfP, example_prog. split; [discriminate|]. split; [|vm_compute; reflexivity].
  cbn [wfB wfS wfT]. unfold bin, Nd. cbn [Nat.odd Nat.leb].
  repeat match goal with
  | |- _ /\ _ => split
  | |- True => exact I
  | |- wfe (e_id _) => apply wfe_id
  | |- wfe (num _) => apply wfe_num
  | |- wfe (Node "in" _ _ _ _ [_; _]) => apply (wfe_bin TokenIN); [reflexivity | reflexivity | |]
  | |- wfe (Node ">" _ _ _ _ [_; _]) => apply (wfe_bin TokenGT); [reflexivity | reflexivity | |]
  | |- wfe (Node "==" _ _ _ _ [_; _]) => apply (wfe_bin TokenEQ); [reflexivity | reflexivity | |]
  | |- wfe (Node ":=" _ _ _ _ [_; _]) => apply (wfe_bin TokenASSIGN); [reflexivity | reflexivity | |]
  | |- wfe (Node "plus" _ _ _ _ [_; _]) => apply (wfe_bin TokenPLUS); [reflexivity | reflexivity | |]
  | |- wfe (Node "continue" _ _ _ _ []) => apply (WeAtom TokenCONTINUE); [reflexivity | discriminate | discriminate]
  | |- wfe (Node "break" _ _ _ _ []) => apply (WeAtom TokenBREAK); [reflexivity | discriminate | discriminate]
  end.
Qed.

(* the example through the full parser model: same tree, 15 line breaks, idempotent *)
Example C08_stmt_example_roundtrip :
  sdiffers example_prog = false /\
  nls (pp_prog example_prog) = 15 /\
  pp (embed_prog example_prog) = pp_prog example_prog.
Proof. repeat split; vm_compute; reflexivity. Qed.

(* statements that need the separator are in the domain: a / ;-b / ;(b + c) * d / ;+a *)
Definition example_semi : sblock :=
  BCons (SExpr (e_id 97))
    (BCons (SExpr (pre "minus" (e_id 98)))
      (BCons (SExpr (bin "times" (bin "plus" (e_id 98) (e_id 99)) (e_id 100)))
        (BCons (SExpr (pre "plus" (e_id 97))) BNil))).
Example C08_stmt_example_semi :
  wfP example_semi /\ sdiffers example_semi = false /\
  length (filter (fun x => match x with T id _ _ => Nat.eqb id TokenSEMICOLON | NL => false end) (pp_prog example_semi)) = 3.
Proof.
  split; [|split; vm_compute; reflexivity].
  unfold wfP, example_semi. split; [discriminate|]. split; [|vm_compute; reflexivity].
  cbn [wfB wfS]. unfold bin, pre, Nd. cbn [Nat.odd Nat.leb].
  repeat match goal with
  | |- _ /\ _ => split
  | |- True => exact I
  | |- wfe (e_id _) => apply wfe_id
  | |- wfe (Node "times" _ _ _ _ [_; _]) => apply (wfe_bin TokenTIMES); [reflexivity | reflexivity | |]
  | |- wfe (Node "plus" _ _ _ _ [_; _]) => apply (wfe_bin TokenPLUS); [reflexivity | reflexivity | |]
  | |- wfe (Node "minus" _ _ _ _ [_]) => apply (WePre TokenMINUS); [reflexivity | reflexivity |]
  | |- wfe (Node "plus" _ _ _ _ [_]) => apply (WePre TokenPLUS); [reflexivity | reflexivity |]
  end.
Qed.

(* beyond the theorem, by computation: a function containing an if / else inside a for loop
   with a try / except / finally — printed by the statement printer (= the model printer) and
   re-parsed by the full parser model to the same tree *)
Definition example_func : sblock :=
  BCons (SFunc [102%N] [e_id 97; bin "preset" (e_id 98) (num 49)]
          (BCons (SFor (bin "<" (e_id 97) (e_id 98))
                   (BCons (STry (BCons (SIf (bin "==" (e_id 97) (num 48))
                                            (BCons (SReturn1 (e_id 98)) BNil)
                                            (IElse (BCons (SExpr (bin ":=" (e_id 97) (bin "plus" (e_id 97) (num 49)))) BNil)))
                                  BNil)
                                (ECons [([101%N], true)] (EBAs [120%N]) (BCons (SExpr (Nd "break" [] 0 1 [])) BNil) ENil)
                                ONone
                                (OSome (BCons (SExpr (e_id 99)) BNil)))
                     BNil))
            BNil))
    BNil.

Example C08_stmt_example_func :
  sdiffers example_func = false /\ pp (embed_prog example_func) = pp_prog example_func.
Proof. split; vm_compute; reflexivity. Qed.

(* ---- statement level, try / func (added) ---- *)
(* The statement-level theorems above with the guards of Spec/StmtFormatSpec2.v ([wfP2], [wfS2], ...):
   in addition to the kinds of [wfS],
     try { } with any number of except clauses — each with any number of error names (string
     literals; a raw one must be printable raw, as for string terminals) followed by nothing /
     `as x` / a bare variable `x` —, an optional otherwise block, an optional finally block;
     func name(p1, ..., pn) { } — every parameter an expression of the guarded expression language
     (identifiers, presets `x=1`);
   nested arbitrarily with each other and the kinds already covered.  Same parser side (the full
   parser model [Parser.parse]), same demands ([StmtRoundTrip], [StmtIdempotent]).  No further
   guard was needed.  Files: Proofs/StmtKey2.v (key lemma re-done for the new guards; the token
   after a statement must now also not be except / otherwise / finally, which holds for every
   token the printer puts there), Proofs/StmtTry.v, Proofs/StmtFunc.v, Proofs/StmtTop2.v,
   Proofs/StmtFinal2.v. *)
From Ecal Require Import Spec.StmtFormatSpec2 Proofs.StmtKey2 Proofs.StmtTry Proofs.StmtFunc Proofs.StmtTop2 Proofs.StmtFinal2.

(* the extended guards accept everything the former ones did *)
Theorem C08_stmt_guards_extended : forall b, wfP b -> wfP2 b.
Proof. exact wfP_wfP2. Qed.
Print Assumptions C08_stmt_guards_extended.

(* parse (print p) = p up to positions, for every layout start line and every position of EOF *)
Theorem C08_stmt_print_parse_roundtrip_try_func :
  forall b, wfP2 b -> StmtRoundTrip parse_tokens b.
Proof. exact prog_roundtrip2. Qed.
Print Assumptions C08_stmt_print_parse_roundtrip_try_func.

(* the statement printer IS the correspondence-checked printer model on the embedded tree ... *)
Theorem C08_stmt_printer_is_model_try_func :
  forall b, wfP2 b -> pp (embed_prog b) = pp_prog b.
Proof. exact prog_printer_eq2. Qed.
Print Assumptions C08_stmt_printer_is_model_try_func.

(* ... so the round trip holds for the model printer [pp] run on the AST itself *)
Theorem C08_stmt_print_parse_roundtrip_pp_try_func :
  forall b, wfP2 b -> forall l0 le epos,
  exists t', parse_tokens (source_tokens l0 le epos (pp (embed_prog b))) = Some t' /\ strip t' = embed_prog b.
Proof. exact prog_roundtrip_pp2. Qed.
Print Assumptions C08_stmt_print_parse_roundtrip_pp_try_func.

(* print (parse (print p)) = print p *)
Theorem C08_stmt_print_idempotent_try_func :
  forall b, wfP2 b -> StmtIdempotent parse_tokens b.
Proof. exact prog_idempotent2. Qed.
Print Assumptions C08_stmt_print_idempotent_try_func.

(* key lemma, statements, extended guards: in front of ANY continuation token that separates
   ([sepT2] = [sepT] and not except / otherwise / finally) the printed statement is read by
   parser.run(0) as the statement, and the parser stands on that token *)
Theorem C08_stmt_print_parse_in_context_try_func :
  forall s, wfS2 s -> forall f ln tc k,
    sepT2 ln tc -> (s = SReturn0 -> ln < Parser.t_line tc) ->
    length (lay ln (pp_stmt s)) + length k <= f ->
    exists i tr,
      Parser.run Parser.repaired (S f) 0 (pos false (lay ln (pp_stmt s) ++ tc :: k))
      = Parser.ROk (i, tr) (st (Some (cn false tc)) k false)
      /\ strip tr = embed s /\ n_line tr = ln.
Proof. exact (proj1 stmt_key2). Qed.
Print Assumptions C08_stmt_print_parse_in_context_try_func.

(* Non-vacuity.  [example_func] above (a function with a preset parameter containing a for loop
   with try / except ... as / finally) is in the domain of the extended theorems ... *)
Ltac wf2_tac :=
  repeat match goal with
  | |- _ /\ _ => split
  | |- True => exact I
  | |- Forall _ [] => constructor
  | |- Forall _ (_ :: _) => constructor
  | |- wfname _ => reflexivity
  | |- wfe (e_id _) => apply wfe_id
  | |- wfe (num _) => apply wfe_num
  | |- wfe (Node "<" _ _ _ _ [_; _]) => apply (wfe_bin TokenLT); [reflexivity | reflexivity | |]
  | |- wfe (Node "==" _ _ _ _ [_; _]) => apply (wfe_bin TokenEQ); [reflexivity | reflexivity | |]
  | |- wfe (Node ":=" _ _ _ _ [_; _]) => apply (wfe_bin TokenASSIGN); [reflexivity | reflexivity | |]
  | |- wfe (Node "plus" _ _ _ _ [_; _]) => apply (wfe_bin TokenPLUS); [reflexivity | reflexivity | |]
  | |- wfe (Node "preset" _ _ _ _ [_; _]) => apply (wfe_bin TokenEQUAL); [reflexivity | reflexivity | |]
  | |- wfe (Node "minus" _ _ _ _ [_]) => apply (WePre TokenMINUS); [reflexivity | reflexivity |]
  | |- wfe (Node "break" _ _ _ _ []) => apply (WeAtom TokenBREAK); [reflexivity | discriminate | discriminate]
  end.

Example C08_stmt_example_func_in_domain : wfP2 example_func.
Proof.
  unfold wfP2, example_func. split; [discriminate|]. split; [|vm_compute; reflexivity].
  cbn [wfB2 wfS2 wfT2 wfX2 wfO2]. unfold bin, pre, Nd. cbn [Nat.odd Nat.leb]. wf2_tac.
Qed.

(* ... and so is a program with every shape of except clause (no name; two names, one of them a
   raw string, `as x`; one name and a bare variable; a bare variable only), an empty except
   block, a bare return and a nested parameterless function inside except blocks, otherwise,
   an empty finally, an empty try without clauses, and a statement that needs the ";" separator
   after a try:
     try { a } except { b } except "e", r"f" as x { return } except "e", y { }
           except z { func g() { return a } } otherwise { -c } finally { }
     try { }
     ;-a                                                                          *)
Definition example_try : sblock :=
  BCons (STry (BCons (SExpr (e_id 97)) BNil)
          (ECons [] EBNone (BCons (SExpr (e_id 98)) BNil)
          (ECons [([101%N], true); ([102%N], false)] (EBAs [120%N]) (BCons SReturn0 BNil)
          (ECons [([101%N], true)] (EBId [121%N]) BNil
          (ECons [] (EBId [122%N]) (BCons (SFunc [103%N] [] (BCons (SReturn1 (e_id 97)) BNil)) BNil) ENil))))
          (OSome (BCons (SExpr (pre "minus" (e_id 99))) BNil))
          (OSome BNil))
    (BCons (STry BNil ENil ONone ONone)
      (BCons (SExpr (pre "minus" (e_id 97))) BNil)).

Example C08_stmt_example_try :
  wfP2 example_try /\ sdiffers example_try = false /\ pp (embed_prog example_try) = pp_prog example_try /\
  nls (pp_prog example_try) = 18.
Proof.
  split; [|repeat split; vm_compute; reflexivity].
  unfold wfP2, example_try. split; [discriminate|]. split; [|vm_compute; reflexivity].
  cbn [wfB2 wfS2 wfT2 wfX2 wfO2]. unfold bin, pre, Nd. cbn [Nat.odd Nat.leb]. wf2_tac.
Qed.
