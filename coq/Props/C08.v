(* Props/C08.v — Formatting preserves program meaning and is idempotent.
   Only theorem statements, closed by [exact] / one line, and Print Assumptions.

   Scope of the theorems: the expression language at full strength — every tree built from
   the infix operators of parser.astNodeMap (binding powers read from the regenerated
   table), the prefix operators - + not, terminals (numbers, identifiers, strings of both
   kinds, true/false/null), any nesting, no size bound — and string literals at byte level.
   Statements (blocks, if, for, try, func, sink, ...) are tied by the correspondence check
   only (see lib/propcfg/C08.json). *)
From Coq Require Import List String NArith Bool Arith.
From Ecal Require Import Common.Bytes Common.Ast gen.Tokens gen.Grammar
     Model.Printer Spec.FormatSpec Proofs.PrinterProofs.
Import ListNotations.
Local Open Scope nat_scope.

(* parse (print t) = t up to positions: same kinds, values, nesting, raw flag.  [wf_expr]
   excludes exactly (a) a raw string that contains a newline or both quote characters and
   (b) a `times` node whose right operand is a `div` node — see the two _refuted theorems. *)
Theorem C08_print_parse_roundtrip :
  forall t, wf_expr t -> RoundTrip (list item) pp parse_expr erase t.
Proof. exact roundtrip. Qed.
Print Assumptions C08_print_parse_roundtrip.

(* the general form: the printed tokens of t in front of ANY continuation ts that does not
   bind tighter than t's right edge are read as t, then the loop goes on with ts — for every
   right binding rb the tree can be entered with and every fuel above |tokens| *)
Theorem C08_print_parse_in_context :
  forall t, wf_expr t ->
  forall rb ts res,
    enter rb t -> stop (redge t) ts ->
    (forall f, length ts + 1 <= f -> loop f rb (erase t) ts = res) ->
    forall f, length (pp t ++ ts) + 1 <= f -> run f rb (pp t ++ ts) = res.
Proof. exact key. Qed.
Print Assumptions C08_print_parse_in_context.

(* print (parse (print t)) = print t *)
Theorem C08_print_idempotent :
  forall t, wf_expr t -> Idempotent (list item) pp parse_expr t.
Proof. exact idempotent. Qed.
Print Assumptions C08_print_idempotent.

(* the format tool: the text written back parses, and to the same tree *)
Theorem C08_format_never_unparsable :
  forall t, wf_expr t -> FormatSafe (list item) pp parse_expr erase t.
Proof. intros t H. exists (erase t). split; [apply roundtrip | apply erase_idem]; exact H. Qed.
Print Assumptions C08_format_never_unparsable.

(* String literals, byte level: for every value and both kinds, lexing the printed literal
   (whatever follows it) gives back the value, and the kind the token-level printer model
   assumes ([str_allow]) ... *)
Theorem C08_string_value_roundtrip :
  forall (allow : bool) (v rest : bytes),
    lex_literal (print_literal allow v ++ rest) = Some (v, str_allow v allow, rest).
Proof. exact lex_printed. Qed.
Print Assumptions C08_string_value_roundtrip.

(* ... which is the original kind for every quoted string and every raw string that the
   printer can write raw (modelled alphabet: printable ASCII, \n, \t, bytes of multi-byte
   runes; strconv.Quote/Unquote are modelled on this alphabet only) *)
Theorem C08_string_requote_roundtrip :
  forall (allow : bool) (v : bytes),
    forallb in_alphabet v = true ->
    (allow = false -> raw_printable v = true) ->
    LiteralRoundTrip print_literal lex_literal allow v.
Proof.
  intros allow v _ H rest. rewrite lex_printed. unfold str_allow.
  destruct allow; [reflexivity|]. rewrite (H eq_refl). reflexivity.
Qed.
Print Assumptions C08_string_requote_roundtrip.

(* a raw value produced by the lexer never contains its own end quote: unless it spans
   lines (or contains the byte the printer uses as internal marker) it is printed raw *)
Theorem C08_lexed_raw_values_printable :
  forall s v rest,
    lex_literal s = Some (v, false, rest) ->
    has_byte 10 v = false -> has_byte 1 v = false -> raw_printable v = true.
Proof. exact lexed_raw_printable. Qed.
Print Assumptions C08_lexed_raw_values_printable.

(* ---------------------------------------------------------------------------------- *)
(* Refutations: the unrepaired rules (F12, F13) and the two places the repaired printer
   still deviates because unedited tests of /repo pin that output. *)

Local Open Scope string_scope.
Definition ident (c : N) : node := Nd "identifier" [c] 1 1 [].
Definition num (c : N) : node := Nd "number" [c] 0 1 [].
Definition bin (name : string) (l r : node) : node := Nd name [] 0 1 [l; r].
Definition pre (name : string) (x : node) : node := Nd name [] 0 1 [x].
Definition differs (p : node -> list item) (t : node) : bool :=
  match parse_expr (p t) with Some t' => negb (node_eqb t' (erase t)) | None => true end.

(* F12: 10 - (2 + 3), not (a and b), -(a + b), a / (b * c), a == (b == c), (a == b) * c
   are all re-parsed to a different tree under the bracket rule of the unrepaired printer *)
Theorem C08_old_printer_refuted :
  forallb (differs pp_old)
    [bin "minus" (num 49%N) (bin "plus" (num 50%N) (num 51%N));
     pre "not" (bin "and" (ident 97%N) (ident 98%N));
     pre "minus" (bin "plus" (ident 97%N) (ident 98%N));
     bin "div" (ident 97%N) (bin "times" (ident 98%N) (ident 99%N));
     bin "==" (ident 97%N) (bin "==" (ident 98%N) (ident 99%N));
     bin "times" (bin "==" (ident 97%N) (ident 98%N)) (ident 99%N);
     bin "==" (pre "not" (ident 97%N)) (ident 98%N)] = true
  /\
  (* and correctly under the repaired rule *)
  existsb (differs pp)
    [bin "minus" (num 49%N) (bin "plus" (num 50%N) (num 51%N));
     pre "not" (bin "and" (ident 97%N) (ident 98%N));
     pre "minus" (bin "plus" (ident 97%N) (ident 98%N));
     bin "div" (ident 97%N) (bin "times" (ident 98%N) (ident 99%N));
     bin "==" (ident 97%N) (bin "==" (ident 98%N) (ident 99%N));
     bin "times" (bin "==" (ident 97%N) (ident 98%N)) (ident 99%N);
     bin "==" (pre "not" (ident 97%N)) (ident 98%N)] = false.
Proof. split; vm_compute; reflexivity. Qed.
Print Assumptions C08_old_printer_refuted.

(* F13: the unrepaired printer turns the raw string r"Foo {{1+2}}" into an interpolating
   one, and writes r"a\" as "a\\", which the unrepaired lexValue cannot read (the repaired
   one can) *)
Theorem C08_old_strings_refuted :
  differs pp_old (Nd "string" [70;111;111;32;123;123;49;43;50;125;125]%N 0 1 []) = true /\
  differs pp (Nd "string" [70;111;111;32;123;123;49;43;50;125;125]%N 0 1 []) = false /\
  lex_literal_old (quote [97; 92]%N) = None /\
  lex_literal (quote [97; 92]%N) = Some ([97; 92], true, [])%N.
Proof. repeat split; vm_compute; reflexivity. Qed.
Print Assumptions C08_old_strings_refuted.

(* Known finding 1 (pinned by parser.TestArithmeticParsing): a * (b / c) is printed
   a * b / c and re-parsed as (a * b) / c — the reason for the exemption in [wf_expr]. *)
Theorem C08_times_div_refuted :
  differs pp (bin "times" (ident 97%N) (bin "div" (ident 98%N) (ident 99%N))) = true.
Proof. vm_compute. reflexivity. Qed.
Print Assumptions C08_times_div_refuted.

(* Known finding 2 (pinned by parser.TestSpacing): a raw string containing a newline is
   printed as an interpolating string — value kept, kind lost. *)
Theorem C08_raw_multiline_refuted :
  lex_literal (print_literal false [97; 10; 123; 123; 49; 125; 125]%N)
  = Some ([97; 10; 123; 123; 49; 125; 125], true, [])%N.
Proof. vm_compute. reflexivity. Qed.
Print Assumptions C08_raw_multiline_refuted.

(* ---------------------------------------------------------------------------------- *)
(* Non-vacuity: a tree using both associativity sides, a prefix operator under a tighter
   operator, both string kinds, is in the domain of the theorems and needs brackets. *)
Definition example_tree : node :=
  bin "minus" (num 49%N)
      (bin "plus" (pre "not" (bin "and" (ident 97%N) (Nd "string" [34;120]%N 0 1 [])))
           (bin "times" (Nd "string" [120]%N 2 1 []) (pre "minus" (bin "plus" (ident 98%N) (num 50%N))))).

Example C08_example_in_domain : wf_expr example_tree.
Proof.
  unfold example_tree, bin, pre, num, ident, Nd.
  apply (WfBin TokenMINUS); [reflexivity| | |reflexivity].
  - apply (WfAtom TokenNUMBER); [reflexivity|discriminate].
  - apply (WfBin TokenPLUS); [reflexivity| | |reflexivity].
    + apply (WfPre TokenNOT); [reflexivity|reflexivity|].
      apply (WfBin TokenAND); [reflexivity| | |reflexivity].
      * apply (WfAtom TokenIDENTIFIER); [reflexivity|discriminate].
      * apply (WfAtom TokenSTRING); [reflexivity|reflexivity].
    + apply (WfBin TokenTIMES); [reflexivity| | |reflexivity].
      * apply (WfAtom TokenSTRING); [reflexivity|reflexivity].
      * apply (WfPre TokenMINUS); [reflexivity|reflexivity|].
        apply (WfBin TokenPLUS); [reflexivity| | |reflexivity].
        -- apply (WfAtom TokenIDENTIFIER); [reflexivity|discriminate].
        -- apply (WfAtom TokenNUMBER); [reflexivity|discriminate].
Qed.

Example C08_example_brackets :
  length (filter (fun x => match x with T id _ _ => Nat.eqb id TokenLPAREN | NL => false end)
                 (pp example_tree)) = 4
  /\ parse_expr (pp example_tree) = Some (erase example_tree).
Proof. split; vm_compute; reflexivity. Qed.
