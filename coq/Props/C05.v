(* Props/C05.v — Lexical scoping, functions, containers and objects behave as specified.
   Only theorem statements, closed by [exact] / one-line proofs, and Print Assumptions.

   Part A: laws of the scope structure (Model/Scope.v = the repaired /repo/scope code, tied to
           the real scope API call by call) for ALL scope states, names and values.
   Part B: theorems about the reference semantics Spec/LexSpec.v (tied to the real
           interpreter on generated programs) for ALL programs. *)
From Coq Require Import ZArith String.
From Ecal Require Import Common.Bytes Common.Outcome Model.Scope Model.Builtins
     Spec.ScopeSpec Spec.LexSpec Proofs.ScopeProofs Proofs.LexSpecProofs.
Open Scope nat_scope.

(* ---- Part A -------------------------------------------------------------------------------- *)

(* getScopeForVariable finds exactly the NEAREST scope on the chain s, parent s, ... that
   defines the name, says "none" exactly when no scope on the chain defines it, and always
   terminates without panic. *)
Theorem C05_lookup_nearest :
  forall (st : sstate) (s : nat) (x : name),
    wf_scopes (ss_scopes st) -> s < length (ss_scopes st) ->
    (forall t, get_scope_for_variable st s x = Ok (Some t) <-> Resolves (ss_scopes st) s x t) /\
    (get_scope_for_variable st s x = Ok None <-> Unbound (ss_scopes st) s x) /\
    (exists r, get_scope_for_variable st s x = Ok r).
Proof. intros st s x WF Hs. apply (gsv_spec _ WF x (S s) s); auto. Qed.
Print Assumptions C05_lookup_nearest.

(* x := v from scope s: it succeeds; the scope written is the nearest enclosing definition
   of x or, if there is none, s itself; there x holds v; no other variable of any scope and
   nothing on the heap changes. *)
Theorem C05_assign_nearest_or_define_here :
  forall (st : sstate) (s : nat) (x : name) (v : val),
    wf_scopes (ss_scopes st) -> s < length (ss_scopes st) -> nodot x = true ->
    exists t st',
      set_value st s x v = Ok st' /\
      (Resolves (ss_scopes st) s x t \/ (Unbound (ss_scopes st) s x /\ t = s)) /\
      var_of (ss_scopes st') t x = Some v /\
      (forall t' y, t' <> t \/ y <> x -> var_of (ss_scopes st') t' y = var_of (ss_scopes st) t' y) /\
      ss_heap st' = ss_heap st /\
      length (ss_scopes st') = length (ss_scopes st) /\
      wf_scopes (ss_scopes st').
Proof. exact assign_spec. Qed.
Print Assumptions C05_assign_nearest_or_define_here.

(* let x := v: always the current scope, whatever the enclosing scopes define. *)
Theorem C05_let_defines_locally :
  forall (st : sstate) (s : nat) (x : name) (v : val),
    wf_scopes (ss_scopes st) -> s < length (ss_scopes st) -> nodot x = true ->
    exists st',
      set_local_value st s x v = Ok st' /\
      var_of (ss_scopes st') s x = Some v /\
      (forall t' y, t' <> s \/ y <> x -> var_of (ss_scopes st') t' y = var_of (ss_scopes st) t' y) /\
      ss_heap st' = ss_heap st /\
      length (ss_scopes st') = length (ss_scopes st) /\
      wf_scopes (ss_scopes st').
Proof. exact let_spec. Qed.
Print Assumptions C05_let_defines_locally.

(* Nothing defined in an inner scope or call is visible outside: a name that does not
   resolve from scope p still does not resolve from p after ANY sequence of scope operations
   (new scopes, new / re-entered children, assignments, lets, container writes through
   arbitrary paths) whose assignments and lets happen in scopes created after p — the
   blocks and the function calls entered from p or later. *)
Theorem C05_inner_definitions_invisible :
  forall (ops : list sop) (st st' : sstate) (p : nat) (x : name),
    wf_scopes (ss_scopes st) ->
    Forall (op_inside p) ops ->
    run_ops st ops = Ok st' ->
    Unbound (ss_scopes st) p x ->
    Unbound (ss_scopes st') p x.
Proof. intros ops st st' p x WF Hin Hrun U. eapply run_ops_keeps; eauto. Qed.
Print Assumptions C05_inner_definitions_invisible.

(* After a successful c.k := v / c[k] := v / c.f1...fn.k := v, reading the same path yields v:
   list positions that are in range (negative ones count from the end) and map keys given
   as numbers or strings — every field text without '.'.  [Hpath]: the write did not
   redirect its own access path (always true when the path has one field). *)
Theorem C05_write_then_read :
  forall (st st' : sstate) (s : nat) (c : name) (fields : list bytes) (k : bytes) (v : val),
    nodot c = true -> forallb nodot fields = true -> nodot k = true ->
    set_value st s (join_dot (c :: fields ++ [k])) v = Ok st' ->
    (forall r r', get_simple st s c = Ok (r, true) -> walk_path (ss_heap st) r fields = Ok r' ->
                  read_path (ss_heap st') r fields = Ok r') ->
    get_value st' s (join_dot (c :: fields ++ [k])) = Ok (v, negb (is_null v)).
Proof.
  intros st st' s c fields k v Hc Hfs Hk Hset Hpath.
  exact (write_read_via_root st s c c fields k v st' Hc Hc Hfs Hk Hset eq_refl Hpath).
Qed.
Print Assumptions C05_write_then_read.

Theorem C05_write_then_read_one_level :
  forall (st st' : sstate) (s : nat) (c : name) (k : bytes) (v : val),
    nodot c = true -> nodot k = true ->
    set_value st s (c ++ DOT :: k) v = Ok st' ->
    get_value st' s (c ++ DOT :: k) = Ok (v, negb (is_null v)).
Proof.
  intros st st' s c k v Hc Hk Hset.
  apply (write_read_via_root st s c c [] k v st'); auto.
  all: try (intros r r' _ [= <-]; reflexivity).
Qed.
Print Assumptions C05_write_then_read_one_level.

(* Lists and maps are references, numbers / strings / booleans are values:
   (1) a write through ANY name that denotes the same container is seen through the other;
   (2) an assignment to a name never changes what another name denotes, from any scope. *)
Theorem C05_scalars_by_value_containers_by_reference :
  (forall (st st' : sstate) (s : nat) (x y : name) (fields : list bytes) (k : bytes) (v : val),
      nodot y = true -> nodot x = true -> forallb nodot fields = true -> nodot k = true ->
      set_value st s (join_dot (y :: fields ++ [k])) v = Ok st' ->
      get_simple st s x = get_simple st s y ->
      (forall r r', get_simple st s y = Ok (r, true) -> walk_path (ss_heap st) r fields = Ok r' ->
                    read_path (ss_heap st') r fields = Ok r') ->
      get_value st' s (join_dot (x :: fields ++ [k])) = Ok (v, negb (is_null v)))
  /\
  (forall (st : sstate) (s s' : nat) (x y : name) (v : val),
      wf_scopes (ss_scopes st) -> s < length (ss_scopes st) -> nodot y = true -> x <> y ->
      exists st', set_value st s y v = Ok st' /\ get_simple st' s' x = get_simple st s' x).
Proof.
  split.
  - intros st st' s x y fields k v. apply write_read_via_root.
  - intros st s s' x y v WF Hs Hy Hxy.
    destruct (set_simple_spec st s y v WF Hs) as (t & sc & _ & Hn & Hset).
    eexists; split.
    + unfold set_value. rewrite split_dot_simple by auto. exact Hset.
    + apply get_simple_upd_other; auto.
Qed.
Print Assumptions C05_scalars_by_value_containers_by_reference.

(* len / add / del / concat as the Go code computes them (append, copy, re-slicing) agree
   with the list reference (insert_at, remove_at, concat) incl. positions, and return an ERROR
   exactly outside the valid positions (no panic outcome is left, cf. the repairs 07794bb and
   d53eab2 of C06); map writes and del agree with the
   finite-map reference: the key read back, all other keys, the size. *)
Theorem C05_list_map_builtins_refine :
  (forall l v i, (0 <= i <= Z.of_nat (length l))%Z -> go_add_at l v i = Ok (insert_at l (Z.to_nat i) v)) /\
  (forall l v i, (i < 0 \/ Z.of_nat (length l) < i)%Z -> exists e, go_add_at l v i = Err e) /\
  (forall l v, go_add l v = l ++ [v]) /\
  (forall l i, (0 <= i < Z.of_nat (length l))%Z -> go_del_at l i = Ok (remove_at l (Z.to_nat i))) /\
  (forall l i, (i < 0 \/ Z.of_nat (length l) <= i)%Z -> exists e, go_del_at l i = Err e) /\
  (forall ls, go_concat ls = concat ls) /\
  (forall m k, keys_nodup m ->
      let k0 := map_field_key m (key_text k) in
      map_get k0 (go_map_del m k) = None /\
      (forall k', k' <> k0 -> map_get k' (go_map_del m k) = map_get k' m) /\
      length (go_map_del m k) = (if map_has k0 m then pred (length m) else length m) /\
      keys_nodup (go_map_del m k)) /\
  (forall m f v, keys_nodup m ->
      let k0 := map_field_key m f in
      map_get k0 (map_set k0 v m) = Some v /\
      (forall k', k' <> k0 -> map_get k' (map_set k0 v m) = map_get k' m) /\
      length (map_set k0 v m) = (if map_has k0 m then length m else S (length m)) /\
      keys_nodup (map_set k0 v m)).
Proof.
  repeat split.
  - exact go_add_at_refines.
  - exact go_add_at_errors.
  - exact go_del_at_refines.
  - exact go_del_at_errors.
  - exact go_concat_refines.
  - apply go_map_del_spec; auto.
  - apply go_map_del_spec; auto.
  - apply go_map_del_spec; auto.
  - apply go_map_del_spec; auto.
  - apply map_write_spec; auto.
  - apply map_write_spec; auto.
  - apply map_write_spec; auto.
  - apply map_write_spec; auto.
Qed.
Print Assumptions C05_list_map_builtins_refine.

(* ---- Part B: the reference semantics, for ALL programs ------------------------------------------ *)

(* The master invariant, for every fuel, frame, expression, statement, closure and state,
   whatever the result (value, return, error, unspecified, out of fuel):
   - evaluating an expression (incl. every call it makes) and a function call keep, for every
     frame that exists, its parent and EXACTLY its set of names;
   - a statement can add names to its own current frame only;
   - a block statement (if / for), a call statement, return, mark add none at all. *)
Theorem C05_spec_only_the_current_frame_gains_names :
  forall n,
    (forall F e st st' r, eval n F e st = (st', r) -> pres (st_frames st) (st_frames st')) /\
    (forall cid args st st' r, apply n cid args st = (st', r) -> pres (st_frames st) (st_frames st')) /\
    (forall F s st st' r, exec n F s st = (st', r) -> ext F (st_frames st) (st_frames st')) /\
    (forall F s st st' r, compound s = true -> exec n F s st = (st', r) -> pres (st_frames st) (st_frames st')).
Proof.
  intros n. destruct (inv_all n) as (Ie & _ & _ & _ & Ia & _ & Ix & Ixc & _).
  split; [|split; [|split]]; intros.
  - exact (Ie F e st st' r H).
  - exact (Ia cid args st st' r H).
  - exact (Ix F s st st' r H).
  - exact (Ixc F s H st st' r H0).
Qed.
Print Assumptions C05_spec_only_the_current_frame_gains_names.

(* Nothing defined in an inner block or call is visible outside: after a block statement, a
   call, return or mark — however it ends — every name resolves from every frame that existed
   before (in particular from the frame the block was entered from) exactly as it did before:
   unbound names stay unbound, bound names stay bound to the same frame. *)
Theorem C05_spec_inner_definitions_invisible :
  forall n F s st st' r,
    compound s = true -> exec n F s st = (st', r) -> wf_frames (st_frames st) ->
    forall k G x, G < length (st_frames st) ->
      lookup k (st_frames st') G x = lookup k (st_frames st) G x.
Proof. intros n F s st st' r Hc He WF. apply (exec_compound_keeps_lookup n F s st st' r Hc He WF). Qed.
Print Assumptions C05_spec_inner_definitions_invisible.

(* Fresh locals per call: a call (with all the calls it makes) never changes which names any
   existing frame holds nor how any name resolves from an existing frame; its parameters and
   locals live in frames that did not exist before the call. *)
Theorem C05_spec_fresh_locals_per_call :
  forall n cid args st st' r,
    apply n cid args st = (st', r) -> wf_frames (st_frames st) ->
    pres (st_frames st) (st_frames st') /\
    forall k G x, G < length (st_frames st) ->
      lookup k (st_frames st') G x = lookup k (st_frames st) G x.
Proof. exact apply_keeps_lookup. Qed.
Print Assumptions C05_spec_fresh_locals_per_call.

(* Closures see their definition scope: from the frame of a call, a name that is not a
   parameter (nor this / super) resolves exactly as it does from the frame D the function was
   defined in — the frame of the caller does not occur. *)
Theorem C05_spec_closures_see_definition_scope :
  forall fs D x k,
    wf_frames fs -> D < length fs ->
    lookup (S k) (fs ++ [mkFrame (Some D) [] 0 [] false]) (length fs) x = lookup k fs D x.
Proof. exact call_frame_resolves_in_definition_scope. Qed.
Print Assumptions C05_spec_closures_see_definition_scope.

(* let x := e: afterwards x resolves to the current frame, whatever e does. *)
Theorem C05_spec_let_defines_locally :
  forall n F x e st st' r,
    exec (S n) F (SLet x e) st = (st', r) -> F < length (st_frames st) ->
    lookup (S F) (st_frames st') F x = ROk (Some F).
Proof. exact let_defines_locally. Qed.
Print Assumptions C05_spec_let_defines_locally.

(* new: copying a template into the object keeps every property the object already has (the
   super templates are copied first, by the same function, recursively) and makes every
   property of the template a property of the object. *)
Theorem C05_spec_new_carries_template_properties :
  forall fuel obj tmpl st st' v,
    add_supers fuel obj tmpl st = (st', ROk v) ->
    (forall k, obj_has st obj k = true -> obj_has st' obj k = true) /\
    (forall k, map_has k tmpl = true -> obj_has st' obj k = true).
Proof. exact add_supers_carries. Qed.
Print Assumptions C05_spec_new_carries_template_properties.

(* literals: every evaluation of a list / map literal yields a container that did not exist when
   its items had been evaluated, holding the values of THIS evaluation of the items — applied to
   the nested literals among the items: two evaluations of the same literal (two calls, two
   iterations, two uses of a parameter default) share no container at any level. *)
Theorem C05_spec_list_literal_allocates :
  forall n F es st st' v,
    eval (S n) F (EList es) st = (st', ROk v) ->
    exists st1 vs, eval_list n F es st = (st1, ROk vs) /\
      nth_error (st_heap st1) (length (st_heap st1)) = None /\
      v = VRef (length (st_heap st1)) /\ st_heap st' = st_heap st1 ++ [LList vs] /\
      st_frames st' = st_frames st1.
Proof. exact eval_list_literal_allocates. Qed.
Print Assumptions C05_spec_list_literal_allocates.

Theorem C05_spec_map_literal_allocates :
  forall n F kvs st st' v,
    eval (S n) F (EMap kvs) st = (st', ROk v) ->
    exists st1 m, eval_entries n F kvs st = (st1, ROk m) /\
      nth_error (st_heap st1) (length (st_heap st1)) = None /\
      v = VRef (length (st_heap st1)) /\ st_heap st' = st_heap st1 ++ [LMap m] /\
      st_frames st' = st_frames st1.
Proof. exact eval_map_literal_allocates. Qed.
Print Assumptions C05_spec_map_literal_allocates.

(* ---- non-vacuity ----------------------------------------------------------------------------------- *)
Local Open Scope N_scope.
Definition nA : name := [97]. Definition nB : name := [98]. Definition nC : name := [99].
Definition nD : name := [100]. Definition nE : name := [101].

(* Part A: two scopes; assignment from the child updates the parent's variable, let shadows,
   a number key of a map literal is written and read back, a name defined in the child is
   not visible from the parent. *)
Example C05_example_scope :
  let st0 := fst (new_scope empty_state [71] None) in
  match new_child st0 0%nat [98] with
  | Ok (st1, c) =>
    match set_value st1 0%nat nA (VNum 1) with
    | Ok st2 =>
      match set_value st2 c nA (VNum 2), set_value st2 c nB (VNum 3) with
      | Ok st3, Ok st4 =>
        get_value st3 0%nat nA = Ok (VNum 2, true) /\
        get_value st4 0%nat nB = Ok (VNull, false) /\
        get_value st4 c nB = Ok (VNum 3, true)
      | _, _ => False
      end
    | _ => False
    end
  | _ => False
  end.
Proof. vm_compute. repeat split. Qed.

Example C05_example_number_key :
  let '(st1, m) := alloc (fst (new_scope empty_state [71] None)) (CMap [(KNum 1, VNum 2)]) in
  match set_value st1 0%nat nA m with
  | Ok st2 =>
    match set_value st2 0%nat [97;46;49] (VNum 5) with
    | Ok st3 => get_value st3 0%nat [97;46;49] = Ok (VNum 5, true) /\
                nth_error (ss_heap st3) 0%nat = Some (CMap [(KNum 1, VNum 5)])
    | _ => False
    end
  | _ => False
  end.
Proof. vm_compute. split; reflexivity. Qed.

(* Part B: a counter closure (definition-scope capture, fresh locals per call); template
   with two super templates, init runs once per new and reaches the super constructor. *)
Definition ex_counter : list stmt :=
  [ SFunc nC [(nD, None)]
      [ SLet nE (EPath nD []);
        SReturn (EFunc [(nA, Some (ENum 1))]
                   [ SAssign nE [] (EBin OpAdd (EPath nE []) (EPath nA [])); SReturn (EPath nE []) ]) ];
    SAssign nA [] (ECall nC [] [ENum 10]);
    SAssign nB [] (ECall nC [] [ENum 20]);
    SMark (ECall nA [] []); SMark (ECall nA [] [ENum 5]); SMark (ECall nB [] [ENum 1; ENum 7]);
    SMark (EList [EPath nE []; EPath nD []]) ].

Example C05_example_closures :
  let '(st, r) := run_program ex_counter in
  r = ROk tt /\ rev (st_trace st) = [[49;49]; [49;54]; [50;49]; [91;78;44;78;93]].
Proof. vm_compute. split; reflexivity. Qed.

Definition kx : bytes := [120]. Definition ky : bytes := [121].
Definition ex_objects : list stmt :=
  [ SAssign nA [] (EMap [ (EStr kx, ENum 1);
                          (EStr [105;110;105;116], EFunc [(nD, None)]
                             [ SAssign [116;104;105;115] [ADot kx] (EPath nD []); SMark (EStr [65]); SReturn ENull ]) ]);
    SAssign nB [] (EMap [ (EStr ky, ENum 2) ]);
    SAssign nC [] (EMap [ (EStr [115;117;112;101;114], EList [EPath nA []; EPath nB []]);
                          (EStr [105;110;105;116], EFunc [(nD, None); (nE, Some (ENum 9))]
                             [ SExpr (ECall [115;117;112;101;114] [AIdx (ENum 0)] [EPath nD []]);
                               SAssign [116;104;105;115] [ADot [122]] (EPath nE []); SMark (EStr [67]); SReturn ENull ]) ]);
    SAssign nD [] (EBuiltin BNew [EPath nC []; ENum 4]);
    SMark (EList [EPath nD [ADot kx]; EPath nD [ADot ky]; EPath nD [ADot [122]]; EPath nA [ADot kx]]) ].

Example C05_example_objects :
  let '(st, r) := run_program ex_objects in
  r = ROk tt /\ rev (st_trace st) = [[34;65;34]; [34;67;34]; [91;52;44;50;44;57;44;49;93]].
Proof. vm_compute. split; reflexivity. Qed.

(* Part B: a literal with nested containers is evaluated by every call / by every use of a
   parameter default: a write into a nested container of one result is not seen through another. *)
Definition ex_fresh_call : list stmt :=
  [ SFunc nD [] [ SLet nE (EList [EList [ENum 0; ENum 0]; EList [ENum 0; ENum 0]]); SReturn (EPath nE []) ];
    SAssign nA [] (ECall nD [] []);
    SAssign nA [AIdx (ENum 0); AIdx (ENum 1)] (ENum 7);
    SAssign nB [] (ECall nD [] []);
    SMark (EList [EPath nA []; EPath nB []]) ].

Definition ex_fresh_default : list stmt :=
  [ SFunc nD [(nE, Some (EList [EMap [(EStr kx, EList [ENum 1; ENum 2])]; EList [ENum 3]]))] [ SReturn (EPath nE []) ];
    SAssign nA [] (ECall nD [] []);
    SAssign nB [] (ECall nD [] []);
    SAssign nA [AIdx (ENum 0); ADot kx; AIdx (ENum (-1))] (ENum 9);
    SAssign nB [AIdx (ENum 1); AIdx (ENum 0)] (ENum 8);
    SAssign nC [] (ECall nD [] []);
    SMark (EList [EPath nA []; EPath nB []; EPath nC []]) ].

Example C05_example_fresh_literals :
  (let '(st, r) := run_program ex_fresh_call in
   r = ROk tt /\ rev (st_trace st) = [[91;91;91;48;44;55;93;44;91;48;44;48;93;93;44;91;91;48;44;48;93;44;91;48;44;48;93;93;93]]) /\
  (let '(st, r) := run_program ex_fresh_default in
   r = ROk tt /\ rev (st_trace st) = [[91;91;123;120;58;91;49;44;57;93;125;44;91;51;93;93;44;91;123;120;58;91;49;44;50;93;125;44;91;56;93;93;44;91;123;120;58;91;49;44;50;93;125;44;91;51;93;93;93]]).
Proof. vm_compute. repeat split; reflexivity. Qed.
