(* Props/C07.v — Parsing is total: an error or a well-formed tree, and nothing left running.

   Theorems about [parse] = the model of the REPAIRED parser.ParseWithRuntime (Model/Parser.v),
   for EVERY token list in which an EOF token, if there is one, is the last token (what the
   lexer guarantees: it emits EOF only when the input is exhausted and stops; its own totality is
   property C18).  Witnesses by computation that the parser as it was ([parse_original])
   violates each of them. *)
From Coq Require Import List String Bool Arith ZArith Lia.
From Ecal Require Import Common.Bytes Common.Ast gen.Tokens gen.Grammar Spec.ParseSpec Model.Parser
  Proofs.ParserProofs Proofs.ParserShapes Proofs.ParserInv Proofs.ParserTop.
Import ListNotations.
Local Open Scope nat_scope.

(* the lexer's guarantee the theorems rely on *)
Definition lexer_shaped (all : list tok) : Prop :=
  forall pre t post, all = pre ++ t :: post -> t_id t = TokenEOF -> post = [].

(* everything the proofs use from parser.astNodeMap holds of the generated table (a change of a
   denotation function, a binding that pairs a kind with the wrong denotation, ... breaks this) *)
Theorem C07_grammar_table_covered : forallb compat grammar_table = true.
Proof. exact table_compat. Qed.
Print Assumptions C07_grammar_table_covered.

(* the parser terminates: the nesting fuel [parse_fuel all] = |all| + 5 and the loop bounds
   (number of remaining tokens + 1) are never exhausted *)
Theorem C07_parser_terminates :
  forall all, lexer_shaped all -> parse_with repaired (parse_fuel all) all <> PFuel.
Proof. intros all H E. pose proof (parse_ok all H) as P. unfold parse in P. rewrite E in P. exact P. Qed.
Print Assumptions C07_parser_terminates.

(* either a tree and no error, or an error and no tree — the error carrying the position of a
   token of the input (or the zero position Go uses for "unexpected end" after the last token) *)
Theorem C07_parse_exclusive :
  forall all, lexer_shaped all ->
  forall t e r, parse all = PRes t e r ->
    exclusive t e /\ (forall x, e = Some x -> positioned x (positions all)).
Proof.
  intros all H t e r E. pose proof (parse_ok all H) as P. rewrite E in P.
  destruct t as [t|]; destruct e as [e|]; simpl in P; try contradiction.
  - split; [left; exists t; auto | intros x Hx; discriminate].
  - split; [right; exists e; auto | intros x Hx; inversion Hx; subst; apply P].
Qed.
Print Assumptions C07_parse_exclusive.

(* a returned tree is well formed: no missing child, every node has the number and kinds of
   children its kind requires (Spec/ParseSpec.v) *)
Theorem C07_parse_wf :
  forall all, lexer_shaped all -> forall t r, parse all = PRes (Some t) None r -> wf t.
Proof. intros all H t r E. pose proof (parse_ok all H) as P. rewrite E in P. apply P. Qed.
Print Assumptions C07_parse_wf.

(* no nil dereference anywhere in the parser *)
Theorem C07_no_parser_panic :
  forall all, lexer_shaped all -> forall site r, parse all <> PPanic site r.
Proof. intros all H site r E. pose proof (parse_ok all H) as P. rewrite E in P. exact P. Qed.
Print Assumptions C07_no_parser_panic.

(* at return every token the lexer sends has been received: its goroutine is not left blocked
   on the channel, on success and on error *)
Theorem C07_lexer_not_left_blocked :
  forall all, lexer_shaped all -> forall t e r, parse all = PRes t e r -> r = List.length all.
Proof.
  intros all H t e r E. pose proof (parse_ok all H) as P. rewrite E in P.
  destruct t; destruct e; simpl in P; try contradiction; apply P.
Qed.
Print Assumptions C07_lexer_not_left_blocked.

(* all of it in one statement *)
Theorem C07_parse_total :
  forall all, lexer_shaped all ->
    (exists t, parse all = PRes (Some t) None (List.length all) /\ wf t) \/
    (exists e, parse all = PRes None (Some e) (List.length all) /\ positioned e (positions all)).
Proof.
  intros all H. pose proof (parse_ok all H) as P.
  destruct (parse all) as [[t|] [e|] r|x r|]; simpl in P; try contradiction.
  - left. exists t. destruct P as [P1 P2]. subst r. auto.
  - right. exists e. destruct P as [P1 P2]. subst r. auto.
Qed.
Print Assumptions C07_parse_total.

(* ---- the parser as it was: refutations by computation -------------------------------- *)

Fixpoint lexer_shapedb (l : list tok) : bool :=
  match l with
  | [] => true
  | t :: r => (negb (t_id t =? TokenEOF) || match r with [] => true | _ => false end) && lexer_shapedb r
  end.

Lemma lexer_shapedb_spec l : lexer_shapedb l = true -> lexer_shaped l.
Proof.
  induction l as [|x l IH]; intros H pre t post E Ht.
  - destruct pre; discriminate.
  - simpl in H. apply andb_true_iff in H. destruct H as [H1 H2].
    destruct pre as [|p pre]; simpl in E; inversion E; subst.
    + rewrite Ht in H1. simpl in H1. destruct post; [reflexivity | discriminate].
    + eapply IH; eauto.
Qed.

(* a ; <unclosed quote>     (the error of skipping the semicolon is ignored, the current node stays nil) *)
Definition w_panic1 : list tok :=
  [T 7 [97%N] 1 1 1; T 30 [59%N] 0 1 3; T 0 [] 0 1 5; T 1 [] 0 1 5].
(* if a { b ; <unclosed quote> *)
Definition w_panic2 : list tok :=
  [T 63 [105%N;102%N] 0 1 1; T 7 [97%N] 1 1 4; T 26 [123%N] 0 1 6; T 7 [98%N] 1 1 8; T 30 [59%N] 0 1 10;
   T 0 [] 0 1 12; T 1 [] 0 1 12].
(* if true { 1 ; ) ; 2 }     (the later statement overwrites the error) *)
Definition w_nilchild : list tok :=
  [T 63 [105%N;102%N] 0 1 1; T 61 [116%N;114%N;117%N;101%N] 0 1 4; T 26 [123%N] 0 1 9; T 6 [49%N] 0 1 11;
   T 30 [59%N] 0 1 13; T 23 [41%N] 0 1 15; T 30 [59%N] 0 1 17; T 6 [50%N] 0 1 19; T 27 [125%N] 0 1 21;
   T 1 [] 0 1 21].
(* a[<unclosed quote> *)
Definition w_panic3 : list tok :=
  [T 7 [97%N] 1 1 1; T 24 [91%N] 0 1 2; T 0 [] 0 1 3; T 1 [] 0 1 3].
(* a b *)
Definition w_both : list tok :=
  [T 7 [97%N] 1 1 1; T 7 [98%N] 1 1 3; T 1 [] 0 1 3].
(* ) a b c d e f g h *)
Definition w_leak : list tok :=
  [T 23 [41%N] 0 1 1; T 7 [97%N] 1 1 3; T 7 [98%N] 1 1 5; T 7 [99%N] 1 1 7; T 7 [100%N] 1 1 9;
   T 7 [101%N] 1 1 11; T 7 [102%N] 1 1 13; T 7 [103%N] 1 1 15; T 7 [104%N] 1 1 17; T 1 [] 0 1 17].
(* if 1 + { { a } { b }     (the temporary entry for the opening brace used as a null denotation) *)
Definition w_brace : list tok :=
  [T 63 [105%N;102%N] 0 1 1; T 6 [49%N] 0 1 4; T 33 [43%N] 0 1 6; T 26 [123%N] 0 1 8; T 26 [123%N] 0 1 10;
   T 7 [97%N] 1 1 12; T 27 [125%N] 0 1 14; T 26 [123%N] 0 1 16; T 7 [98%N] 1 1 18; T 27 [125%N] 0 1 20;
   T 1 [] 0 1 20].

Definition is_panic (p : presult) : bool := match p with PPanic _ _ => true | _ => false end.

Theorem C07_no_parser_panic_refuted :
  Forall (fun w => lexer_shaped w /\ is_panic (parse_original w) = true) [w_panic1; w_panic2; w_panic3].
Proof. repeat constructor; try (apply lexer_shapedb_spec; vm_compute; reflexivity); vm_compute; reflexivity. Qed.
Print Assumptions C07_no_parser_panic_refuted.

Theorem C07_parse_exclusive_refuted :
  lexer_shaped w_both /\
  exists t e r, parse_original w_both = PRes (Some t) (Some e) r.
Proof.
  split; [apply lexer_shapedb_spec; vm_compute; reflexivity|].
  eexists. eexists. eexists. vm_compute. reflexivity.
Qed.
Print Assumptions C07_parse_exclusive_refuted.

(* a tree and no error, but the tree has a nil child / a node of no kind *)
Theorem C07_parse_wf_refuted :
  Forall (fun w => lexer_shaped w /\
                   exists t r, parse_original w = PRes (Some t) None r /\ wfb t = false)
         [w_nilchild; w_brace].
Proof.
  repeat constructor; try (apply lexer_shapedb_spec; vm_compute; reflexivity);
    eexists; eexists; split; vm_compute; reflexivity.
Qed.
Print Assumptions C07_parse_wf_refuted.

(* the error is returned after 5 of the 10 tokens have been received: the lexer stays blocked *)
Theorem C07_lexer_not_left_blocked_refuted :
  lexer_shaped w_leak /\
  exists e, parse_original w_leak = PRes None (Some e) 5 /\ 5 < List.length w_leak.
Proof.
  split; [apply lexer_shapedb_spec; vm_compute; reflexivity|].
  eexists. split; [vm_compute; reflexivity | vm_compute; lia].
Qed.
Print Assumptions C07_lexer_not_left_blocked_refuted.

(* ---- non-vacuity ---------------------------------------------------------------------- *)

(* the repaired parser on the same inputs: positioned errors, everything received *)
Example C07_example_errors :
  parse w_panic1 = PRes None (Some (E 2 1 5)) 4 /\
  parse w_nilchild = PRes None (Some (E 4 1 15)) 10 /\
  parse w_both = PRes None (Some (E 1 1 3)) 3 /\
  parse w_leak = PRes None (Some (E 4 1 1)) 10 /\
  parse w_brace = PRes None (Some (E 4 1 8)) 11.
Proof. vm_compute. repeat split; reflexivity. Qed.

(* x := f(1)[2].y ; if a { break } else { b } — a tree, well formed *)
Example C07_example_tree :
  let src := [T 7 [120%N] 1 1 1; T 39 [58%N;61%N] 0 1 3; T 7 [102%N] 1 1 6; T 22 [40%N] 0 1 7; T 6 [49%N] 0 1 8;
              T 23 [41%N] 0 1 9; T 24 [91%N] 0 1 10; T 6 [50%N] 0 1 11; T 25 [93%N] 0 1 12; T 28 [46%N] 0 1 13;
              T 7 [121%N] 1 1 14; T 30 [59%N] 0 1 16; T 63 [105%N;102%N] 0 1 18; T 7 [97%N] 1 1 21;
              T 26 [123%N] 0 1 23; T 67 [] 0 1 25; T 27 [125%N] 0 1 31; T 65 [] 0 1 33; T 26 [123%N] 0 1 38;
              T 7 [98%N] 1 1 40; T 27 [125%N] 0 1 42; T 1 [] 0 1 43] in
  lexer_shaped src /\
  exists t, parse src = PRes (Some t) None 22 /\ wfb t = true /\ node_size t = 18.
Proof.
  split; [apply lexer_shapedb_spec; vm_compute; reflexivity|].
  eexists. split; [vm_compute; reflexivity|]. split; vm_compute; reflexivity.
Qed.

(* ---- every SOURCE TEXT: the lexer model (C18) composed with the parser model ------------- *)

(* Until here the theorems quantify over token lists and [lexer_shaped] is a hypothesis.  Below
   it is a theorem: [Lexer.lex] is the model of parser.Lex / LexToList (Model/Lexer.v, the code
   as it is in /repo; C18 proves it total and proves the shape of its result), [to_ptok]
   (Model/LexParse.v) carries a lexer token over to the token record of the parser model field
   by field, [source_tokens ts = map to_ptok ts], and
        parse_source input = Ok (parse (source_tokens ts))      for  Lexer.lex input = Ok ts
   is parser.Parse(name, input).  Everything below holds for EVERY byte string (valid or
   invalid UTF-8, control characters, any length). *)
From Ecal Require Model.Lexer Proofs.LexerProofs Spec.PositionSpec.
From Ecal Require Import Model.LexParse Proofs.LexParseProofs.

(* the hypothesis of all the theorems above, discharged: the token list of every input has its
   only EOF token at the very end *)
Theorem C07_source_tokens_lexer_shaped :
  forall (input : bytes) (ts : list Lexer.token),
    Lexer.lex input = Outcome.Ok ts -> lexer_shaped (source_tokens ts).
Proof. exact stream_eof_last. Qed.
Print Assumptions C07_source_tokens_lexer_shaped.

(* the exact shape (stronger than [lexer_shaped]; it is C18's "ends with EOF, an error, or an
   error followed by EOF" read through the adapter): ordinary tokens, then [EOF], [error] or
   [error; EOF].  After an error token the lexer sends at most one more token, EOF; the parser
   stops at the error token ([next]: ErrLexicalError) and its deferred drain receives the rest. *)
Theorem C07_source_tokens_shape :
  forall (input : bytes) (ts : list Lexer.token),
    Lexer.lex input = Outcome.Ok ts -> stream_shape (source_tokens ts).
Proof. exact stream_has_shape. Qed.
Print Assumptions C07_source_tokens_shape.

(* Parsing is total, for every source text: the lexer returns a token list (no panic, no loop
   without end), the parser returns within the fuel |tokens| + 5 without a nil dereference,
   and the result is either (a well-formed tree, no error) or (no tree, an error positioned
   at a token of the input or at the zero position); in both cases every token the lexer
   sends has been received: nothing is left blocked on the channel. *)
Theorem C07_source_parse_total :
  forall input : bytes,
    exists ts : list Lexer.token,
      Lexer.lex input = Outcome.Ok ts /\
      ((exists t, parse_source input = Outcome.Ok (PRes (Some t) None (List.length ts)) /\ wf t) \/
       (exists e, parse_source input = Outcome.Ok (PRes None (Some e) (List.length ts)) /\
                  positioned e (positions (source_tokens ts)))).
Proof.
  intros input. destruct (parse_source_ok input) as (ts & H & -> & G). exists ts. split; [exact H|].
  rewrite <- (source_tokens_length ts).
  destruct (parse (source_tokens ts)) as [[t|] [e|] r|x r|]; simpl in G; try contradiction.
  - left. exists t. destruct G as [G1 ->]. auto.
  - right. exists e. destruct G as [G1 ->]. auto.
Qed.
Print Assumptions C07_source_parse_total.

(* what "positioned" means in terms of the source text: the error carries the zero position
   (unexpected end after the last token) or the reported line and column of a token [k] the
   lexer produced from the input - and unless [k] is the EOF token that line is the true
   line (1 + number of newline bytes before it) of the byte offset [k] starts at.  (Columns:
   C18, known finding line-comment-column.) *)
Theorem C07_source_error_position :
  forall (input : bytes) (e : perr) (r : nat),
    parse_source input = Outcome.Ok (PRes None (Some e) r) ->
    (e_line e, e_pos e) = (0, 0%Z) \/
    exists ts k, Lexer.lex input = Outcome.Ok ts /\ In k ts /\
      Z.of_nat (e_line e) = Lexer.t_line k /\ e_pos e = Lexer.t_col k /\
      (Lexer.t_id k <> TokenEOF ->
         e_line e = 1 + PositionSpec.nl_count input (Lexer.t_pos k) /\ Lexer.t_pos k <= List.length input).
Proof.
  intros input e r H. destruct (parse_source_ok input) as (ts & HL & HP & G). rewrite HP in H.
  injection H as H. rewrite H in G. destruct G as [[G|G] _]; [left; symmetry; exact G|].
  right. destruct (positions_source ts _ G) as (k & Hk & E). exists ts, k.
  injection E as E1 E2. pose proof (stream_lines_kept input ts HL k Hk) as K.
  change (Parser.t_line (to_ptok k)) with (Z.to_nat (Lexer.t_line k)) in K. rewrite <- E1 in K.
  split; [exact HL|]. split; [exact Hk|]. split; [exact K|]. split; [exact E2|].
  intros Hne. destruct (stream_lines_true input ts HL k Hk Hne) as [A B]. split; [|exact B].
  change (Parser.t_line (to_ptok k)) with (Z.to_nat (Lexer.t_line k)) in A. rewrite <- E1 in A. exact A.
Qed.
Print Assumptions C07_source_error_position.

(* the lines the parser's same-line decisions compare (statement separation, `return` with or
   without a value, `[` as an index access) are the lexer's lines unchanged (EOF included), and
   for every token but EOF the true line of the token's byte offset *)
Theorem C07_source_tokens_lines_true :
  forall (input : bytes) (ts : list Lexer.token), Lexer.lex input = Outcome.Ok ts ->
    forall k, In k ts ->
      Z.of_nat (t_line (to_ptok k)) = Lexer.t_line k /\
      (Lexer.t_id k <> TokenEOF ->
         t_line (to_ptok k) = 1 + PositionSpec.nl_count input (Lexer.t_pos k) /\
         Lexer.t_pos k <= List.length input).
Proof.
  intros input ts H k Hk. split; [exact (stream_lines_kept input ts H k Hk)|].
  exact (stream_lines_true input ts H k Hk).
Qed.
Print Assumptions C07_source_tokens_lines_true.

(* non-vacuity: real source bytes through lexer model + adapter + parser model.
   a := 1 + 2 # c<LF>b      (comment token skipped; two statements, the second on line 2) *)
Example C07_example_source_tree :
  parse_source [97;32;58;61;32;49;32;43;32;50;32;35;32;99;10;98]%N
  = Outcome.Ok (PRes (Some
      (Node "statements" [] false false 0
         [Node ":=" [58; 61]%N false false 1
            [Node "identifier" [97]%N true false 1 [];
             Node "plus" [43]%N false false 1
               [Node "number" [49]%N false false 1 []; Node "number" [50]%N false false 1 []]];
          Node "identifier" [98]%N true false 2 []])) None 8).
Proof. vm_compute. reflexivity. Qed.

(* a ; <unclosed quote>     the lexer sends a, ;, error, EOF: a lexical error at line 1 column 5,
   all 4 tokens received (the witness of F10/F11 above, now from its source text) *)
Example C07_example_source_error :
  parse_source [97;32;59;32;34]%N = Outcome.Ok (PRes None (Some (E 2 1 5)) 4) /\
  option_map (map t_id) (match Lexer.lex [97;32;59;32;34]%N with Outcome.Ok ts => Some (source_tokens ts) | _ => None end)
  = Some [7; 30; 0; 1].
Proof. vm_compute. split; reflexivity. Qed.

(* x := f(1)[2].y ; if a { break } else { b }     the token list of C07_example_tree is what the
   lexer model produces from this text *)
Example C07_example_source_matches_token_example :
  option_map (fun ts => List.length ts) (match Lexer.lex
    [120;32;58;61;32;102;40;49;41;91;50;93;46;121;32;59;32;105;102;32;97;32;123;32;98;114;101;97;107;32;125;32;101;108;115;101;32;123;32;98;32;125]%N
    with Outcome.Ok ts => Some (source_tokens ts) | _ => None end) = Some 22 /\
  exists t, parse_source
    [120;32;58;61;32;102;40;49;41;91;50;93;46;121;32;59;32;105;102;32;97;32;123;32;98;114;101;97;107;32;125;32;101;108;115;101;32;123;32;98;32;125]%N
    = Outcome.Ok (PRes (Some t) None 22) /\ wfb t = true /\ node_size t = 18.
Proof. split; [vm_compute; reflexivity|]. eexists. split; [vm_compute; reflexivity|]. split; vm_compute; reflexivity. Qed.
