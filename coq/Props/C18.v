(* Props/C18.v — Tokens, errors and breakpoints carry the true source position.
   Only theorem statements, closed by [exact] / one-line proofs, and Print Assumptions.

   Two variants of the lexer model (Model/Lexer.v, switch v_line_comment_keeps_lastnl):
     [lex]           the code as it is in /repo (UNCHANGED): after a # line comment the
                     line counter is advanced but lastnl is not, so the column of every token
                     on the following line is counted from an earlier line start;
     [lex_repaired]  the code with the one-line repair (fixes/C18-line-comment-column.patch;
                     NOT applied: an existing test pins the wrong columns - known finding).
   [linecol] is the Spec (Spec/PositionSpec.v): line = 1 + number of newlines before the
   offset, column = 1 + offset - (offset just after the last such newline), in bytes. *)
From Coq Require Import ZArith.
From Ecal Require Import Common.Bytes Common.Outcome Model.Lexer Spec.PositionSpec
  Proofs.LexerBase Proofs.LexerProofs.

(* The unchanged code violates the property: in "#<LF>a" the identifier a (offset 2, line 2
   column 1) is reported at line 2 column 3. *)
Theorem C18_unchanged_line_comment_column_refuted :
  exists (input : bytes) (ts : list token) (t : token),
    lex input = Ok ts /\ In t ts /\ t_id t <> TokenEOF
    /\ (t_line t, t_col t) <> linecol input (t_pos t)
    /\ (t_line t, t_col t) = (2, 3)%Z /\ linecol input (t_pos t) = (2, 1)%Z.
Proof.
  exists [35; 10; 97]%N, [mkTok 4 1 [10]%N false false 0 1 2; mkTok 7 2 [97]%N true false 0 2 3;
                          mkTok 1 2 [] false false 0 2 3], (mkTok 7 2 [97]%N true false 0 2 3).
  vm_compute. repeat split; auto; discriminate.
Qed.
Print Assumptions C18_unchanged_line_comment_column_refuted.

(* What holds of the unchanged code, for EVERY input: the reported LINE of every token
   (error tokens included, EOF exempt) is the true line of the offset it reports, and that
   offset lies in the text.  Only columns are affected by the defect; statement separation,
   which compares token lines, is not.  (Stated for both variants.) *)
Theorem C18_token_lines_are_true_lines :
  forall (keeps : bool) (input : bytes) (ts : list token), lex_variant keeps input = Ok ts ->
    forall t, In t ts -> t_id t <> TokenEOF ->
      t_line t = (1 + Z.of_nat (nl_count input (t_pos t)))%Z /\ (t_pos t <= length input)%nat.
Proof. intros keeps. exact (lex_with_lines _ uni_is_control _ keeps uni_classifiers_ok). Qed.
Print Assumptions C18_token_lines_are_true_lines.

(* Partial statement for the unchanged code, honest guard: if the source text contains no
   '#' byte at all (so no line comment can occur), every token except EOF reports exactly
   the line and column of its offset. *)
Theorem C18_token_positions_true_partial :
  forall (input : bytes) (ts : list token), ~ In 35%N input -> lex input = Ok ts ->
    forall t, In t ts -> t_id t <> TokenEOF ->
      (t_line t, t_col t) = linecol input (t_pos t) /\ (t_pos t <= length input)%nat.
Proof.
  intros input ts H. exact (lex_with_positions _ uni_is_control _ true uni_classifiers_ok input ts (G_no_hash true input H)).
Qed.
Print Assumptions C18_token_positions_true_partial.

(* Full-strength statement, about the code WITH the one-line repair: for every input (no
   length bound, any mix of comments, strings, white space, multi-byte characters) every
   token except EOF, error tokens included, reports exactly the line and column of the
   offset it reports as Pos. *)
Theorem C18_token_positions_true_repaired_variant :
  forall (input : bytes) (ts : list token), lex_repaired input = Ok ts ->
    forall t, In t ts -> t_id t <> TokenEOF ->
      (t_line t, t_col t) = linecol input (t_pos t) /\ (t_pos t <= length input)%nat.
Proof.
  intros input ts. exact (lex_with_positions _ uni_is_control _ false uni_classifiers_ok input ts (G_repaired input)).
Qed.
Print Assumptions C18_token_positions_true_repaired_variant.

(* ... for any classification of runes that calls the newline a space and not a number. *)
Theorem C18_token_positions_true_any_classifier_repaired_variant :
  forall (is_space is_control is_number : rune -> bool), classifiers_ok is_space is_number ->
  forall (input : bytes) (ts : list token), lex_with is_space is_control is_number false input = Ok ts ->
    forall t, In t ts -> t_id t <> TokenEOF ->
      (t_line t, t_col t) = linecol input (t_pos t) /\ (t_pos t <= length input)%nat.
Proof. intros sp ct nm H input ts. exact (lex_with_positions sp ct nm false H input ts (G_repaired input)). Qed.
Print Assumptions C18_token_positions_true_any_classifier_repaired_variant.

(* Both variants return a token list for every input: no Go panic (slice bounds, negative
   position), every loop ends within its fuel (the main loop within 2*|input|+2 rounds). *)
Theorem C18_lexer_terminates :
  forall (keeps : bool) (input : bytes), exists ts, lex_variant keeps input = Ok ts.
Proof. intros keeps. exact (lex_with_total _ uni_is_control _ keeps uni_classifiers_ok). Qed.
Print Assumptions C18_lexer_terminates.

(* Both variants: the token list ends with EOF, with an error token, or with an error token
   followed by EOF, and EOF / error tokens occur nowhere else. *)
Theorem C18_lexer_ends_with_eof_or_error :
  forall (keeps : bool) (input : bytes) (ts : list token), lex_variant keeps input = Ok ts -> well_ended ts.
Proof. intros keeps. exact (lex_with_well_ended _ uni_is_control _ keeps uni_classifiers_ok). Qed.
Print Assumptions C18_lexer_ends_with_eof_or_error.

(* The Spec's line/column is what an editor shows: walk over the text from (1,1); a newline
   moves to the start of the next line, every other byte one column to the right. *)
Theorem C18_linecol_is_editor_position :
  forall (input : bytes) (off : nat), (off <= length input)%nat -> linecol_walk input off = linecol input off.
Proof. exact linecol_walk_eq. Qed.
Print Assumptions C18_linecol_is_editor_position.

(* Non-vacuity.  "a # c<LF>foo": with the repair foo is at line 2 column 1, the unchanged
   code says column 7. *)
Example C18_example_line_comment_repaired :
  lex_repaired [97;32;35;32;99;10;102;111;111]%N
  = Ok [mkTok 7 0 [97]%N true false 0 1 1; mkTok 4 3 [32;99;10]%N false false 0 1 4;
        mkTok 7 6 [102;111;111]%N true false 0 2 1; mkTok 1 6 [] false false 0 2 1].
Proof. vm_compute. reflexivity. Qed.

Example C18_example_line_comment_unchanged :
  lex [97;32;35;32;99;10;102;111;111]%N
  = Ok [mkTok 7 0 [97]%N true false 0 1 1; mkTok 4 3 [32;99;10]%N false false 0 1 4;
        mkTok 7 6 [102;111;111]%N true false 0 2 7; mkTok 1 6 [] false false 0 2 7].
Proof. vm_compute. reflexivity. Qed.

(* no '#' in the text (guard of the partial theorem): a raw two-line string, a block comment
   over two lines, CR LF and a two-byte character: r"x<LF>y" /* <LF> */ a é<CR><LF> b;
   é is no identifier character, the list ends with the error token at its true position *)
Example C18_example_mixed_unchanged :
  option_map (map (fun t => (Z.of_nat (t_id t), Z.of_nat (t_pos t), t_line t, t_col t)))
    (match lex [114;34;120;10;121;34;32;47;42;32;10;32;42;47;32;97;32;195;169;13;10;32;98]%N with
     | Ok ts => Some ts | _ => None end)
  = Some [(5, 0, 1, 1); (3, 9, 2, 6); (7, 15, 3, 5); (0, 17, 3, 7)]%Z.
Proof. vm_compute. reflexivity. Qed.
