(* Props/C06.v — No ECAL program, sink attribute or event can crash the host process.
   Only theorem statements, closed by [exact] / one line, and Print Assumptions.

   [eval_call parse fixed c] (Model/Prims.v) is the outcome of one primitive step of ECAL
   evaluation — an operator, a map literal, an element read or assignment, a built-in call,
   a sink declaration, raise under try — on ARBITRARY operands of the value universe;
   fixed = true is /repo with the C06 repairs, fixed = false the code before them.
   [parse] stands for strconv.ParseFloat on string arguments and is arbitrary. *)
From Coq Require Import ZArith String List Bool.
From Ecal Require Import Common.Outcome Model.Prims Spec.NoCrashSpec Proofs.PrimsProofs Proofs.PrimsSites gen.PartialOps.
Import ListNotations.
Open Scope string_scope.

(* For EVERY operator / built-in / access primitive and EVERY argument vector the repaired
   code returns a value or an error value: never a panic (and nothing is fuelled). *)
Theorem C06_prims_no_panic :
  forall (parse : string -> option num) (c : call), survives (eval_call parse true c).
Proof. intros parse c; apply good_survives, eval_call_good. Qed.
Print Assumptions C06_prims_no_panic.

Theorem C06_prims_never_panic_outcome :
  forall (parse : string -> option num) (c : call), is_panic (eval_call parse true c) = false.
Proof. intros parse c; apply good_not_panic, eval_call_good. Qed.
Print Assumptions C06_prims_never_panic_outcome.

(* Every error produced is an ordinary runtime error value: its type is one of the
   interpreter's error classes and both a catch-all except clause and a clause naming the
   type select it; under a try with a catch-all clause every primitive yields a value. *)
Theorem C06_errors_catchable :
  forall (parse : string -> option num) (c : call) (e : string),
    eval_call parse true c = Err e -> In e classes /\ catchable e.
Proof.
  intros parse c e H; split; [|apply catchable_any].
  pose proof (eval_call_good parse c) as G; rewrite H in G; exact G.
Qed.
Print Assumptions C06_errors_catchable.

Theorem C06_try_contains_every_failure :
  forall (parse : string -> option num) (c : call),
    exists k, under_try KNull (eval_call parse true c) = Ok k.
Proof. exact under_try_survives. Qed.
Print Assumptions C06_try_contains_every_failure.

(* An error inside one sink invocation is reported for that invocation only. *)
Theorem C06_sink_error_is_local :
  forall (pre post : list res) (b b' : res) (i : nat), i <> length pre ->
    nth_error (invocation_reports (pre ++ b :: post)) i = nth_error (invocation_reports (pre ++ b' :: post)) i.
Proof. intros; apply invocation_local; assumption. Qed.
Print Assumptions C06_sink_error_is_local.

(* The failures the property text lists come back as ERRORS (not as values). *)
Theorem C06_modulo_by_zero_is_error :
  forall parse x y, trunc y = 0%Z -> eval_call parse true (CBin OMod (VNum x) (VNum y)) = Err E_RUNTIME.
Proof. exact mod_zero_is_error. Qed.
Print Assumptions C06_modulo_by_zero_is_error.

Theorem C06_comparing_containers_is_error :
  forall parse op a b, (op = OEq \/ op = ONeq) -> uncomparable a b = true ->
    eval_call parse true (CBin op a b) = Err E_RUNTIME.
Proof. exact compare_containers_is_error. Qed.
Print Assumptions C06_comparing_containers_is_error.

Theorem C06_in_on_containers_is_error :
  forall parse a b l, uncomparable a b = true -> eval_call parse true (CBin OIn a (VList (b :: l))) = Err E_RUNTIME.
Proof. exact in_container_is_error. Qed.
Print Assumptions C06_in_on_containers_is_error.

Theorem C06_hashing_container_is_error :
  forall parse k v es, hashable k = false -> is_error (eval_call parse true (CMapLit (EKvp k v :: es))).
Proof. intros parse k v es H; destruct (hash_container_is_error parse k v es H) as [E|E]; rewrite E; eexists; reflexivity. Qed.
Print Assumptions C06_hashing_container_is_error.

Theorem C06_malformed_map_literal_is_error :
  forall parse es, forallb is_kvp es = false -> eval_call parse true (CMapLit es) = Err E_INVCONS.
Proof. exact malformed_literal_is_error. Qed.
Print Assumptions C06_malformed_map_literal_is_error.

Theorem C06_index_out_of_range_is_error :
  forall parse l t i, (i < - zlen l \/ zlen l <= i)%Z ->
    eval_call parse true (CGet (VList l) [mkF t (Some i)]) = Err E_PLAIN.
Proof. exact index_out_of_range_is_error. Qed.
Print Assumptions C06_index_out_of_range_is_error.

Theorem C06_del_out_of_range_is_error :
  forall parse l ix n, assert_num parse ix = Some n -> (trunc n < 0 \/ zlen l <= trunc n)%Z ->
    eval_call parse true (CBuiltin BDel [VList l; ix]) = Err E_RUNTIME.
Proof. exact del_out_of_range_is_error. Qed.
Print Assumptions C06_del_out_of_range_is_error.

Theorem C06_add_out_of_range_is_error :
  forall parse l v ix n, assert_num parse ix = Some n -> (trunc n < 0 \/ zlen l < trunc n)%Z ->
    eval_call parse true (CBuiltin BAdd [VList l; v; ix]) = Err E_RUNTIME.
Proof. exact add_out_of_range_is_error. Qed.
Print Assumptions C06_add_out_of_range_is_error.

Theorem C06_sink_attribute_of_wrong_kind_is_error :
  forall parse a v rest, attr_ok a v = false -> eval_call parse true (CSink ((a, v) :: rest)) = Err E_INVCONS.
Proof. exact sink_attr_wrong_kind_is_error. Qed.
Print Assumptions C06_sink_attribute_of_wrong_kind_is_error.

Theorem C06_builtin_without_arguments_is_error :
  forall parse f, is_error (eval_call parse true (CBuiltin f [])).
Proof. exact builtin_no_args_is_error. Qed.
Print Assumptions C06_builtin_without_arguments_is_error.

(* Tie to the source: every partial Go operation inventoried in the anchored files
   (gen/PartialOps.v, regenerated from /repo on every run) is mapped to the model primitive
   and lemma that discharges it, or to the guard / construction that makes it safe.  A new
   partial operation, or a site whose guard changed, has no entry and breaks this. *)
Theorem C06_all_sites_discharged :
  forallb site_covered partial_ops = true /\ checks_present = true.
Proof. split; vm_compute; reflexivity. Qed.
Print Assumptions C06_all_sites_discharged.

(* Refutation witnesses for the code BEFORE the repairs (replayed first by the harness). *)
Theorem C06_old_mod_zero_panics :
  forall parse, eval_call parse false (CBin OMod (VNum (NFin 5 0)) (VNum (NFin 0 0))) = Panic S_MOD.
Proof. reflexivity. Qed.
Theorem C06_old_list_equality_panics :
  forall parse, eval_call parse false (CBin OEq (VList [VNum (NFin 1 0)]) (VList [VNum (NFin 1 0)])) = Panic S_EQ.
Proof. reflexivity. Qed.
Theorem C06_old_in_on_lists_panics :
  forall parse, eval_call parse false (CBin OIn (VList [VNum (NFin 1 0)]) (VList [VList [VNum (NFin 1 0)]])) = Panic S_IN.
Proof. reflexivity. Qed.
Theorem C06_old_list_as_map_key_panics :
  forall parse, eval_call parse false (CMapLit [EKvp (VList [VNum (NFin 1 0)]) (VNum (NFin 2 0))]) = Panic S_MAPKEY.
Proof. reflexivity. Qed.
Theorem C06_old_malformed_map_literal_panics :
  forall parse, eval_call parse false (CMapLit [EBare (VNum (NFin 1 0))]) = Panic S_MAPKVP.
Proof. reflexivity. Qed.
Theorem C06_old_negative_index_panics :
  forall parse, eval_call parse false
    (CGet (VList [VNum (NFin 1 0); VNum (NFin 2 0); VNum (NFin 3 0)]) [mkF "-5" (Some (-5)%Z)]) = Panic S_GET.
Proof. reflexivity. Qed.
Theorem C06_old_del_out_of_range_panics :
  forall parse, eval_call parse false
    (CBuiltin BDel [VList [VNum (NFin 1 0); VNum (NFin 2 0); VNum (NFin 3 0)]; VNum (NFin 5 0)]) = Panic S_DEL.
Proof. reflexivity. Qed.
Theorem C06_old_add_out_of_range_panics :
  forall parse, eval_call parse false
    (CBuiltin BAdd [VList [VNum (NFin 1 0)]; VNum (NFin 2 0); VNum (NFin 5 0)]) = Panic S_ADD.
Proof. reflexivity. Qed.
Theorem C06_old_raise_without_arguments_panics_in_try :
  forall parse, eval_call parse false (CTryRaise 0) = Panic S_RAISE.
Proof. reflexivity. Qed.

(* Non-vacuity: the repaired primitives on the same witnesses are errors / values. *)
Example C06_example :
  let p := fun _ : string => @None num in
  map (eval_call p true)
    [CBin OMod (VNum (NFin 5 0)) (VNum (NFin 0 0));
     CBin OMod (VNum (NFin 5 0)) (VNum (NFin 3 0));
     CBin OEq (VList []) (VList []);
     CBin OEq (VList []) (VMap []);
     CGet (VList [VNum (NFin 1 0); VNum (NFin 2 0); VNum (NFin 3 0)]) [mkF "-5" (Some (-5)%Z)];
     CGet (VList [VNum (NFin 1 0); VNum (NFin 2 0); VNum (NFin 3 0)]) [mkF "-1" (Some (-1)%Z)];
     CBuiltin BAdd [VList [VNum (NFin 1 0)]; VNum (NFin 2 0); VNum (NFin 1 0)];
     CTryRaise 0]
  = [Err E_RUNTIME; Ok KNum; Err E_RUNTIME; Ok KBool; Err E_PLAIN; Ok KNum; Ok KList; Ok KNull].
Proof. vm_compute. reflexivity. Qed.
