(* Props/C14.v — String interpolation evaluates only the literal's own expressions, once.
   Only theorem statements, closed by [exact], and Print Assumptions. *)
From Ecal Require Import Common.Bytes Model.StrInterp Spec.StrInterpSpec Proofs.StrInterpProofs.

(* Refinement, both directions, for every literal and every evaluator: the model's
   output and call log are exactly what the Spec relation prescribes. *)
Theorem C14_interp_single_pass :
  forall (ev : bytes -> bytes) (lit out : bytes) (log : list bytes),
    interp ev (interp_fuel lit) lit = Some (out, log) <-> Interp ev lit out log.
Proof. intros ev lit out log; split; [apply interp_sound | apply interp_complete]. Qed.
Print Assumptions C14_interp_single_pass.

(* Any arrangement of "{{" and "}}" yields a string: the fuel never runs out (no endless
   loop) and the model has no panic outcome at all. *)
Theorem C14_interp_total :
  forall (ev : bytes -> bytes) (lit : bytes),
    exists out log, interp ev (interp_fuel lit) lit = Some (out, log).
Proof. exact interp_total. Qed.
Print Assumptions C14_interp_total.

(* Data never becomes code: the expressions that get evaluated are a function of the
   literal alone — whatever text the substitutions produce. *)
Theorem C14_data_never_code :
  forall (ev1 ev2 : bytes -> bytes) (lit : bytes),
    option_map snd (interp ev1 (interp_fuel lit) lit) = option_map snd (interp ev2 (interp_fuel lit) lit).
Proof. intros; apply log_independent. Qed.
Print Assumptions C14_data_never_code.

(* ... each of them is written in the literal between "{{" and "}}" ... *)
Theorem C14_log_from_literal :
  forall (ev : bytes -> bytes) (lit out : bytes) (log : list bytes),
    interp ev (interp_fuel lit) lit = Some (out, log) ->
    forall c, In c log -> occurs (OPEN ++ c ++ CLOSE) lit.
Proof. intros ev lit out log; apply log_from_literal. Qed.
Print Assumptions C14_log_from_literal.

(* ... and the result depends on the evaluator only through these expressions. *)
Theorem C14_output_depends_on_own_codes_only :
  forall (ev1 ev2 : bytes -> bytes) (lit out : bytes) (log : list bytes),
    interp ev1 (interp_fuel lit) lit = Some (out, log) ->
    (forall c, In c log -> ev1 c = ev2 c) ->
    interp ev2 (interp_fuel lit) lit = Some (out, log).
Proof. intros ev1 ev2 lit; apply output_depends_on_codes_only. Qed.
Print Assumptions C14_output_depends_on_own_codes_only.

(* Nothing but the "{{code}}" segments changes: re-wrapping every code reproduces the literal. *)
Theorem C14_only_segments_change :
  forall (lit out : bytes) (log : list bytes),
    interp (fun c => OPEN ++ c ++ CLOSE) (interp_fuel lit) lit = Some (out, log) -> out = lit.
Proof. intros lit; apply interp_rewrap_identity. Qed.
Print Assumptions C14_only_segments_change.

(* A raw string is returned untouched and evaluates nothing. *)
Theorem C14_raw_untouched :
  forall (ev : bytes -> bytes) (lit : bytes), eval_string ev false lit = Some (lit, []).
Proof. reflexivity. Qed.
Print Assumptions C14_raw_untouched.

(* Non-vacuity: a literal with two expressions, a stray "}}" and an unclosed "{{";
   the substituted text of the first itself contains "{{b}}" and is not evaluated. *)
Example C14_example :
  let ev := fun c => if bytes_eqb c [97] then [123;123;98;125;125] else [88] in
  interp ev (interp_fuel [125;125;123;123;97;125;125;45;123;123;98;125;125;123;123])
            [125;125;123;123;97;125;125;45;123;123;98;125;125;123;123]
  = Some ([125;125;123;123;98;125;125;45;88;123;123], [[97];[98]]).
Proof. vm_compute. reflexivity. Qed.
