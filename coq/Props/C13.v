(* Props/C13.v — Parsing is a pure, re-entrant function of its input.
   Only theorem statements, closed by [exact] / one-line proofs, and Print Assumptions. *)
From Coq Require Import String List NArith Bool.
Import ListNotations.
Local Open Scope list_scope.
From Ecal Require Import Common.Sched gen.SharedWrites Model.ParseShared Spec.ReentrantSpec
  Proofs.ParseSharedProofs.

(* ---- static tie, re-checked against the regenerated scan of /repo on every run ------------ *)

(* No statement of parser/ or interpreter/ writes a package-level variable after init without
   a mutex or sync/atomic. *)
Theorem C13_no_unprotected_shared_writes : unprotected_writes = [].
Proof. vm_compute. reflexivity. Qed.
Print Assumptions C13_no_unprotected_shared_writes.

(* ... and every access of a variable that is written uses the same guard as the write, no
   map that is written is read unguarded, no file of the packages escaped the scan. *)
Theorem C13_static_race_free : static_race_free shared_writes shared_reads unscanned_files.
Proof. repeat split; vm_compute; reflexivity. Qed.
Print Assumptions C13_static_race_free.

(* ---- non-interference, for arbitrary step machines ------------------------------------- *)

(* n threads, each a deterministic step machine over its own state that reads a view of the
   shared state; if no step changes that view then, under EVERY schedule, the view stays what
   it was and a finished thread holds the state it reaches running alone. *)
Theorem C13_noninterference_generic :
  forall (shared view core aux : Type) (vw : shared -> view) (cstep : view -> core -> core)
         (astep : shared -> core -> aux -> aux) (wstep : shared -> core -> shared)
         (done : core -> bool),
    (forall sh c, vw (wstep sh c) = vw sh) ->
    (forall v c, done c = true -> cstep v c = c) ->
    forall sched sh ths s',
      run (gstep vw cstep astep wstep) (sh, ths) sched = Some s' ->
      vw (fst s') = vw sh /\
      forall t c' a' c0 a0 k,
        nth_error ths t = Some (c0, a0) ->
        nth_error (snd s') t = Some (c', a') -> done c' = true ->
        done (iter_core cstep (vw sh) k c0) = true ->
        c' = iter_core cstep (vw sh) k c0.
Proof.
  intros shared view core aux vw cstep astep wstep done Hv Hd sched sh ths s' H. split.
  - exact (proj1 (gen_noninterference _ _ _ _ vw cstep astep wstep Hv _ _ _ _ H)).
  - intros t c' a' c0 a0 k H0 H1 H2 H3.
    exact (gen_result_is_sequential _ _ _ _ vw cstep astep wstep Hv done Hd _ _ _ _ _ _ _ _ _ _ H H0 H1 H2 H3).
Qed.
Print Assumptions C13_noninterference_generic.

(* ---- the parser ----------------------------------------------------------------------- *)

(* If the scan lists no write of the grammar table, then for every number of concurrent
   parses, all texts, every initial table and counter and EVERY schedule: the table is
   unchanged and every finished parse made exactly the look-ups (so built the tree or
   error) of the same parse running alone. *)
Theorem C13_schedule_independent :
  forall ws : list shared_write,
    writes_var grammar_table_var ws = false ->
    forall (progs : list (list action)) (tbl : entry) (ctr : N) (sched : list nat) (s' : pstate),
      run (pstep (proto_of_scan ws)) (pinit tbl ctr progs) sched = Some s' ->
      pview (fst s') = tbl /\
      forall t th prog,
        nth_error (snd s') t = Some th -> nth_error progs t = Some prog ->
        pdone (fst th) = true ->
        pc_trace (fst th) = seq_trace (proto_of_scan ws) tbl prog.
Proof. exact scan_schedule_independent. Qed.
Print Assumptions C13_schedule_independent.

(* ... which is the case for the code as scanned now. *)
Theorem C13_repo_schedule_independent :
  forall (progs : list (list action)) (tbl : entry) (ctr : N) (sched : list nat) (s' : pstate),
    run (pstep (proto_of_scan shared_writes)) (pinit tbl ctr progs) sched = Some s' ->
    pview (fst s') = tbl /\
    forall t th prog,
      nth_error (snd s') t = Some th -> nth_error progs t = Some prog ->
      pdone (fst th) = true ->
      pc_trace (fst th) = seq_trace (proto_of_scan shared_writes) tbl prog.
Proof. apply scan_schedule_independent. vm_compute. reflexivity. Qed.
Print Assumptions C13_repo_schedule_independent.

(* The repaired protocol meets the Spec's definition of re-entrancy. *)
Theorem C13_reentrant :
  forall progs tbl ctr,
    Reentrant pstate pthread (list entry) (pstep New)
      (fun s t => nth_error (snd s) t) (fun th => pdone (fst th)) (fun th => pc_trace (fst th))
      (pinit tbl ctr progs)
      (fun t r => forall prog, nth_error progs t = Some prog -> r = seq_trace New tbl prog).
Proof. exact new_reentrant. Qed.
Print Assumptions C13_reentrant.

(* With an atomically incremented counter, under every schedule (either protocol), all
   instance ids handed to runtime components are pairwise distinct. *)
Theorem C13_instance_ids_unique :
  forall p progs tbl ctr sched s',
    run (pstep p) (pinit tbl ctr progs) sched = Some s' -> ids_unique (all_ids s').
Proof. exact instance_ids_unique. Qed.
Print Assumptions C13_instance_ids_unique.

(* Every schedule at hook granularity (what the harness can force) is a schedule; the
   repaired model predicts "equal to the sequential result" for all of them. *)
Theorem C13_hook_schedules_sequential :
  forall progs sched s',
    run_big New progs sched = Some s' ->
    forall t th prog,
      nth_error (snd s') t = Some th -> nth_error progs t = Some prog ->
      pdone (fst th) = true -> pc_trace (fst th) = seq_trace New EMap prog.
Proof. exact run_big_new_sequential. Qed.
Print Assumptions C13_hook_schedules_sequential.

(* ---- the code before the repair: replayable witnesses ---------------------------------- *)

(* Thread 0 parses "if a { }", thread 1 parses "x := { }".  0 runs up to its hook (table
   entry swapped), 1 runs to the end, 0 finishes: thread 1's '{' was looked up as a block,
   alone it is a map literal. *)
Theorem C13_old_table_swap_refuted :
  exists s',
    run (pstep Old) (pinit EMap 0 [prog_if; prog_map]) witness_sched = Some s' /\
    all_done s' = true /\
    nth_error (traces s') 1 = Some [EBlock] /\
    seq_trace Old EMap prog_map = [EMap].
Proof. exact old_table_swap_refuted. Qed.
Print Assumptions C13_old_table_swap_refuted.

(* Two "if" parses: after both have ended the shared table is still swapped (lost update),
   and the second one saw a map literal where its block starts. *)
Theorem C13_old_table_swap_permanent_refuted :
  exists s',
    run (pstep Old) (pinit EMap 0 [prog_if; prog_if]) witness_sched_permanent = Some s' /\
    all_done s' = true /\
    pview (fst s') = EBlock /\
    nth_error (traces s') 1 = Some [EMap] /\
    seq_trace Old EMap prog_if = [EBlock].
Proof. exact old_table_swap_permanent_refuted. Qed.
Print Assumptions C13_old_table_swap_permanent_refuted.

(* instanceCounter++ as load + store: two components get id 1. *)
Theorem C13_old_counter_duplicate_refuted :
  exists s',
    run old_counter_step (0%N, [mkCT None []; mkCT None []]) [0;1;0;1] = Some s' /\
    map ct_ids (snd s') = [[1%N]; [1%N]].
Proof. exact old_counter_duplicate_refuted. Qed.
Print Assumptions C13_old_counter_duplicate_refuted.

(* Non-vacuity: the same two schedules in the repaired protocol give the sequential traces. *)
Example C13_example :
  option_map traces (run (pstep New) (pinit EMap 0 [prog_if; prog_map]) witness_sched)
    = Some [[EBlock]; [EMap]] /\
  option_map traces (run (pstep New) (pinit EMap 0 [prog_if; prog_if]) witness_sched_permanent)
    = Some [[EBlock]; [EBlock]].
Proof. exact new_witness_ok. Qed.
