(* Props/C02.v — waiting on an event returns after its whole cascade, with exactly its errors.
   Every statement is over every reachable state of Model/Cascade.v: any schedule of any
   number of adding goroutines, workers and cascades, any finite behaviour of rule actions. *)
From Ecal Require Import Model.Cascade Spec.CascadeSpec Proofs.CascadeProofs Proofs.CascadeMain Proofs.CascadeProgress.

(* unfinished = number of created and not yet counted-down monitors of that root; at least 1
   while any task of the cascade is queued, running or not yet finished *)
Theorem C02_unfinished_counts : forall s, reach s -> forall r R, roots s r = Some R ->
  r_unf R = Z.of_nat (count_unf s r) /\
  (forall m M, mons s m = Some M -> m_root M = r -> unfinb (m_phase M) = true -> (1 <= r_unf R)%Z).
Proof. exact thm_counts. Qed.
Print Assumptions C02_unfinished_counts.

(* the finished message and the finish handler fire at most once, only in quiet states, and
   exactly once (handler: iff the root event triggered) when the cascade has nothing left to do *)
Theorem C02_finish_posted_exactly_once : forall s, reach s -> spec_at_most_once s /\ spec_exactly_once s.
Proof. intros s H. split; [apply thm_at_most_once | apply thm_exactly_once]; exact H. Qed.
Print Assumptions C02_finish_posted_exactly_once.

(* the waiter is released only when every monitor of the cascade has been counted down (which
   happens after ProcessEvent returned for it); a returned waiting call was released; and from
   a quiet state on no action of that cascade runs or returns any more *)
Theorem C02_wait_returns_after_last_action : forall s, reach s ->
  spec_wait s /\ spec_return s /\
  (forall r R l s', roots s r = Some R -> quiet s r -> step s l = Some s' ->
     quiet s' r /\ forall m M M', mons s m = Some M -> m_root M = r -> mons s' m = Some M' -> m_stamps M' = m_stamps M).
Proof.
  intros s H. split; [apply thm_wait; exact H|]. split; [apply thm_return; exact H|].
  intros r R l s' HR Q St. eapply thm_quiet_final; eauto.
Qed.
Print Assumptions C02_wait_returns_after_last_action.

Theorem C02_all_handed_monitors_finished : forall s, reach s -> spec_all_finished s.
Proof. exact thm_all_finished. Qed.
Print Assumptions C02_all_handed_monitors_finished.

Theorem C02_errors_exact : forall s, reach s -> spec_errors s.
Proof. exact thm_errors. Qed.
Print Assumptions C02_errors_exact.

(* neither "Finished monitor left events behind" nor a negative WaitGroup counter is reachable *)
Theorem C02_no_assertion_panic : forall s, reach s -> spec_no_panic s.
Proof. exact thm_no_panic. Qed.
Print Assumptions C02_no_assertion_panic.

(* progress: an unsettled cascade has an enabled step of its own.  Assumptions made explicit by
   the model: a queued task can be popped (an idle worker takes a queued task: C09), a started
   action can return (LActEnd). *)
Theorem C02_no_stuck : forall s, reach s -> spec_progress s.
Proof. exact thm_progress. Qed.
Print Assumptions C02_no_stuck.

(* ---- non-vacuity: fan-out 3 (one child skipped), depth 2, two failing rules, a waiting adder *)
Definition ex_trace : list label :=
  [LNewRoot 1 true; LObsWaiter 1; LObsHandler 1; LActivate 1; LPush 1; LAdderNext 1; LPop 1;
   LActStart 1 10; LChild 1 2; LActivate 2; LPush 2; LChild 1 3; LSkip 3; LActEnd 1 10 false;
   LActStart 1 11; LChild 1 4; LActivate 4; LPush 4; LActEnd 1 11 true; LProcEnd 1; LErrAttach 1; LFinish 1;
   LPop 2; LActStart 2 10; LChild 2 5; LActivate 5; LPush 5; LActEnd 2 10 false; LProcEnd 2; LFinish 2;
   LPop 4; LActStart 4 12; LActEnd 4 12 false; LProcEnd 4; LFinish 4;
   LPop 5; LActStart 5 13; LActEnd 5 13 true; LProcEnd 5; LErrAttach 5; LFinish 5; LPost 5;
   LWaiterDone 5; LCbRemove 5; LHandler 5; LCbRemove 5; LTqCheck 5; LWaitReturn 1].

Definition obs_of (t : list label) (r : nat) :=
  match run step init t with
  | Some s => Some (settledb s r, all_errors s r,
                    match roots s r with Some R => Some (r_posted R, r_handler R, r_released R) | None => None end)
  | None => None
  end.

Example C02_nonvacuous : obs_of ex_trace 1 = Some (true, [(1, [11]); (5, [13])], Some (1, 1, true)).
Proof. vm_compute. reflexivity. Qed.

(* the release cannot come earlier: the same run with the waiter callback moved before the last Finish is not a run *)
Example C02_early_release_not_a_run :
  first_invalid step init (firstn 40 ex_trace ++ [LWaiterDone 5]) 0 = Some 40.
Proof. vm_compute. reflexivity. Qed.
