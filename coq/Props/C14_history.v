(* Props/C14_history.v — refutation of the full C14 statement for the UNREPAIRED code
   (Model/StrInterpOld.v).  Each witness was replayed on the implementation before the
   repair (see KNOWN_FINDINGS.txt, "fixed: property=C14") and stays in the harness corpus. *)
From Ecal Require Import Common.Bytes Common.Outcome Model.StrInterp Model.StrInterpOld.

(* "}}{{" : a crash instead of a string *)
Theorem C14_old_total_refuted :
  exists lit, forall ev fuel, fuel <> O -> is_panic (interp_old ev fuel lit []) = true.
Proof. exists [125;125;123;123]. intros ev [|f] H; [congruence|reflexivity]. Qed.
Print Assumptions C14_old_total_refuted.

(* a := r"{{a}}"; "x{{a}}" : the loop never ends (every round reproduces its input) *)
Theorem C14_old_endless_loop :
  exists ev lit, old_round ev lit = Ok (Some lit).
Proof.
  exists (fun c => [123;123] ++ c ++ [125;125]), [120;123;123;97;125;125].
  vm_compute. reflexivity.
Qed.
Print Assumptions C14_old_endless_loop.

(* data became code: the evaluated expressions depend on what a substitution returned *)
Theorem C14_old_data_becomes_code :
  exists ev1 ev2 lit fuel l1 l2 o1 o2,
    interp_old ev1 fuel lit [] = Ok (o1, l1) /\ interp_old ev2 fuel lit [] = Ok (o2, l2) /\ l1 <> l2.
Proof.
  exists (fun c => if bytes_eqb c [97] then [123;123;98;125;125] else [88]),
         (fun c => [88]), [120;123;123;97;125;125], 5%nat.
  eexists. eexists. eexists. eexists.
  split; [vm_compute; reflexivity|]. split; [vm_compute; reflexivity|]. discriminate.
Qed.
Print Assumptions C14_old_data_becomes_code.
