(* Props/C10.v — Priorities order execution; the first failing rule ends a trigger sequence.
   Theorem statements closed by [exact]/one-liners, Print Assumptions, non-vacuity examples. *)
From Coq Require Import List ZArith Bool Lia Permutation Sorting.Sorted.
From Ecal Require Import Common.Outcome Common.Sched Model.IntHeap Model.Monitor Model.TaskQueue
  Spec.PrioritySpec Proofs.MonitorProofs Proofs.TaskQueueProofs.
Import ListNotations.
Open Scope Z_scope.

(* ---- the root monitor's highest-priority report ------------------------------------- *)

(* For EVERY history of NewChildMonitor / Activate / Skip / Finish calls on a cascade that the
   (repaired) monitor code runs without a failing assertion, HighestPriority() is the lowest
   priority number among the monitors activated (by a triggering event) and not finished, and
   -1 if there is none. *)
Theorem C10_highest_priority_report_exact :
  forall (hist : list op) (s : rootmon),
    mon_run new_root hist = Ok s -> HighestIs hist (highest_priority s).
Proof. exact highest_priority_exact. Qed.
Print Assumptions C10_highest_priority_report_exact.

(* The guard above is exactly the API protocol: existing monitor, activated or skipped at most
   once, finished once and after its activation. *)
Theorem C10_protocol_is_exactly_no_failed_assertion :
  forall hist : list op, protocol_ok hist <-> exists s, mon_run new_root hist = Ok s.
Proof. exact protocol_exact. Qed.
Print Assumptions C10_protocol_is_exactly_no_failed_assertion.

(* The heart: in every reachable state the priorities array is a heap without duplicates whose
   elements are the priorities with a non-zero count, and the counts are exact. *)
Theorem C10_heap_invariant_maintained :
  forall (hist : list op) (s : rootmon), mon_run new_root hist = Ok s -> book_inv s.
Proof. intros hist s H. exact (proj1 (reach_inv hist s H)). Qed.
Print Assumptions C10_heap_invariant_maintained.

(* container/heap itself, for any element type and any Less that is asymmetric with a
   transitive complement: Push and Pop keep the heap invariant and the multiset, Pop returns
   the element at index 0, which is a minimum. *)
Theorem C10_heap_push_pop_correct :
  forall (A : Type) (ltb : A -> A -> bool) (d : A),
    (forall x y z, le A ltb x y -> le A ltb y z -> le A ltb x z) ->
    (forall x y, ltb x y = true -> le A ltb x y) ->
    (forall l x, heap_inv A ltb d l ->
       heap_inv A ltb d (heap_push ltb d l x) /\ Permutation (heap_push ltb d l x) (x :: l)) /\
    (forall l, l <> [] -> heap_inv A ltb d l ->
       exists l', heap_pop ltb d l = Some (nth 0 l d, l') /\ heap_inv A ltb d l' /\
                  Permutation (nth 0 l d :: l') l /\ forall y, In y l -> le A ltb (nth 0 l d) y).
Proof.
  intros A ltb d Ht Hl. split.
  - intros l x H. split; [apply push_heap; assumption | apply push_perm].
  - intros l Hne H. destruct (pop_spec A ltb d Ht Hl l Hne H) as (l' & H1 & H2 & H3 & _).
    exists l'. split; [exact H1|]. split; [exact H2|]. split; [exact H3|].
    destruct l as [|a t]; [congruence|]. intros y Hy. cbn [nth].
    exact (heap_head_min A ltb d Ht Hl (a :: t) a t eq_refl H y Hy).
Qed.
Print Assumptions C10_heap_push_pop_correct.

(* The loops of up and down carry fuel; the fuel the callers pass (j+1 resp. n-i+... ) is
   enough: any larger amount gives the same result, i.e. the loop ended by its own break. *)
Theorem C10_heap_fuel_sufficient :
  forall (A : Type) (ltb : A -> A -> bool) (d : A),
    (forall fuel l j f2, (j < fuel)%nat -> (fuel <= f2)%nat -> up ltb d f2 l j = up ltb d fuel l j) /\
    (forall fuel l i n f2, (n <= fuel + i)%nat -> (fuel <= f2)%nat -> down ltb d f2 l i n = down ltb d fuel l i n).
Proof. intros A ltb d. split; [apply up_fuel | apply down_fuel]. Qed.
Print Assumptions C10_heap_fuel_sufficient.

(* The code before the repair (IntHeap.RemoveFirst in descendantFinished; Skip marking the
   monitor activated) does not have the property: replayable witnesses. *)
Definition F15_history : list op :=
  [Activate 0; NewChild 3; Activate 1; NewChild 1; Activate 2; NewChild 4; Activate 3;
   NewChild 5; Activate 4; NewChild 2; Activate 5; Finish 2; Finish 0]%nat.

Theorem C10_old_removefirst_refuted :
  exists hist s, protocol_ok hist /\ mon_run_removefirst_only new_root hist = Ok s /\
                 highest_priority s = 3 /\ ~ HighestIs hist (highest_priority s).
Proof.
  exists F15_history. eexists. split; [|split; [vm_compute; reflexivity|split; [reflexivity|]]].
  - apply protocol_exact. eexists. vm_compute. reflexivity.
  - cbn [highest_priority priorities]. intros [[H _]|(m & _ & _ & Hmin)]; [discriminate|].
    specialize (Hmin 5%nat 2). assert (3 <= 2); [|lia]. apply Hmin; [|reflexivity].
    split; [simpl; tauto|]. simpl. intuition discriminate.
Qed.
Print Assumptions C10_old_removefirst_refuted.

Definition F16_history : list op := [NewChild 2; Activate 1; NewChild 2; Skip 2]%nat.

Theorem C10_old_skip_refuted :
  exists hist s, protocol_ok hist /\ mon_run_skip_only new_root hist = Ok s /\
                 highest_priority s = -1 /\ ~ HighestIs hist (highest_priority s).
Proof.
  exists F16_history. eexists. split; [|split; [vm_compute; reflexivity|split; [reflexivity|]]].
  - apply protocol_exact. eexists. vm_compute. reflexivity.
  - cbn [highest_priority priorities]. intros [[_ H]|(m & _ & Hp & _)].
    + apply (H 1%nat). split; [simpl; tauto|]. simpl. intuition discriminate.
    + unfold prio_in in Hp. destruct m as [|[|[|m]]]; simpl in Hp; try discriminate. destruct m; discriminate.
Qed.
Print Assumptions C10_old_skip_refuted.

(* ---- taking the next event of a cascade --------------------------------------------- *)

(* For EVERY sequence of pushes and pops — any cascade chosen at a pop, any set of empty
   queues deleted on the way — that the task queue can perform, the same sequence is a run of
   the Spec in which every pop takes, from the chosen cascade, the element with the lowest
   priority number, oldest first among equals (spec_step / Takes), and a nil answer only occurs
   when nothing is queued at all. *)
Theorem C10_pop_takes_minimum_oldest_first :
  forall (trace : list tq_label) (s : tqstate),
    run tq_step [] trace = Some s ->
    exists S, spec_run (fun _ => []) trace S /\ R s S.
Proof. intros trace s H. exact (tq_refines trace [] (fun _ => []) s R_init H). Qed.
Print Assumptions C10_pop_takes_minimum_oldest_first.

(* ... so an event is never taken before a higher-priority event that was queued earlier
   (everything older in that cascade's queue has a strictly larger number, everything newer a
   larger or equal one). *)
Theorem C10_never_before_earlier_higher_priority :
  forall (trace : list tq_label) cleaned root task (s : tqstate),
    run tq_step [] (trace ++ [TPop cleaned root task]) = Some s ->
    exists S older x newer,
      spec_run (fun _ => []) trace S /\ S root = older ++ x :: newer /\ snd x = task /\
      (forall y, In y older -> fst x < fst y) /\ (forall y, In y newer -> fst x <= fst y).
Proof. exact pop_after_trace. Qed.
Print Assumptions C10_never_before_earlier_higher_priority.

(* a worker that picks a cascade with queued events gets one *)
Theorem C10_pop_answers_when_queued :
  forall s S root, R s S -> S root <> [] -> exists task s', tq_pop s [] root = Some (task, s').
Proof. exact pop_progress. Qed.
Print Assumptions C10_pop_answers_when_queued.

(* the relational demand and its executable form agree (the Spec is deterministic) *)
Theorem C10_takes_is_deterministic :
  forall l x r, Takes l x r <-> pick l = Some (x, r).
Proof. exact takes_iff_pick. Qed.
Print Assumptions C10_takes_is_deterministic.

(* ---- the rule sequence of one event ------------------------------------------------- *)

(* Whatever permutation-sorted-by-priority the (unstable) library sort returns: the actions run
   in ascending priority number, they are an initial piece of that order, and without the flag
   every triggered rule runs. *)
Theorem C10_rules_ascending_priority :
  forall srt : list rule -> list rule,
    (forall l, Permutation (srt l) l /\ StronglySorted prio_le (srt l)) ->
    forall flag triggered,
      let executed := fst (process_event srt flag triggered) in
      StronglySorted prio_le executed /\
      (exists rest, Permutation (executed ++ rest) triggered /\ StronglySorted prio_le (executed ++ rest)) /\
      (flag = false -> Permutation executed triggered).
Proof. exact rules_ascending. Qed.
Print Assumptions C10_rules_ascending_priority.

(* With the flag: nothing runs after the first failing rule and the error report is exactly
   that failure; without it every rule runs and every failure is reported. *)
Theorem C10_fail_on_first_error :
  forall srt : list rule -> list rule,
    (forall l, Permutation (srt l) l /\ StronglySorted prio_le (srt l)) ->
    forall flag triggered,
      RuleSequence flag triggered (fst (process_event srt flag triggered)) (snd (process_event srt flag triggered)).
Proof. exact process_event_spec. Qed.
Print Assumptions C10_fail_on_first_error.

(* Events added by an action that ran — the failing one included — are queued for the cascade
   (they were pushed before the action returned its error), hence taken by later pops. *)
Theorem C10_failing_rule_events_stay_queued :
  forall s S root executed r a,
    R s S -> In r executed -> In a (r_adds r) ->
    exists S', R (push_all s root (adds_of executed)) S' /\ In (clamp (fst a), snd a) (S' root).
Proof. exact failing_rule_events_queued. Qed.
Print Assumptions C10_failing_rule_events_stay_queued.

(* the sort contract is satisfiable: insertion sort with any tie-break among equal priorities *)
Theorem C10_sort_contract_inhabited :
  forall (tie : rule -> nat) l, Permutation (ins_sort tie l) l /\ StronglySorted prio_le (ins_sort tie l).
Proof. exact ins_sort_contract. Qed.
Print Assumptions C10_sort_contract_inhabited.

(* ---- non-vacuity ---------------------------------------------------------------------- *)
(* the repaired monitor on the F15 and F16 histories *)
Example C10_example_f15_repaired :
  option_map highest_priority (match mon_run new_root F15_history with Ok s => Some s | _ => None end) = Some 2.
Proof. vm_compute. reflexivity. Qed.
Example C10_example_f16_repaired :
  option_map highest_priority (match mon_run new_root F16_history with Ok s => Some s | _ => None end) = Some 2.
Proof. vm_compute. reflexivity. Qed.
Example C10_example_protocol_violation :
  is_panic (mon_run new_root [NewChild 1; Finish 1]%nat) = true.
Proof. vm_compute. reflexivity. Qed.

(* two cascades; within cascade 7: priorities 2,1,2,1 pushed as tasks 10..13 -> 11,13,10,12 *)
Example C10_example_queue :
  exists s, run tq_step []
    [TPush 7 2 10; TPush 7 1 11; TPush 8 0 20; TPush 7 2 12; TPush 7 (-5) 13;
     TPop [] 7 13; TPop [] 7 11; TPop [] 8 20; TPop [8%nat] 7 10; TPop [] 7 12; TPopNil [7%nat]]%nat = Some s.
Proof. eexists. vm_compute. reflexivity. Qed.
Example C10_example_queue_wrong_order_rejected :
  run tq_step [] [TPush 7 2 10; TPush 7 2 11; TPop [] 7 11]%nat = None.
Proof. vm_compute. reflexivity. Qed.

(* three rules, the middle one fails after adding an event *)
Example C10_example_rules :
  let srt := ins_sort (fun _ => 0%nat) in
  let rs := [mkRule 1%nat 2 [] false; mkRule 2%nat 1 [(3, 30%nat)] true; mkRule 3%nat 0 [] false] in
  (map r_id (fst (process_event srt true rs)), snd (process_event srt true rs),
   adds_of (fst (process_event srt true rs)),
   map r_id (fst (process_event srt false rs)), snd (process_event srt false rs))
  = ([3; 2]%nat, [2%nat], [(3, 30%nat)], [3; 2; 1]%nat, [2%nat]).
Proof. vm_compute. reflexivity. Qed.
