(* Props/C20.v — A packed executable always finds its embedded program (the marker scan
   of cli/tool/pack.go, repaired version).  Only theorem statements closed by [exact],
   Print Assumptions, and non-vacuity examples.  All theorems hold for EVERY marker, every
   block size b1 >= 1, every overlap setting b2 and every way in which the reader splits the
   stream into reads ([short]); the Go constants (b1 = 4096, b2 = 28, the ECALSRC marker)
   are an instance, read from the implementation on every run by the harness and checked by
   Run/RunC20.v against the side conditions below. *)
From Ecal Require Import Common.Bytes Common.Outcome Model.PackScan Spec.PackSpec Proofs.PackScanProofs.

(* The packed file: binary B of any size and content, marker, zip archive Z.  The scan
   answers exactly the offset of Z — wherever the marker falls relative to the reads. *)
Theorem C20_scan_finds_archive :
  forall (marker : bytes) (b1 b2 : nat) (short : nat -> nat) (B Z : bytes),
    (1 <= b1)%nat -> unambiguous marker B -> is_zip Z ->
    locates (scan marker b1 b2 short (packed marker B Z)) marker B.
Proof. intros; apply scan_finds_archive; assumption. Qed.
Print Assumptions C20_scan_finds_archive.

(* Same for any appended data: white space / control bytes between marker and archive
   (tolerated by the code and exercised by the project's own test) are skipped, across
   read boundaries, and the scan stops at the end of the stream if nothing else follows. *)
Theorem C20_scan_skips_padding :
  forall (marker : bytes) (b1 b2 : nat) (short : nat -> nat) (B Z : bytes),
    (1 <= b1)%nat -> unambiguous marker B ->
    scan marker b1 b2 short (packed marker B Z) = Found (length B + length marker + skipcount Z).
Proof. intros; apply scan_packed; assumption. Qed.
Print Assumptions C20_scan_skips_padding.

(* Without the guard (the marker text can be read earlier, e.g. inside B): for EVERY
   stream the scan answers the leftmost occurrence of the marker ([find_sub] = strings.Index,
   Common/Bytes.v) — the packed data behind an earlier occurrence is then what gets opened. *)
Theorem C20_scan_leftmost_marker :
  forall (marker : bytes) (b1 b2 : nat) (short : nat -> nat) (F a b : bytes),
    (1 <= b1)%nat -> find_sub marker F = Some (a, b) ->
    scan marker b1 b2 short F = Found (length a + length marker + skipcount b).
Proof. intros; apply scan_first_occurrence; assumption. Qed.
Print Assumptions C20_scan_leftmost_marker.

(* ... and an answer is never invented: a reported offset is behind a real, leftmost marker. *)
Theorem C20_scan_found_sound :
  forall (marker : bytes) (b1 b2 : nat) (short : nat -> nat) (F : bytes) (off : nat),
    (1 <= b1)%nat -> scan marker b1 b2 short F = Ok (Some off) ->
    exists a b, F = a ++ marker ++ b /\ off = (length a + length marker + skipcount b)%nat /\
                forall a1 a2, a = a1 ++ a2 -> a2 <> [] -> prefixb marker (a2 ++ marker ++ b) = false.
Proof. intros marker b1 b2 short F off H; apply scan_found_sound; exact H. Qed.
Print Assumptions C20_scan_found_sound.

(* The plain interpreter (no marker) continues with the normal command line. *)
Theorem C20_plain_binary_not_packed :
  forall (marker : bytes) (b1 b2 : nat) (short : nat -> nat) (F : bytes),
    (1 <= b1)%nat -> no_marker marker F -> scan marker b1 b2 short F = Ok None.
Proof. intros; apply scan_no_marker; assumption. Qed.
Print Assumptions C20_plain_binary_not_packed.

(* No panic (slice bounds), no endless loop: with fuel |F|+1 the loop always answers. *)
Theorem C20_scan_total :
  forall (marker : bytes) (b1 b2 : nat) (short : nat -> nat) (F : bytes),
    (1 <= b1)%nat -> exists r, scan marker b1 b2 short F = Ok r.
Proof. intros; apply scan_total; assumption. Qed.
Print Assumptions C20_scan_total.

(* The guard in readable terms for the marker of pack.go: it fails only if B contains the
   marker, or ends with the marker minus its final newline. *)
Theorem C20_guard_for_ecal_marker :
  forall B : bytes,
    unambiguous ECAL_MARKER B <->
    (~ occurs ECAL_MARKER B /\ ~ exists B', B = B' ++ removelast ECAL_MARKER).
Proof. exact ecal_marker_guard. Qed.
Print Assumptions C20_guard_for_ecal_marker.

(* Non-vacuity.  The marker "\n####ECALSRC####\n", blocks of 4 bytes, b2 = 0 (so 16 bytes are
   kept), a binary that ends in a partial marker, every read one byte short: the marker
   straddles five reads and is found; guard and zip hypothesis are satisfiable. *)
Example C20_example_scan :
  let B := [1; 2; 35; 10; 35; 35; 35; 35; 69; 67; 65] in
  let Z := [80; 75; 3; 4; 10; 35] in
  scan ECAL_MARKER 4 0 (fun _ => 1%nat) (packed ECAL_MARKER B Z) = Found (11 + 17).
Proof. vm_compute. reflexivity. Qed.

Example C20_example_guard :
  unambiguous ECAL_MARKER [1; 2; 35; 10; 35; 35; 35; 35; 69; 67; 65] /\ is_zip [80; 75; 3; 4; 10; 35].
Proof.
  split; [apply find_sub_none; vm_compute; reflexivity | exists [3; 4; 10; 35]; reflexivity].
Qed.

(* The guard is not idle: a binary that ends with the marker minus its last byte makes the
   scan answer one byte after B (the leftmost readable marker ends there). *)
Example C20_example_ambiguous :
  let B := [7] ++ removelast ECAL_MARKER in
  scan ECAL_MARKER 4096 28 full_reads (packed ECAL_MARKER B [80; 75]) = Found (length B + 1).
Proof. vm_compute. reflexivity. Qed.
