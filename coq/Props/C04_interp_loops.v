(* Props/C04_interp_loops.v — property C04 on the UNIFIED interpreter model Model/Interp.v, the part
   "loops run once per element of a range or list and per key/value pair of a map (keys in string
   order)": the ITERATION PROTOCOL of  for x in <list> | <map> | <single value> | range(a, b, s).
   Props/C04_interp.v covers the condition loop, try and if; Props/C04.v states the same on the
   focused skeleton model (C04_range_inclusive_signed_step, C04_map_keys_string_order).

   Form of the statements (as in Props/C04_interp.v): [eval (S fuel)] of the loop node is expressed
   through [eval fuel] of its CHILDREN (iterator expression, body: arbitrary trees).  The rounds are
   a recursive function over the sequence of iterator values that mentions the evaluation of the
   body ONCE per round ([one_round]), so "once per element, in order" is read off the right side:
     in_rounds ev k [g0; g1; ...]  = g0 yields v0; bind the variables to v0; body; then
                                     in_rounds ev (k-1) [g1; ...]           (k = fuel of the loop)
     in_rounds_all ev [g0; g1; ..] = the same without the fuel counter (fold_right).
   Premises name the outcome of the bookkeeping steps (NewChild, the instance state: total, see
   C04_interp_bookkeeping_total) and of the iterator expression's evaluation.

   What the model - and the Go code, re-run on the example programs below - does:
   * list: the slice header (array, LENGTH) is taken once at loop start; the ELEMENT of round i is
     read at iteration time (list_elem reads the array in the round's state).
   * map: the KEY list is taken once at loop start, ordered by Go's < on the fmt.Sprint forms of the
     keys (so 10 comes before 9); the VALUE is looked up at iteration time (null for a removed key);
     two keys with the same printed form (1 and "1"): outside the model (RUnmod), the Go order then
     depends on the map enumeration.
   * range(a, b, s): the call is evaluated AGAIN every round (its arguments too); rounds with
     a, a+s, a+2s, ... until the value has passed b in the direction a -> b (inclusive end).  The
     sign of s is never looked at: s = 0 or a step away from b never ends (model: RFuel; Go: endless).
   * the loop variable is assigned with SetValue from the loop's scope: an existing variable of that
     name in an ENCLOSING scope is overwritten; only otherwise it is local to the loop.
   Vocabulary: Proofs/InterpLoops.v, Proofs/InterpLoops2.v (top). *)
From Coq Require Import List String NArith ZArith Bool Arith Lia Permutation Sorted.
From Ecal Require Import Common.Bytes Common.Ast gen.Tokens Model.Interp Proofs.InterpProofs
  Proofs.InterpControl Proofs.InterpControl2 Proofs.InterpControl4 Proofs.InterpScope Proofs.InterpScope3
  Proofs.InterpLoops Proofs.InterpLoops2 Proofs.InterpLoops3.
Import ListNotations.
Local Open Scope string_scope.
Local Open Scope list_scope.
Local Open Scope nat_scope.

(* ================================================================ 1. list *)
(* for <v> in <it> { body } where it evaluates to the list (a, len): one round per index
   0 .. len-1 in order, each with the element the array holds at that moment; with len < fuel the
   fuel counter of the loop plays no role *)
Theorem C04_interp_list_loop_once_per_element :
  forall (NO : NumOps) fuel path tv ti ta tl hv hi ha hl v it body more scope inst0 st c st0 inst st1 a len st2,
    new_child scope path st = (ROk c, st0) ->
    alloc_is st0 = (ROk inst, st1) ->
    eval fuel (1 :: 0 :: path) it c inst st1 = (ROk (VList a len), st2) ->
    eval (S fuel) path (in_loop_of tv ti ta tl hv hi ha hl v it body more) scope inst0 st =
    in_rounds (eval fuel) fuel (map (list_elem a len) (seq 0 len)) path body (loop_vars v) c inst st2 /\
    (len < fuel ->
     eval (S fuel) path (in_loop_of tv ti ta tl hv hi ha hl v it body more) scope inst0 st =
     in_rounds_all (eval fuel) (map (list_elem a len) (seq 0 len)) path body (loop_vars v) c inst st2).
Proof. exact @list_loop_once_per_element. Qed.
Print Assumptions C04_interp_list_loop_once_per_element.

(* the value of round i: the cell i of the array as it is in the round's state *)
Theorem C04_interp_list_element_read_at_iteration_time :
  forall (NO : NumOps) a len i st cells v,
    nth_error (st_arrs st) a = Some cells -> i < len -> nth_error cells i = Some v ->
    list_elem a len i st = (ROk v, st).
Proof. exact @list_elem_reads. Qed.
Print Assumptions C04_interp_list_element_read_at_iteration_time.

(* ================================================================ what a round does (all `in` loops) *)
Theorem C04_interp_round_body_ok :
  forall (NO : NumOps) (ev : evalT) path body vars c inst v next st st1 u st2,
    assign_vars vars v c st = (ROk tt, st1) ->
    ev (1 :: path) body c inst st1 = (ROk u, st2) ->
    one_round ev path body vars c inst v next st = next st2.
Proof. exact @one_round_body_ok. Qed.
Print Assumptions C04_interp_round_body_ok.

Theorem C04_interp_round_continue_next_element :
  forall (NO : NumOps) (ev : evalT) path body vars c inst v next st st1 e st2,
    assign_vars vars v c st = (ROk tt, st1) ->
    ev (1 :: path) body c inst st1 = (RErr e, st2) ->
    is_rt e T_CONT = true ->
    one_round ev path body vars c inst v next st = next st2.
Proof. exact @one_round_continue. Qed.
Print Assumptions C04_interp_round_continue_next_element.

Theorem C04_interp_round_break_ends_loop :
  forall (NO : NumOps) (ev : evalT) path body vars c inst v next st st1 e st2,
    assign_vars vars v c st = (ROk tt, st1) ->
    ev (1 :: path) body c inst st1 = (RErr e, st2) ->
    is_rt e T_EOI = true ->
    one_round ev path body vars c inst v next st = (ROk VNull, st2).
Proof. exact @one_round_break. Qed.
Print Assumptions C04_interp_round_break_ends_loop.

Theorem C04_interp_round_error_leaves_loop :
  forall (NO : NumOps) (ev : evalT) path body vars c inst v next st st1 e st2,
    assign_vars vars v c st = (ROk tt, st1) ->
    ev (1 :: path) body c inst st1 = (RErr e, st2) ->
    is_rt e T_CONT = false -> is_rt e T_EOI = false ->
    one_round ev path body vars c inst v next st = (RErr e, st2).
Proof. exact @one_round_error. Qed.
Print Assumptions C04_interp_round_error_leaves_loop.

Theorem C04_interp_round_unbound_variables :
  forall (NO : NumOps) (ev : evalT) path body vars c inst v next st e st1,
    assign_vars vars v c st = (RErr e, st1) ->
    one_round ev path body vars c inst v next st = (RErr e, st1).
Proof. exact @one_round_unbound. Qed.
Print Assumptions C04_interp_round_unbound_variables.

(* the fuel counter: one unit per round and one to see the end *)
Theorem C04_interp_rounds_enough_fuel :
  forall (NO : NumOps) (ev : evalT) path body vars c inst gets k st,
    length gets < k ->
    in_rounds ev k gets path body vars c inst st = in_rounds_all ev gets path body vars c inst st.
Proof. exact @in_rounds_enough_fuel. Qed.
Print Assumptions C04_interp_rounds_enough_fuel.

(* ================================================================ 2. map *)
(* for <v> in <it> { body } where it evaluates to the map id with the entries m: the rounds go over
   keys = the keys of m (each once: Permutation) in the STRICT string order of their printed forms
   (Forall2 .. /\ StronglySorted bytes_lt), each round with the pair [key, value now] *)
Theorem C04_interp_map_loop_keys_in_string_order :
  forall (NO : NumOps) fuel path tv ti ta tl hv hi ha hl v it body more scope inst0 st c st0 inst st1 id st2 m ks sorted,
    new_child scope path st = (ROk c, st0) ->
    alloc_is st0 = (ROk inst, st1) ->
    eval fuel (1 :: 0 :: path) it c inst st1 = (ROk (VMap id), st2) ->
    nth_error (st_maps st2) id = Some m ->
    printed_keys st2 m = Some ks ->
    sort_keys ks = Some sorted ->
    let keys := map snd sorted in
    eval (S fuel) path (in_loop_of tv ti ta tl hv hi ha hl v it body more) scope inst0 st =
    in_rounds (eval fuel) fuel (map (map_entry id) keys) path body (loop_vars v) c inst st2 /\
    (length m < fuel ->
     eval (S fuel) path (in_loop_of tv ti ta tl hv hi ha hl v it body more) scope inst0 st =
     in_rounds_all (eval fuel) (map (map_entry id) keys) path body (loop_vars v) c inst st2) /\
    Permutation (map fst m) keys /\
    Forall2 (fun k s => sprint 8 st2 k = Some s) keys (map fst sorted) /\
    StronglySorted bytes_lt (map fst sorted).
Proof. exact @map_loop_keys_in_string_order. Qed.
Print Assumptions C04_interp_map_loop_keys_in_string_order.

(* the value of a round: a fresh two-element list [key, m[key]] with the value the map holds in the
   round's state, null when the key is gone *)
Theorem C04_interp_map_entry_read_at_iteration_time :
  forall (NO : NumOps) id k st m,
    nth_error (st_maps st) id = Some m ->
    map_entry id k st =
    (ROk (VList (length (st_arrs st)) 2),
     mkSt (st_scopes st) (st_arrs st ++ [[k; match m_get k m with Some v => v | None => VNull end]])
          (st_maps st) (st_funs st) (st_is st)).
Proof. exact @map_entry_reads. Qed.
Print Assumptions C04_interp_map_entry_read_at_iteration_time.

(* the order is defined (the model does not answer RUnmod) iff no two keys print alike; it is THE
   strictly sorted arrangement: independent of the order in which the map enumerates its keys *)
Theorem C04_interp_map_loop_order_defined :
  forall (NO : NumOps) st m ks, printed_keys st m = Some ks ->
    (NoDup (map fst ks) <-> exists sorted, sort_keys ks = Some sorted).
Proof. exact @map_loop_order_defined. Qed.
Print Assumptions C04_interp_map_loop_order_defined.

Theorem C04_interp_sorted_keys_unique :
  forall (NO : NumOps) ks sorted other,
    sort_keys ks = Some sorted ->
    Permutation ks other -> StronglySorted key_lt other -> other = sorted.
Proof. exact @sorted_keys_unique. Qed.
Print Assumptions C04_interp_sorted_keys_unique.

(* ================================================================ single value, failing iterator expression *)
Theorem C04_interp_single_value_loop_one_round :
  forall (NO : NumOps) fuel path tv ti ta tl hv hi ha hl v it body more scope inst0 st c st0 inst st1 w st2,
    new_child scope path st = (ROk c, st0) ->
    alloc_is st0 = (ROk inst, st1) ->
    eval fuel (1 :: 0 :: path) it c inst st1 = (ROk w, st2) ->
    (forall a len, w <> VList a len) -> (forall id, w <> VMap id) ->
    eval (S fuel) path (in_loop_of tv ti ta tl hv hi ha hl v it body more) scope inst0 st =
    in_rounds (eval fuel) fuel [ret w] path body (loop_vars v) c inst st2.
Proof. exact @single_value_loop_one_round. Qed.
Print Assumptions C04_interp_single_value_loop_one_round.

(* an error of the iterator expression other than the iterator signal: no round at all (the result
   does not depend on body); a break signal is swallowed *)
Theorem C04_interp_iterator_error_no_round :
  forall (NO : NumOps) fuel path tv ti ta tl hv hi ha hl v it body more scope inst0 st c st0 inst st1 e st2,
    new_child scope path st = (ROk c, st0) ->
    alloc_is st0 = (ROk inst, st1) ->
    eval fuel (1 :: 0 :: path) it c inst st1 = (RErr e, st2) ->
    is_rt e T_ISITER = false ->
    eval (S fuel) path (in_loop_of tv ti ta tl hv hi ha hl v it body more) scope inst0 st =
    if is_rt e T_EOI then (ROk VNull, st2) else (RErr e, st2).
Proof. exact @iterator_error_no_round. Qed.
Print Assumptions C04_interp_iterator_error_no_round.

(* ================================================================ 3. iterator functions: range *)
(* the iterator expression answered "Function is an iterator": it is evaluated AGAIN for every
   round (iterator_rounds), the first answer's value is not used *)
Theorem C04_interp_iterator_function_loop :
  forall (NO : NumOps) fuel path tv ti ta tl hv hi ha hl v it body more scope inst0 st c st0 inst st1 e st2,
    new_child scope path st = (ROk c, st0) ->
    alloc_is st0 = (ROk inst, st1) ->
    eval fuel (1 :: 0 :: path) it c inst st1 = (RErr e, st2) ->
    is_rt e T_ISITER = true -> is_name it NodeIDENTIFIER = true ->
    eval (S fuel) path (in_loop_of tv ti ta tl hv hi ha hl v it body more) scope inst0 st =
    iterator_rounds (eval fuel) fuel (1 :: 0 :: path) it path body (loop_vars v) c inst st2.
Proof. exact @iterator_function_loop. Qed.
Print Assumptions C04_interp_iterator_function_loop.

Theorem C04_interp_iterator_round_value :
  forall (NO : NumOps) (ev : evalT) k ip it path body vars c inst st e st1,
    ev ip it c inst st = (RErr e, st1) -> is_rt e T_ISITER = true ->
    iterator_rounds ev (S k) ip it path body vars c inst st =
    one_round ev path body vars c inst (acc_of e) (iterator_rounds ev k ip it path body vars c inst) st1.
Proof. exact @iterator_rounds_value. Qed.
Print Assumptions C04_interp_iterator_round_value.

Theorem C04_interp_iterator_round_end :
  forall (NO : NumOps) (ev : evalT) k ip it path body vars c inst st e st1,
    ev ip it c inst st = (RErr e, st1) -> is_rt e T_EOI = true ->
    iterator_rounds ev (S k) ip it path body vars c inst st = (ROk VNull, st1).
Proof. exact @iterator_rounds_end. Qed.
Print Assumptions C04_interp_iterator_round_end.

(* the call range(args) where `range` is not bound to a function value: the arguments are evaluated
   (every time), then rangeFunc decides from the state stored under the call's path *)
Theorem C04_interp_range_call_is_rangeFunc :
  forall (NO : NumOps) d p iv ia il fv fi fa fl args c inst st w st1 vals st2,
    get_value c (bs "range") st = (ROk w, st1) -> (forall id, w <> VFun id) ->
    eval_args (eval (S (S d))) (0 :: p) 0 args c st1 = (ROk vals, st2) ->
    eval (S (S (S d))) p (range_call iv ia il fv fi fa fl args) c inst st =
    call_result (b_range p inst vals st2).
Proof. exact @range_call_is_rangeFunc. Qed.
Print Assumptions C04_interp_range_call_is_rangeFunc.

(* the first call: the state {from, to, step, cur = from} is stored, nothing is consumed *)
Theorem C04_interp_range_first_call :
  forall (NO : NumOps) self inst st m fr to step rest,
    nth_error (st_is st) inst = Some m -> is_get self m = None ->
    b_range self inst (VNum fr :: VNum to :: VNum step :: rest) st =
    (ROk (VNum fr, Some (rt_err T_ISITER)), with_is st inst (is_put self (mkR fr to step fr) m)).
Proof. exact @b_range_first. Qed.
Print Assumptions C04_interp_range_first_call.

(* every later evaluation of the call: the round's value is cur, cur advances by step; the end
   signal iff cur has passed `to` in the direction from -> to (range_stop: inclusive end; equal
   bounds: one round) *)
Theorem C04_interp_range_next_call :
  forall (NO : NumOps) d p iv ia il fv fi fa fl args c inst st w st1 a0 rest st2 m r,
    get_value c (bs "range") st = (ROk w, st1) -> (forall id, w <> VFun id) ->
    eval_args (eval (S (S d))) (0 :: p) 0 args c st1 = (ROk (a0 :: rest), st2) ->
    nth_error (st_is st2) inst = Some m -> is_get p m = Some r ->
    eval (S (S (S d))) p (range_call iv ia il fv fi fa fl args) c inst st =
    (RErr (ERt (if range_stop r then T_EOI else T_ISITER) (VNum (r_cur r))),
     with_is st2 inst (is_put p (range_advance r) m)).
Proof. exact @range_call_next. Qed.
Print Assumptions C04_interp_range_next_call.

Theorem C04_interp_range_state_kept :
  forall (NO : NumOps) self r m, is_get self (is_put self r m) = Some r.
Proof. exact @is_get_is_put. Qed.
Print Assumptions C04_interp_range_state_kept.

(* ================================================================ 4. the loop variable *)
(* one loop variable x: binding it is the assignment x := v from the loop's scope c.  It changes
   exactly variable x of scope t = the nearest enclosing scope that defines x, else c itself
   (frame of set_var: C05_interp_set_var_frame); other names, and scopes that do not see t, read
   as before; lists, maps, functions and iterator states are untouched *)
Theorem C04_interp_loop_variable_binding :
  forall (NO : NumOps) st c x v,
    scopes_acyclic st -> c < length (st_scopes st) -> simple_name x = true ->
    let t := assign_target st c x in
    let st' := set_var st t x v in
    assign_vars [x] v c st = (ROk tt, st') /\
    t < length (st_scopes st) /\
    ((forall j, In j (scope_chain st c) -> binding st j x = None) -> t = c) /\
    ((exists j, In j (scope_chain st c) /\ binding st j x <> None) ->
     In t (scope_chain st c) /\ binding st t x <> None) /\
    get_value c x st' = (ROk v, st') /\
    (forall s2 y, s2 < length (st_scopes st) -> simple_name y = true -> x <> y ->
                  get_value s2 y st' = (fst (get_value s2 y st), st')) /\
    (forall s2 y, s2 < length (st_scopes st) -> simple_name y = true -> ~ In t (scope_chain st s2) ->
                  get_value s2 y st' = (fst (get_value s2 y st), st')) /\
    st_arrs st' = st_arrs st /\ st_maps st' = st_maps st /\ st_funs st' = st_funs st /\ st_is st' = st_is st.
Proof. exact @loop_variable_binding. Qed.
Print Assumptions C04_interp_loop_variable_binding.

(* ================================================================ non-vacuity *)
(* Number instance zp_ops (integers with a decimal fmt.Sprint), tree constructors and the programs:
   Proofs/InterpLoops3.v.  Whole programs first (Validate + Eval from the initial state); the Go
   interpreter gives the same answers on the corresponding sources. *)
Ltac conj := repeat match goal with |- _ /\ _ => split end.
Ltac vc := match goal with |- ?l = ?r => vm_cast_no_check (@eq_refl _ r) end.
Notation ZN z := (VNum (NO := zp_ops) z%Z).

(* for x in [1, 2, 3]: in order *)
Example C04_interp_example_list_in_order : fst (@run zp_ops 60 Q1) = ROk (ZN 123). Proof. vc. Qed.
(* the body overwrites l[2] before round 2: the new element is seen *)
Example C04_interp_example_list_element_live : fst (@run zp_ops 60 Q2) = ROk (ZN 127). Proof. vc. Qed.
(* the body appends: the length of loop start counts *)
Example C04_interp_example_list_length_fixed : fst (@run zp_ops 60 Q3) = ROk (ZN 2). Proof. vc. Qed.
(* continue skips 2, break ends before 4 *)
Example C04_interp_example_list_continue_break : fst (@run zp_ops 60 Q4) = ROk (ZN 13). Proof. vc. Qed.
(* {"b": 1, "a": 2, "c": 3}: a, b, c *)
Example C04_interp_example_map_string_order : fst (@run zp_ops 60 Q5) = ROk (ZN 213). Proof. vc. Qed.
(* {9: 2, 10: 1}: "10" < "9" *)
Example C04_interp_example_map_number_keys_as_strings : fst (@run zp_ops 60 Q6) = ROk (ZN 12). Proof. vc. Qed.
(* a key removed by the body is still visited, with null *)
Example C04_interp_example_map_value_live : fst (@run zp_ops 60 Q7) = ROk (ZN 1). Proof. vc. Qed.
Example C04_interp_example_map_same_print :
  fst (@run zp_ops 60 Q8) = RUnmod "two map keys with the same printed form". Proof. vc. Qed.
Example C04_interp_example_single_value : fst (@run zp_ops 60 Q9) = ROk (ZN 7). Proof. vc. Qed.
(* range(1, 5, 2): 1 3 5 (inclusive);  range(5, 1, -2): 5 3 1;  range(1, 4, 2): 1 3;  range(3, 3, 1): 3 *)
Example C04_interp_example_range_inclusive : fst (@run zp_ops 60 R1) = ROk (ZN 135). Proof. vc. Qed.
Example C04_interp_example_range_negative_step : fst (@run zp_ops 60 R2) = ROk (ZN 531). Proof. vc. Qed.
Example C04_interp_example_range_past_end : fst (@run zp_ops 60 R3) = ROk (ZN 13). Proof. vc. Qed.
Example C04_interp_example_range_equal_bounds : fst (@run zp_ops 60 R6) = ROk (ZN 3). Proof. vc. Qed.
(* range(1, 3, 0) and range(1, 3, -1) never pass the end: the loop runs until the fuel is used up
   (the Go interpreter does not return) *)
Example C04_interp_example_range_zero_step : fst (@run zp_ops 60 R4) = RFuel. Proof. vc. Qed.
Example C04_interp_example_range_wrong_sign : fst (@run zp_ops 60 R5) = RFuel. Proof. vc. Qed.
(* x := 50; for x in [1, 2] {}; x  is 2;   for x in [1, 2] {}; x  is null *)
Example C04_interp_example_loop_variable_outer : fst (@run zp_ops 60 V1) = ROk (ZN 2). Proof. vc. Qed.
Example C04_interp_example_loop_variable_local : fst (@run zp_ops 60 V2) = ROk (@VNull zp_ops). Proof. vc. Qed.

(* The premises of the theorems are satisfiable together, on non-trivial inputs: *)

(* list: for x in l { l[2] := 7; s := s * 10 + x } after l := [1, 2, 3]; s := 0 - the loop's
   premises, the first round's premises and the element read *)
Example C04_interp_premises_list :
  exists c st0 inst st1 a len st2 cells sa u sb,
    new_child (NO := zp_ops) 0 [7] st_l = (ROk c, st0) /\ alloc_is st0 = (ROk inst, st1) /\
    eval 20 [1; 0; 7] (var "l") c inst st1 = (ROk (VList a len), st2) /\ len = 3 /\ len < 20 /\
    nth_error (st_arrs st2) a = Some cells /\ nth_error cells 0 = Some (ZN 1) /\
    assign_vars (loop_vars (var "x")) (ZN 1) c st2 = (ROk tt, sa) /\
    eval 20 [1; 7] LB c inst sa = (ROk u, sb) /\
    fst (get_value 0 (bs "s") (snd (eval 21 [7] (in_loop_of [] false false 0 [] false false 0 (var "x") (var "l") LB []) 0 0 st_l)))
      = ROk (ZN 127).
Proof.
  pose (r0 := new_child (NO := zp_ops) 0 [7] st_l). pose (c := okv 0 (fst r0)). exists c, (snd r0).
  pose (r1 := alloc_is (snd r0)). pose (i := okv 0 (fst r1)). exists i, (snd r1).
  pose (r2 := eval 20 [1; 0; 7] (var "l") c i (snd r1)).
  pose (a := match fst r2 with ROk (VList a _) => a | _ => 0 end). exists a, 3, (snd r2).
  exists (nth a (st_arrs (snd r2)) []).
  pose (r3 := assign_vars [bs "x"] (ZN 1) c (snd r2)). exists (snd r3).
  pose (r4 := eval 20 [1; 7] LB c i (snd r3)). exists (okv VNull (fst r4)), (snd r4).
  conj; try vc. lia.
Qed.

(* map: for [k, v] in m { s := s * 10 + v } after m := {"b": 1, "a": 2, "c": 3}; s := 0 *)
Example C04_interp_premises_map :
  exists c st0 inst st1 id st2 m ks sorted,
    new_child (NO := zp_ops) 0 [7] st_m = (ROk c, st0) /\ alloc_is st0 = (ROk inst, st1) /\
    eval 20 [1; 0; 7] (var "m") c inst st1 = (ROk (VMap id), st2) /\
    nth_error (st_maps st2) id = Some m /\ printed_keys st2 m = Some ks /\ sort_keys ks = Some sorted /\
    map fst m = [VStr (bs "b"); VStr (bs "a"); VStr (bs "c")] /\
    map snd sorted = [VStr (bs "a"); VStr (bs "b"); VStr (bs "c")] /\ length m < 20 /\
    fst (get_value 0 (bs "s")
           (snd (eval 21 [7] (in_loop_of [] false false 0 [] false false 0 (lst [var "k"; var "v"]) (var "m") MB []) 0 0 st_m)))
      = ROk (ZN 213).
Proof.
  pose (r0 := new_child (NO := zp_ops) 0 [7] st_m). pose (c := okv 0 (fst r0)). exists c, (snd r0).
  pose (r1 := alloc_is (snd r0)). pose (i := okv 0 (fst r1)). exists i, (snd r1).
  pose (r2 := eval 20 [1; 0; 7] (var "m") c i (snd r1)).
  pose (id := match fst r2 with ROk (VMap a) => a | _ => 0 end). exists id, (snd r2).
  pose (m := nth id (st_maps (snd r2)) []). exists m.
  pose (ks := match printed_keys (snd r2) m with Some x => x | None => [] end). exists ks.
  exists (match sort_keys ks with Some x => x | None => [] end).
  conj; try vc. vm_compute. lia.
Qed.

(* range: for i in range(1, 5, 2) { s := s * 10 + i } after s := 0 - the first evaluation of the
   call answers with the iterator signal; the next one finds the state {1, 5, 2, cur = 1} *)
Example C04_interp_premises_range :
  exists c st0 inst st1 e st2 w sa a0 rest sb m r,
    new_child (NO := zp_ops) 0 [7] st_s = (ROk c, st0) /\ alloc_is st0 = (ROk inst, st1) /\
    eval 20 [1; 0; 7] RC c inst st1 = (RErr e, st2) /\ is_rt e T_ISITER = true /\
    is_name RC NodeIDENTIFIER = true /\
    RC = range_call true false 0 [] false false 0 [num "1"; num "5"; num "2"] /\
    get_value c (bs "range") st2 = (ROk w, sa) /\ (forall id, w <> VFun id) /\
    eval_args (eval 19) [0; 1; 0; 7] 0 [num "1"; num "5"; num "2"] c sa = (ROk (a0 :: rest), sb) /\
    nth_error (st_is sb) inst = Some m /\ is_get [1; 0; 7] m = Some r /\
    r = mkR (NO := zp_ops) 1%Z 5%Z 2%Z 1%Z /\ range_stop r = false /\
    range_stop (mkR (NO := zp_ops) 1%Z 5%Z 2%Z 5%Z) = false /\ range_stop (mkR (NO := zp_ops) 1%Z 5%Z 2%Z 7%Z) = true /\
    fst (get_value 0 (bs "s")
           (snd (eval 21 [7] (in_loop_of [] false false 0 [] false false 0 (var "i") RC RB []) 0 0 st_s)))
      = ROk (ZN 135).
Proof.
  pose (r0 := new_child (NO := zp_ops) 0 [7] st_s). pose (c := okv 0 (fst r0)). exists c, (snd r0).
  pose (r1 := alloc_is (snd r0)). pose (i := okv 0 (fst r1)). exists i, (snd r1).
  pose (r2 := eval 20 [1; 0; 7] RC c i (snd r1)). exists (erv (fst r2)), (snd r2).
  pose (r3 := get_value c (bs "range") (snd r2)). exists (@VNull zp_ops), (snd r3).
  pose (r4 := eval_args (eval 19) [0; 1; 0; 7] 0 [num "1"; num "5"; num "2"] c (snd r3)).
  exists (hd VNull (okv [] (fst r4))), (tl (okv [] (fst r4))), (snd r4).
  pose (m := nth i (st_is (snd r4)) []). exists m.
  exists (mkR (NO := zp_ops) 1%Z 5%Z 2%Z 1%Z).
  conj; try vc. intros id H. discriminate H.
Qed.

(* the loop variable: after l := [1, 2, 3]; s := 0 no scope defines x - it is bound in the loop's
   scope; after x := 0 (st_x, Proofs/InterpControl4.v) the global x is the target *)
Example C04_interp_premises_loop_variable :
  exists c st0 c' st0',
    new_child (NO := zp_ops) 0 [7] st_l = (ROk c, st0) /\
    scopes_acyclic st0 /\ c < length (st_scopes st0) /\ simple_name (bs "x") = true /\
    assign_target st0 c (bs "x") = c /\ c <> 0 /\
    new_child (NO := z_ops) 0 [7] st_x = (ROk c', st0') /\
    scopes_acyclic st0' /\ c' < length (st_scopes st0') /\
    assign_target st0' c' (bs "x") = 0 /\ c' <> 0.
Proof.
  pose (r0 := new_child (NO := zp_ops) 0 [7] st_l). exists 1, (snd r0).
  pose (r1 := new_child (NO := z_ops) 0 [7] st_x). exists 1, (snd r1).
  assert (A : forall (NO : NumOps) (s : state), length (st_scopes s) = 2 ->
              option_map sc_parent (nth_error (st_scopes s) 0) = Some None ->
              option_map sc_parent (nth_error (st_scopes s) 1) = Some (Some 0) -> scopes_acyclic s).
  { intros NO s Hl H0 H1 j p H. unfold parent_of in H.
    destruct (nth_error (st_scopes s) j) as [sc|] eqn:E; [|discriminate].
    destruct j as [|[|j]].
    - rewrite E in H0. cbn [option_map] in H0. congruence.
    - rewrite E in H1. cbn [option_map] in H1. assert (p = 0) by congruence. lia.
    - assert (S (S j) < length (st_scopes s)) by (apply nth_error_Some; congruence). lia. }
  conj; try vc; try discriminate; try (apply Nat.ltb_lt; vc); apply A; vc.
Qed.
