(* Props/C11.v — Concurrent sink invocations are isolated; failures go to their own event.
   Only theorem statements, closed by [exact] / one line, and Print Assumptions.

   Reading: n invocations (any n; of one sink — they share the closure environment — which
   subsumes invocations of different sinks, whose environments are disjoint) are threads of
   Common/Sched.v; a schedule is any list of invocation indices; [sharing] says which of the
   action literal's variables live in the closure environment rather than in the call. *)
From Coq Require Import List String Arith.
From Ecal Require Import Common.Sched gen.SinkClosure Model.SinkInv Spec.IsolationSpec Proofs.SinkInvProofs.
Import ListNotations.

(* Static tie, re-checked on every run against the regenerated scan of interpreter/rt_sink.go:
   the action literal assigns no variable that is declared outside of it. *)
Theorem C11_no_captured_writes : captured_writes = [].
Proof. vm_compute. reflexivity. Qed.
Print Assumptions C11_no_captured_writes.

(* Main theorem.  If the closure writes no environment variable then under EVERY schedule of
   any number of invocations, for every body and every events: the state has one thread per
   event; no invocation panicked or blocked; an invocation that returned observed exactly
   what its own event dictates (result = outcome(event_i) with its own scope attached, the
   echoed `event`/local values are its own, it ran with its own monitor); an invocation that
   has not returned can make a step (nobody waits for anybody); none makes more than 8. *)
Theorem C11_isolation :
  forall (payload err0 : Type) (pid : payload -> nat) (body : payload -> option err0)
         (sh : sharing),
    (forall v, sh v = false) ->
    forall (outer : option nat) (evs : list payload) (sched : list nat) s',
      run (step payload err0 pid body sh) (init_with payload err0 outer evs) sched = Some s' ->
      List.length (g_threads s') = List.length evs /\
      forall i ev, nth_error evs i = Some ev ->
        exists th, nth_error (g_threads s') i = Some th /\
          t_st th = Running /\
          (t_pc th = PDone -> obs_of payload err0 th = produced payload err0 pid body i ev) /\
          (t_pc th <> PDone -> step payload err0 pid body sh s' i <> None) /\
          count_occ Nat.eq_dec sched i <= 8.
Proof. exact isolation. Qed.
Print Assumptions C11_isolation.

(* The same in the words of the Spec, for the tree as scanned: once all invocations have
   returned, the observations are Isolated ... *)
Theorem C11_isolation_this_tree :
  forall (payload err0 : Type) (pid : payload -> nat) (body : payload -> option err0)
         (outer : option nat) (evs : list payload) (sched : list nat) s',
    run (step payload err0 pid body (sharing_of captured_writes)) (init_with payload err0 outer evs) sched = Some s' ->
    all_done s' = true ->
    Isolated payload (obs err0) (produced payload err0 pid body) evs (map (obs_of payload err0) (g_threads s')).
Proof. rewrite C11_no_captured_writes. intros payload err0 pid body. exact (isolation_spec payload err0 pid body _ sharing_of_nil). Qed.
Print Assumptions C11_isolation_this_tree.

(* ... and the per-event error report is exact: no error lost, duplicated or attributed to
   another event. *)
Theorem C11_errors_exact :
  forall (payload err0 : Type) (pid : payload -> nat) (body : payload -> option err0)
         (sh : sharing),
    (forall v, sh v = false) ->
    forall (outer : option nat) (evs : list payload) (sched : list nat) s',
      run (step payload err0 pid body sh) (init_with payload err0 outer evs) sched = Some s' ->
      all_done s' = true ->
      Isolated payload (option (rerr err0)) (expected payload err0 body) evs (results s').
Proof. exact errors_exact. Qed.
Print Assumptions C11_errors_exact.

(* SetParentOfScope inside the action never locks one RWMutex twice: the scope it re-parents
   is the invocation's fresh one, whose mutex is private (S i), the other is the tree's. *)
Theorem C11_scope_lock_discipline :
  forall (payload err0 : Type) (pid : payload -> nat) (body : payload -> option err0)
         (sh : sharing),
    (forall v, sh v = false) ->
    forall (outer : option nat) (evs : list payload) (sched : list nat) s',
      run (step payload err0 pid body sh) (init_with payload err0 outer evs) sched = Some s' ->
      forall i th, nth_error (g_threads s') i = Some th -> t_pc th = PReparent ->
        exists sc, c_scope (t_loc th) = Some sc /\ sc_owner sc = i /\
                   sc_lock sc = S i /\ NoDup [sc_lock sc; tree_lock].
Proof. exact reparent_locks_distinct. Qed.
Print Assumptions C11_scope_lock_discipline.

(* A variable called `event` of the scope in which the sink is declared (the action binds its
   own `event` before its scope gets a parent) is never read or written by an invocation:
   whatever the sharing, the start state and the schedule, it keeps its value — and by
   C11_isolation every invocation still sees its own event. *)
Theorem C11_outer_event_untouched :
  forall (payload err0 : Type) (pid : payload -> nat) (body : payload -> option err0)
         (sh : sharing) (sched : list nat) (s s' : state payload err0),
    run (step payload err0 pid body sh) s sched = Some s' -> g_outer s' = g_outer s.
Proof. exact outer_untouched. Qed.
Print Assumptions C11_outer_event_untouched.

(* ---- the code before the repair: `err` captured from the declaring Eval (F17) ---------- *)

Definition evFail : cpayload := mkP 1 1 11 12 13.     (* raise("T11", "D12", 13) *)
Definition evOk : cpayload := mkP 2 0 0 0 0.          (* succeeds *)

(* A evaluates its body and fails, is overlapped just before `return err` by all of B
   (which succeeds), then returns: A's failure is lost. *)
Definition lost_sched : list nat := [0;0;0;0;0;0;0; 1;1;1;1;1;1;1; 0].

Theorem C11_old_shared_err_refuted :
  exists s', run (cstep (sharing_of ["err"%string])) (cinit [evFail; evOk]) lost_sched = Some s' /\
             all_done s' = true /\
             Lost cpayload (rerr cerr) (expected cpayload cerr cbody) [evFail; evOk] (results s') 0.
Proof.
  eexists; split; [vm_compute; reflexivity|]; split; [vm_compute; reflexivity|].
  exists evFail; eexists; repeat split; vm_compute; reflexivity.
Qed.
Print Assumptions C11_old_shared_err_refuted.

(* A succeeds, is overlapped before `return err` by all of B (which fails), then returns B's
   error: reported for the wrong event, and twice. *)
Definition misattr_sched : list nat := [0;0;0;0;0;0; 1;1;1;1;1;1;1;1; 0].

Theorem C11_old_shared_err_misattributed :
  exists s', run (cstep (sharing_of ["err"%string])) (cinit [evOk; evFail]) misattr_sched = Some s' /\
             all_done s' = true /\
             Misattributed cpayload (rerr cerr) (expected cpayload cerr cbody) [evOk; evFail] (results s') 0 1 /\
             nth_error (results s') 0 = nth_error (results s') 1.
Proof.
  eexists; split; [vm_compute; reflexivity|]; split; [vm_compute; reflexivity|]; split.
  - split; [discriminate|]. exists evOk, evFail; eexists; repeat split; vm_compute; reflexivity.
  - vm_compute; reflexivity.
Qed.
Print Assumptions C11_old_shared_err_misattributed.

(* A fails and passes `err != nil`; B starts (err = nil); A's err.Error() dereferences nil:
   the worker goroutine panics (nothing recovers: the process dies). *)
Definition panic_sched : list nat := [0;0;0;0;0;0; 1; 0].

Theorem C11_old_shared_err_panics :
  exists s' th site, run (cstep (sharing_of ["err"%string])) (cinit [evFail; evOk]) panic_sched = Some s' /\
                     nth_error (g_threads s') 0 = Some th /\ t_st th = Panicked site.
Proof. do 3 eexists; split; [vm_compute; reflexivity|]; split; vm_compute; reflexivity. Qed.
Print Assumptions C11_old_shared_err_panics.

(* Non-vacuity: three overlapping invocations of the repaired closure (fail / succeed / fail
   with a runtime error) under an interleaved schedule: everyone returns, with its own result. *)
Example C11_example :
  let evs := [evFail; evOk; mkP 3 2 0 0 0] in
  let sched := [0;1;2; 0;1;2; 2;2;2; 0;0; 1;1;1; 0;0;0; 2;2;2; 1;1; 0] in
  option_map (fun s' => (all_done s', results s')) (run (cstep no_sharing) (cinit evs) sched)
  = Some (true, [Some (mkRerr (mkE 1 11 12 13) (Some 0)); None; Some (mkRerr (mkE 2 0 0 0) (Some 2))]).
Proof. vm_compute. reflexivity. Qed.
