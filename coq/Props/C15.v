(* Props/C15.v — Debugging only observes: same outcome, and every suspended thread can be
   resumed.  Only theorem statements, closed by [exact], and Print Assumptions.
   The protocol theorems hold for every schedule of [proto_new] (Model/Debugger.v part A: the
   repaired suspend/continue protocol), any number of debugged threads and of in-flight
   commands. *)
From Ecal Require Import Common.Sched Model.Debugger Spec.DebugSpec Proofs.DebuggerProofs.

(* No wake-up is lost: in no reachable state is a thread parked inside cond.Wait while its
   running flag is set (a thread that holds the condition's lock with the flag set leaves
   instead of waiting: [thread_region]). *)
Theorem C15_no_lost_wakeup :
  forall (sched : list label) (s : dstate) (t : nat),
    run proto_new dinit sched = Some s -> lost s t = false.
Proof. exact no_lost_wakeup. Qed.
Print Assumptions C15_no_lost_wakeup.

(* A thread reported as suspended is released by the next continue command addressed to it:
   once the command's region under the condition's lock has run, the thread has — in that
   state and in every later state up to its own next suspension, whatever the other threads
   and commands do in between — a path of at most two of its OWN steps out of the
   suspension.  No further command is needed. *)
Theorem C15_continue_releases :
  forall (s : dstate) (i t : nat) (k : ctype) (s1 : dstate) (sched : list label) (s2 : dstate),
    reachable proto_new dinit s ->
    nth_error (inflight s) i = Some (t, k) ->
    proto_new s (LContFinish i) = Some s1 ->
    run proto_new s1 sched = Some s2 ->
    forallb (fun l => negb (suspends t l)) sched = true ->
    Released dstate label proto_new LThread at_large s2 t.
Proof. exact continue_releases. Qed.
Print Assumptions C15_continue_releases.

(* ... and such a command can always be given: from every reachable state in which Status()
   shows thread t as suspended — wherever t is between marking itself suspended and
   waiting — one Continue of any type and t's own steps bring it back to running the
   program, having left exactly one suspension. *)
Theorem C15_suspended_released_by_continue :
  forall (s : dstate) (t : nat) (k : ctype),
    reachable proto_new dinit s -> reported_suspended s t = true ->
    exists s', run proto_new s (release_sched s t k) = Some s' /\
               t_pc (threads s' t) = PRun /\
               t_resumed (threads s' t) = S (t_resumed (threads s t)).
Proof. exact suspended_released_by_continue. Qed.
Print Assumptions C15_suspended_released_by_continue.

(* Stopping all threads releases every suspended one: after the StopThreads region for
   thread t, t gets out by its own steps (and the same in every later state up to a new
   suspension of t). *)
Theorem C15_stop_releases_all :
  forall (s : dstate) (t : nat) (s1 : dstate) (sched : list label) (s2 : dstate),
    reachable proto_new dinit s ->
    proto_new s (LStopOne t) = Some s1 ->
    run proto_new s1 sched = Some s2 ->
    forallb (fun l => negb (suspends t l)) sched = true ->
    Released dstate label proto_new LThread at_large s2 t.
Proof. exact stop_releases. Qed.
Print Assumptions C15_stop_releases_all.

(* The protocol before the repair (wait without re-checking the flag, flag written outside
   the condition's lock): the schedule [old_witness] — the thread marks itself suspended;
   Continue sets running and broadcasts; the thread locks and waits — reaches a state in
   which the thread is parked, is not reported as suspended any more, and stays parked under
   EVERY continuation (further continues and StopThreads skip it).  Replayed on the
   implementation by the harness (scenario "window"). *)
Theorem C15_old_protocol_refuted :
  exists s, run proto_old dinit old_witness = Some s /\
            reported_suspended s 0 = false /\ lost s 0 = true /\
            forall sched s', run proto_old s sched = Some s' -> lost s' 0 = true.
Proof. exact old_protocol_refuted. Qed.
Print Assumptions C15_old_protocol_refuted.

(* Transparency.  For every program (any step machine over any program state, any number
   of threads), every debugger whose steps do not write program state (gate: which threads
   it lets run; observe: what it does to ITS state at a node evaluation; dbg: wait regions,
   commands, breakpoint edits), every run under the debugger is, with the debugger's steps
   erased, a run of the plain program to the same program state — result, log and
   variables included. *)
Theorem C15_visit_pure :
  forall (P D L : Type) (prog : P -> nat -> option P) (gate : D -> nat -> bool)
         (observe : D -> P -> nat -> D) (dbg : D -> L -> option D),
    Transparent P D (clabel L) prog (cstep prog gate observe dbg) erase.
Proof. exact erasure. Qed.
Print Assumptions C15_visit_pure.

(* A program run by one thread: whatever breakpoints and commands, if the debugged run
   completes, it ends in the program state in which the undebugged run ends. *)
Theorem C15_same_outcome :
  forall (P D L : Type) (prog : P -> nat -> option P) (gate : D -> nat -> bool)
         (observe : D -> P -> nat -> D) (dbg : D -> L -> option D)
         (t : nat) (p : P) (d : D) (sched : list (clabel L)) (p1 : P) (d1 : D) (m : nat) (p2 : P),
    run (cstep prog gate observe dbg) (p, d) sched = Some (p1, d1) ->
    Forall (fun x => x = t) (erase sched) ->
    prog p1 t = None ->
    run prog p (repeat t m) = Some p2 -> prog p2 t = None ->
    p1 = p2.
Proof. exact same_outcome. Qed.
Print Assumptions C15_same_outcome.

(* ... and a command history that keeps resuming suspended threads lets it complete: with
   the protocol of this file as the debugger, a thread that is held can always be brought
   to its next program step by debugger-side steps containing at most one continue command
   (of any type), the program state untouched. *)
Theorem C15_debugged_program_can_proceed :
  forall (P : Type) (prog : P -> nat -> option P) (observe : dstate -> P -> nat -> dstate)
         (p : P) (d : dstate) (t : nat) (k : ctype),
    reachable proto_new dinit d -> t_pc (threads d t) <> PDead ->
    exists ls d',
      run (cstep prog dgate observe proto_new) (p, d) (map CDbg ls) = Some (p, d') /\
      dgate d' t = true /\
      length (filter (fun l => match l with LContBegin _ _ => true | _ => false end) ls) <= 1.
Proof. intros P prog observe p d t k. exact (can_proceed prog observe p d t k). Qed.
Print Assumptions C15_debugged_program_can_proceed.

(* The suspend decision of VisitState against the Spec predicate: a thread that arrives,
   from a different line, at a line with an active breakpoint suspends — in every
   debugger state of the thread that is consistent ([wf], preserved by every event:
   C15_decision_state_consistent) except while it is being stepped out of / over a function
   (cmd StepOut) or killed.  The exception is real: C15_stepout_passes_breakpoints. *)
Theorem C15_suspends_at_active_breakpoint_from_other_line_partial :
  forall (e : denv) (d : dthr) (line : nat) (k : ctype),
    wf d -> must_suspend (bp_active (e_bps e)) (d_pos d) line = true ->
    (forall i, d_is d = Some i -> i_cmd i <> CStepOut /\ i_cmd i <> CKill) ->
    snd (handle e d (EVisit line) k) = true.
Proof. exact visit_suspends. Qed.
Print Assumptions C15_suspends_at_active_breakpoint_from_other_line_partial.

Theorem C15_decision_state_consistent :
  forall (e : denv) (d : dthr) (ev : event) (k : ctype), wf d -> wf (snd (fst (handle e d ev k))).
Proof. exact wf_handle. Qed.
Print Assumptions C15_decision_state_consistent.

Theorem C15_stepout_passes_breakpoints :
  exists e d line k, wf d /\ must_suspend (bp_active (e_bps e)) (d_pos d) line = true /\
                     snd (handle e d (EVisit line) k) = false.
Proof. exact stepout_passes_breakpoints. Qed.
Print Assumptions C15_stepout_passes_breakpoints.

(* Conversely a thread only suspends at a node for a reason the user asked for. *)
Theorem C15_suspension_has_cause :
  forall (e : denv) (d : dthr) (line : nat) (k : ctype),
    snd (handle e d (EVisit line) k) = true ->
    bp_active (e_bps e) line = true \/ e_bos e = true \/
    exists i, d_is d = Some i /\ (i_cmd i = CStop \/ i_cmd i = CStepIn \/ i_cmd i = CStepOver).
Proof. exact visit_cause. Qed.
Print Assumptions C15_suspension_has_cause.

(* The breakpoint table: after any history of set / disable / remove edits a line is active
   iff its last edit set it. *)
Theorem C15_breakpoint_table :
  forall (es : list edit) (line : nat), bp_active (apply_edits [] es) line = active_after es line.
Proof. exact bp_table_spec. Qed.
Print Assumptions C15_breakpoint_table.

(* Non-vacuity: two threads; thread 0 suspends at line 3 and is continued inside the window
   (before it waits), thread 1 suspends, waits and is then released by StopThreads; a
   second, stale Continue for thread 0 is in flight meanwhile. *)
Example C15_example :
  exists s, run proto_new dinit
              [LBreak 3 (Some true); LSuspend 0 3; LSuspend 1 3; LThread 1; LThread 1;
               LContBegin 0 KStepIn; LContBegin 0 KResume; LContFinish 0;
               LThread 0; LThread 0; LStopOne 1; LThread 1; LThread 1; LContFinish 0] = Some s /\
            t_pc (threads s 0) = PRun /\ t_resumed (threads s 0) = 1 /\
            t_pc (threads s 1) = PRun /\ t_cmd (threads s 1) = CKill /\ inflight s = [].
Proof. eexists. split; [vm_compute; reflexivity|]. repeat split. Qed.

(* Non-vacuity of the decision theorem: resumed at line 2, arriving at line 5 with an active
   breakpoint; and stepping over from line 2 to line 3 without a breakpoint. *)
Example C15_example_decision :
  run_events (mkEnv [(2, true); (5, true)] false false) dthr0
             [EVisit 1; EVisit 2; EVisit 2; EVisit 3; EVisit 5; EVisit 5; EVisit 6; EVisit 7]
             [([], KResume); ([], KStepOver); ([(7, Some true)], KResume)] 0 = [1; 4; 6; 7].
Proof. vm_compute. reflexivity. Qed.
