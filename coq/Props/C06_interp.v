(* Props/C06_interp.v — property C06 on the INTERPRETER model (Model/Interp.v): the whole
   tree-walking evaluation, not only its primitives (Props/C06.v).

   The model evaluates the real parser's trees following the runtime components of
   /repo/interpreter and /repo/scope (list of Go functions at the top of Model/Interp.v).  Every
   partial Go operation on the way (unchecked type assertion, index / slice expression, integer
   %, == on interface{} values, map insertion, errorutil.AssertOk) is a model primitive with a
   [RPanic site] outcome; the theorems say that the checks the Go code makes before them suffice
   on EVERY input.

   Quantification: every tree (any [node], well formed or not), every state (scopes, heap,
   closures, iterator states: also ones no execution can produce), every fuel, every
   implementation of float64 arithmetic / formatting / parsing ([NumOps]).  Where the Go code
   would misbehave on an input that the parser (C07: parse_wf), Validate or the Go type system
   exclude - a tree shape the parser does not produce, an unvalidated literal, a dangling
   reference - the model answers [RInvalid]; constructs outside the modelled fragment (sinks,
   import, string interpolation, like, objects, time / random / log built-ins, stdlib) answer
   [RUnmod].  Neither is a Panic, an Err or a value: the theorems below do not speak about
   them, the correspondence run (Run/RunC06Interp.v) reports a real parsed program on which the
   model says [RInvalid] as a broken tie. *)
From Coq Require Import List String NArith ZArith Bool.
From Ecal Require Import Common.Bytes Common.Ast gen.Tokens Model.Interp Proofs.InterpProofs.
Import ListNotations.
Local Open Scope string_scope.
Local Open Scope list_scope.
Local Open Scope nat_scope.

(* no ECAL program can crash the host: evaluation never reaches a Go panic *)
Theorem C06_interp_no_panic :
  forall (NO : NumOps) (fuel : nat) (path : list nat) (t : node) (scope inst : nat) (st : state) (site : string),
    fst (eval fuel path t scope inst st) <> RPanic site.
Proof. intros. apply eval_no_panic. Qed.
Print Assumptions C06_interp_no_panic.

(* the same for a whole run: Validate, then Eval in a fresh global scope *)
Theorem C06_interp_run_no_panic :
  forall (NO : NumOps) (fuel : nat) (t : node) (site : string), fst (run fuel t) <> RPanic site.
Proof. intros. apply run_no_panic. Qed.
Print Assumptions C06_interp_run_no_panic.

(* the unchecked assertion guardres.(bool) of if / for is safe: a guard node yields a boolean *)
Theorem C06_interp_guard_is_boolean :
  forall (NO : NumOps) fuel path v i a l cs scope inst st x st',
    eval fuel path (Node NodeGUARD v i a l cs) scope inst st = (ROk x, st') -> exists b, x = VBool b.
Proof.
  intros NO fuel path v i a l cs scope inst st x st' H.
  pose proof (eval_post fuel path (Node NodeGUARD v i a l cs) scope inst st) as P.
  rewrite H in P. apply P. reflexivity.
Qed.
Print Assumptions C06_interp_guard_is_boolean.

(* every failure is an error VALUE which try can catch:  try { body } except { }  ends in an error
   for NO body, state and fuel - except for the signals of return / break / continue, which the Go
   code also transports as errors and which are no failures (isFlowSignal) *)
Theorem C06_interp_errors_are_values :
  forall (NO : NumOps) fuel path tv ti ta tl body xv xi xa xl sv si sa sl scope inst st e st',
    eval fuel path
         (Node NodeTRY tv ti ta tl
               [body; Node NodeEXCEPT xv xi xa xl [Node NodeSTATEMENTS sv si sa sl []]])
         scope inst st = (RErr e, st') ->
    is_flow e = true.
Proof. intros. eapply errors_catchable. exact H. Qed.
Print Assumptions C06_interp_errors_are_values.

(* with a handler: an error of  try { body } except { handler }  is a flow signal of the body or
   an error of the HANDLER (evaluated in the except clause's scope) - never the body's failure *)
Theorem C06_interp_try_contains_every_failure :
  forall (NO : NumOps) fuel path tv ti ta tl body xv xi xa xl sv si sa sl hs scope inst st e st',
    eval fuel path
         (Node NodeTRY tv ti ta tl
               [body; Node NodeEXCEPT xv xi xa xl [Node NodeSTATEMENTS sv si sa sl hs]])
         scope inst st = (RErr e, st') ->
    is_flow e = true \/
    exists f evs st1 st2,
      fuel = S f /\
      eval f (0 :: 1 :: path) (Node NodeSTATEMENTS sv si sa sl hs) evs inst st1 = (RErr e, st2).
Proof. intros. eapply try_contains_every_failure. exact H. Qed.
Print Assumptions C06_interp_try_contains_every_failure.

(* ---------------------------------------------------------------- non-vacuity *)
(* an instance of the number interface on Z (enough for integer programs) *)
Fixpoint z_digits (acc : Z) (s : bytes) : option Z :=
  match s with
  | [] => Some acc
  | c :: r => if (N.leb 48 c && N.leb c 57)%N then z_digits (acc * 10 + Z.of_N (c - 48)%N)%Z r else None
  end.
Definition z_ops : NumOps :=
  Build_NumOps Z (fun s => match s with [] => None | _ => z_digits 0%Z s end) (fun _ => None)
               Z.add Z.sub Z.mul Z.quot Z.div Z.opp (fun z => z) (fun z => z)
               Z.ltb Z.leb Z.eqb (fun _ => None).

(* the REAL parser's tree (harness: C06-interp-tree) of
     func sum(l) {
       t := 0
       for x in l {
         try {
           t := t + x
         } except {
           t := t + 100
         }
       }
       return t
     }
     m := {"xs" : [1, 2, "a", 4]}
     sum(m.xs)                                                                   *)
Definition ex_tree : node :=
(Nd "statements" [] 0 0 [(Nd "function" [102;117;110;99] 0 1 [(Nd "identifier" [115;117;109] 1 1 []); (Nd "params" [] 0 0 [(Nd "identifier" [108] 1 1 [])]); (Nd "statements" [] 0 0 [(Nd ":=" [58;61] 0 2 [(Nd "identifier" [116] 1 2 []); (Nd "number" [48] 0 2 [])]); (Nd "loop" [102;111;114] 0 3 [(Nd "in" [105;110] 0 3 [(Nd "identifier" [120] 1 3 []); (Nd "identifier" [108] 1 3 [])]); (Nd "statements" [] 0 0 [(Nd "try" [116;114;121] 0 4 [(Nd "statements" [] 0 0 [(Nd ":=" [58;61] 0 5 [(Nd "identifier" [116] 1 5 []); (Nd "plus" [43] 0 5 [(Nd "identifier" [116] 1 5 []); (Nd "identifier" [120] 1 5 [])])])]); (Nd "except" [101;120;99;101;112;116] 0 6 [(Nd "statements" [] 0 0 [(Nd ":=" [58;61] 0 7 [(Nd "identifier" [116] 1 7 []); (Nd "plus" [43] 0 7 [(Nd "identifier" [116] 1 7 []); (Nd "number" [49;48;48] 0 7 [])])])])])])])]); (Nd "return" [114;101;116;117;114;110] 0 10 [(Nd "identifier" [116] 1 10 [])])])]); (Nd ":=" [58;61] 0 12 [(Nd "identifier" [109] 1 12 []); (Nd "map" [123] 0 12 [(Nd "kvp" [58] 0 12 [(Nd "string" [120;115] 2 12 []); (Nd "list" [91] 0 12 [(Nd "number" [49] 0 12 []); (Nd "number" [50] 0 12 []); (Nd "string" [97] 2 12 []); (Nd "number" [52] 0 12 [])])])])]); (Nd "identifier" [115;117;109] 1 13 [(Nd "funccall" [] 0 0 [(Nd "identifier" [109] 1 13 [(Nd "identifier" [120;115] 1 13 [])])])])])%N.

(* a function with a loop, a try and a container access: 1 + 2 + 100 (the caught "a") + 4 *)
Example C06_interp_example_value :
  fst (@run z_ops 100 ex_tree) = ROk (VNum (NO := z_ops) 107%Z).
Proof. vm_compute. reflexivity. Qed.

(* the same failure outside try is an error value of the class an except clause names *)
Example C06_interp_example_error :
  fst (@run z_ops 100
            (Nd "plus" [43] 0 1 [Nd "number" [49] 0 1 []; Nd "string" [97] 2 1 []])%N)
  = RErr (ERt (bs "Operand is not a number") VNull).
Proof. vm_compute. reflexivity. Qed.

(* the premise of C06_interp_errors_are_values is satisfiable only by signals: a break in try *)
Example C06_interp_example_signal :
  exists e, fst (@run z_ops 100
     (Nd "try" [] 0 1 [Nd "statements" [] 0 1 [Nd "break" [] 0 1 []];
                       Nd "except" [] 0 1 [Nd "statements" [] 0 1 []]])%N) = RErr e /\ is_flow e = true.
Proof. eexists. split; vm_compute; reflexivity. Qed.

(* and a failure in try is caught: the statement yields a value *)
Example C06_interp_example_caught :
  fst (@run z_ops 100
     (Nd "try" [] 0 1 [Nd "statements" [] 0 1 [Nd "plus" [43] 0 1 [Nd "number" [49] 0 1 []; Nd "null" [] 0 1 []]];
                       Nd "except" [] 0 1 [Nd "statements" [] 0 1 []]])%N) = ROk VNull.
Proof. vm_compute. reflexivity. Qed.
