(* Props/C19.v — The Go function bridge is total and converts numbers faithfully.
   Only theorem statements, closed by [exact]/one line, and Print Assumptions.

   All theorems hold for EVERY signature [s] (any parameter and result types, variadic or
   not, well-formed or not), EVERY argument vector [args] over the value universe, EVERY
   behaviour [f] of the Go function (any function from the received parameters to
   "returns these values" / "panics") and EVERY implementation-dependent result [oor] of an
   out-of-range float->integer conversion.

   [received oor s args] = Ok recv  means: the Go function is entered, with parameters recv;
   any other outcome means it is not entered. *)
From Coq Require Import ZArith NArith List Bool String Floats.SpecFloat.
From Ecal Require Import Common.Outcome Model.Adapter Spec.AdapterSpec Proofs.AdapterProofs.
Import ListNotations.
Local Open Scope Z_scope.

(* Totality: the result is a value or an error, never an escaping panic (and no fuel). *)
Theorem C19_adapter_total :
  forall oor (s : sig) (f : callee) (args : list gval),
    returns_or_errors (run oor s f args).
Proof. exact run_total. Qed.
Print Assumptions C19_adapter_total.

(* The Go function is entered at most once and the outcome of Run is a function of what it
   does with the received parameters; when it is not entered, Run returns one error whatever
   the function would have done. *)
Theorem C19_entered_with_received :
  forall oor s args,
    (forall recv, received oor s args = Ok recv ->
        forall f, run oor s f args = recover_ (after_call s (f recv))) /\
    ((forall recv, received oor s args <> Ok recv) ->
        exists e, forall f, run oor s f args = Err e).
Proof. intros; split; [intros recv H f; apply run_entered; exact H | apply run_not_entered]. Qed.
Print Assumptions C19_entered_with_received.

(* A number whose truncation lies in the range of the integer parameter kind arrives as
   exactly that truncation, in that kind. *)
Theorem C19_numeric_args_converted :
  forall oor s args recv i x k tr,
    received oor s args = Ok recv ->
    nth_error args i = Some (GF64 x) -> nth_error (s_in s) i = Some (TInt k) ->
    (i < fixed_count s)%nat ->
    trunc_is x tr -> in_range k tr = true ->
    nth_error recv i = Some (GInt k tr).
Proof. exact received_numeric_arg. Qed.
Print Assumptions C19_numeric_args_converted.

(* Every fixed parameter holds what the Spec says must arrive: integers as above, float32
   parameters a float32 of the same value whenever the number is representable, everything
   else (float64, strings, lists, ...) unchanged. *)
Theorem C19_args_arrive :
  forall oor s args recv i a t,
    received oor s args = Ok recv ->
    nth_error args i = Some a -> nth_error (s_in s) i = Some t -> (i < fixed_count s)%nat ->
    exists v, nth_error recv i = Some v /\ arrives t a v.
Proof. exact received_arrives. Qed.
Print Assumptions C19_args_arrive.

(* The Go function never sees a value that is not assignable to its parameter type. *)
Theorem C19_callee_receives_well_typed :
  forall oor s args recv,
    received oor s args = Ok recv ->
    all_assignable (firstn (fixed_count s) recv) (firstn (fixed_count s) (s_in s)) = true.
Proof. exact received_well_typed. Qed.
Print Assumptions C19_callee_receives_well_typed.

(* A call of a non-variadic function whose arguments are of the kinds its parameters take
   (numbers for every numeric kind, strings, booleans, lists, maps) does enter the function. *)
Theorem C19_matching_call_reaches_callee :
  forall oor s args,
    s_variadic s = false -> Forall2 arg_matches (s_in s) args ->
    exists recv, received oor s args = Ok recv /\ List.length recv = List.length args.
Proof.
  intros oor s args V M. exists (conv_all oor (s_in s) args). split; [apply matching_call_entered; assumption|].
  exact (proj2 (proj2 (proj2 (received_ok _ _ _ _ (matching_call_entered oor s args V M))))).
Qed.
Print Assumptions C19_matching_call_reaches_callee.

(* Results without a trailing error type: every Go integer, unsigned integer and float comes
   back as an ECAL number (exactly the integer when |n| <= 2^53, exactly the float),
   everything else unchanged; one result is returned as itself, otherwise the list. *)
Theorem C19_numeric_results_are_numbers :
  forall oor s f args recv vals,
    received oor s args = Ok recv -> f recv = CRet vals ->
    Forall2 val_has_type (s_out s) vals ->
    gtype_eqb (last (s_out s) TIface) TErr = false ->
    exists rs, run oor s f args = Ok (pack rs) /\ delivered_all (s_out s) vals rs.
Proof. exact run_results_plain. Qed.
Print Assumptions C19_numeric_results_are_numbers.

(* A trailing result of type error: non-nil becomes the error of the call, nil is dropped
   and the remaining results are delivered as above. *)
Theorem C19_trailing_error_becomes_error :
  forall oor s f args recv outs0 vals0 ev,
    received oor s args = Ok recv -> s_out s = outs0 ++ [TErr] -> f recv = CRet (vals0 ++ [ev]) ->
    Forall2 val_has_type (s_out s) (vals0 ++ [ev]) ->
    match ev with
    | GNil => exists rs, run oor s f args = Ok (pack rs) /\ delivered_all outs0 vals0 rs
    | _ => run oor s f args = Err E_CALLEE
    end.
Proof. exact run_results_trailing. Qed.
Print Assumptions C19_trailing_error_becomes_error.

(* More arguments than parameters: an error, the function is not entered. *)
Theorem C19_too_many_args_error :
  forall oor s args,
    (List.length (s_in s) < List.length args)%nat ->
    exists e, forall f, run oor s f args = Err e.
Proof. intros oor s args L. apply run_not_entered. intros recv. apply too_many_not_entered. exact L. Qed.
Print Assumptions C19_too_many_args_error.

(* Fewer arguments than (non-variadic) parameters: an error, the function is not entered. *)
Theorem C19_too_few_args_error :
  forall oor s args,
    (List.length args < fixed_count s)%nat ->
    exists e, forall f, run oor s f args = Err e.
Proof. intros oor s args L. apply run_not_entered. intros recv. apply too_few_not_entered. exact L. Qed.
Print Assumptions C19_too_few_args_error.

(* NULL anywhere in the argument vector: an error, the function is not entered. *)
Theorem C19_null_argument_error :
  forall oor s args,
    In GNil args ->
    exists e, forall f, run oor s f args = Err e.
Proof. intros oor s args N. apply run_not_entered. intros recv. apply null_not_entered. exact N. Qed.
Print Assumptions C19_null_argument_error.

(* A panicking Go function: an error. *)
Theorem C19_panicking_callee_error :
  forall oor s f args recv,
    received oor s args = Ok recv -> f recv = CPanic ->
    exists e, run oor s f args = Err e.
Proof. intros oor s f args recv R P. rewrite (run_entered _ _ _ _ _ R), P. eexists; reflexivity. Qed.
Print Assumptions C19_panicking_callee_error.

(* The call as ECAL makes it (executeFunction around Run, which wraps the error into a runtime
   error): total as well, whatever the Error method of the returned error value does, and
   with the same value / error as Run. *)
Theorem C19_ecal_call_total :
  forall oor (s : sig) (f : callee) (error_method_panics : bool) (args : list gval),
    returns_or_errors (ecal_call oor s f error_method_panics args) /\
    ecal_call oor s f error_method_panics args = run oor s f args.
Proof. intros; split; [apply ecal_call_total | apply ecal_call_same]. Qed.
Print Assumptions C19_ecal_call_total.

(* The Spec's truncation is defined for every finite number and is what the model computes
   (so the hypothesis [trunc_is x tr] of C19_numeric_args_converted is never vacuous). *)
Theorem C19_truncation_defined :
  forall x t, trunc x = Some t <-> trunc_is x t.
Proof. intros; split; [apply trunc_sound | apply trunc_complete]. Qed.
Print Assumptions C19_truncation_defined.

(* ---------------------------------------------------------------- non-vacuity *)

Definition ex_oor : ikind -> num -> Z := fun _ _ => 0.
Definition ex_sig : sig := mkSig [TInt KInt8; TF32; TStr] false [TInt KInt8; TF32; TStr; TErr].
Definition ex_echo (err : gval) : callee := fun recv => CRet (recv ++ [err]).
Definition ex_args : list gval :=
  [GF64 (S754_finite true 3 (-1)); GF64 (S754_finite false 3 (-1)); GStr [115%N]].  (* -1.5, 1.5, "s" *)

(* func(int8, float32, string) (int8, float32, string, error) called with (-1.5, 1.5, "s"):
   the function receives int8(-1), float32(1.5), "s"; the results are the numbers -1, 1.5 and "s". *)
Example C19_example_received :
  received ex_oor ex_sig ex_args
  = Ok [GInt KInt8 (-1); GF32 (S754_finite false 12582912 (-23)); GStr [115%N]].
Proof. vm_compute. reflexivity. Qed.

Example C19_example_ok :
  run ex_oor ex_sig (ex_echo GNil) ex_args
  = Ok (GSlice TIface [GF64 (S754_finite true 4503599627370496 (-52));
                        GF64 (S754_finite false 12582912 (-23)); GStr [115%N]]).
Proof. vm_compute. reflexivity. Qed.

Example C19_example_trailing_error :
  run ex_oor ex_sig (ex_echo (GErr 1)) ex_args = Err E_CALLEE.
Proof. vm_compute. reflexivity. Qed.

Example C19_example_panic_and_null_and_arity :
  (exists e, run ex_oor ex_sig (fun _ => CPanic) ex_args = Err e) /\
  (exists e, run ex_oor ex_sig (ex_echo GNil) [GNil; GNil; GNil] = Err e) /\
  (exists e, run ex_oor ex_sig (ex_echo GNil) (ex_args ++ [GBool true]) = Err e) /\
  (exists e, run ex_oor ex_sig (ex_echo GNil) [] = Err e) /\
  (* the raw call (without the recover) does panic in these two cases: the recover matters *)
  is_panic (run_raw ex_oor ex_sig (fun _ => CPanic) ex_args) = true /\
  is_panic (run_raw ex_oor ex_sig (ex_echo GNil) []) = true /\
  is_panic (run_raw ex_oor (mkSig [TIface] false []) (fun _ => CRet []) [GNil]) = true.
Proof. vm_compute. repeat split; eexists; reflexivity. Qed.

(* The defect repaired by fixes/C19-typed-nil-error: before the fix a Go function returning an
   error value whose Error method panics (a nil pointer as error) crashed the ECAL call. *)
Example C19_example_before_fix_panics :
  let s := mkSig [] false [TErr] in
  let f : callee := fun _ => CRet [GErr 2] in
  run ex_oor s f [] = Err E_CALLEE /\
  is_panic (execute_function_before_fix true (run ex_oor s f [])) = true /\
  ecal_call ex_oor s f true [] = Err E_CALLEE.
Proof. vm_compute. repeat split. Qed.
