(* Model/ControlSyntax.v — the control skeleton language of C04 (shared by Spec/ControlSpec.v
   and Model/Control.v): ECAL programs reduced to their control flow.  Expressions are
   constants; everything a program can observe is appended to a trace of events.

   Concrete syntax (harness/c04.go renders exactly this; <id> is unique per site):
     Mark n            mark(n)
     Raise t           raise("T<t>", "D<t>", <t>)
     RuntimeErr        nofunc<id>()               (unknown function: util.ErrUnknownConstruct)
     Return v          return v
     Break / Continue  break / continue
     If brs els        if g1 { b1 } elif g2 { b2 } ... else { els }
                       guard GBool b: the literal true / false;
                       guard GEval n o: a call gt(n) / gf(n) / gr<t>(n) / gr0(n) of a prelude function
                       that logs mark(n) and then returns true / returns false / raises "T<t>" /
                       fails with a runtime error (call of an unknown function)
     LoopCond n None b c<id> := n ; for c<id> > 0 { c<id> := c<id> - 1 ; b }
     LoopCond n (Some (m, k)) b
                       c<id> := n ; for cr<k>(c<id>, m) { c<id> := c<id> - 1 ; b }
                       (the condition holds n times; evaluated once more it logs mark(m) and raises)
     LoopSrc n k b     for x<id> in gr<k>(n) { iter(x<id>) ; b }    (the iterated expression raises)
     LoopRange f t s b for i<id> in range(f, t, s) { iter(i<id>) ; b }
     LoopList xs b     for x<id> in [x1, x2, ...] { iter(x<id>) ; b }
     LoopMap ks b      m<id> := {"k1": "vk1", ...} ; for [k<id>, v<id>] in m<id> { kv(k<id>, v<id>) ; b }
     Try b cls o f     try { b } except "T1", "T2" as e<id> { caught(e<id>) ; h } ... otherwise { o } finally { f }
                       (binder BAs: `as e`; BIdent: `e`; BNone: none and no caught(..) prologue)
     FuncCall b        func f<id>() { b } ; retv(f<id>())
   No proofs in this file. *)
From Coq Require Export List ZArith Bool NArith.
Export ListNotations.

Definition key := list N.          (* a map key: the bytes of a string *)

(* the type of an error as an except clause lists it / as errObj["type"] shows it *)
Inductive ety : Type :=
| EUser (n : nat)                  (* "T<n>", raised by raise() *)
| EUnknownConstruct                (* "Unknown construct": the built-in runtime error used here *)
| EOther (c : nat).                (* any other type string (see Model.Control.objtype) *)

Inductive binder : Type := BNone | BAs | BIdent.

(* an error a guard / condition / iterated expression raises: raise("T<t>", ..) or the
   built-in runtime error *)
Inductive errk : Type := KUser (t : nat) | KRuntime.

Inductive gout : Type := GTrue | GFalse | GFail (k : errk).

Inductive guard : Type :=
| GBool (b : bool)                 (* literal *)
| GEval (n : nat) (o : gout).      (* evaluation is logged as EvMark n, then the outcome *)

Inductive stmt : Type :=
| Mark (n : nat)
| Raise (t : nat)
| RuntimeErr
| Return (v : nat)
| Break
| Continue
| If (branches : list (guard * list stmt)) (els : option (list stmt))
| LoopCond (n : nat) (fail : option (nat * errk)) (body : list stmt)
| LoopSrc (n : nat) (k : errk) (body : list stmt)
| LoopRange (from to step : Z) (body : list stmt)
| LoopList (xs : list Z) (body : list stmt)
| LoopMap (keys : list key) (body : list stmt)
| Try (body : list stmt) (clauses : list (list ety * binder * list stmt))
      (otherwise finally : option (list stmt))
| FuncCall (body : list stmt).

Definition block := list stmt.
Definition clause := (list ety * binder * block)%type.

(* what a program can make observable *)
Inductive event : Type :=
| EvMark (n : nat)                 (* mark(n) *)
| EvIter (z : Z)                   (* value of the loop variable of a range / list loop *)
| EvKey (k : key)                  (* [key, value] of a map loop (the harness checks value = "v"+key) *)
| EvCaught (t : ety)               (* type field of the error object bound by `as e` / `e` *)
| EvRet (v : option nat).          (* value a function call produced (None: no return statement ran) *)

Definition trace := list event.

Definition ety_eqb (a b : ety) : bool :=
  match a, b with
  | EUser n, EUser m => Nat.eqb n m
  | EUnknownConstruct, EUnknownConstruct => true
  | EOther c, EOther d => Nat.eqb c d
  | _, _ => false
  end.

(* string order of keys: bytewise lexicographic (Go's < on strings) *)
Fixpoint key_ltb (a b : key) : bool :=
  match a, b with
  | [], [] => false
  | [], _ :: _ => true
  | _ :: _, [] => false
  | x :: a', y :: b' => if N.ltb x y then true else if N.eqb x y then key_ltb a' b' else false
  end.

Fixpoint key_eqb (a b : key) : bool :=
  match a, b with
  | [], [] => true
  | x :: a', y :: b' => N.eqb x y && key_eqb a' b'
  | _, _ => false
  end.
