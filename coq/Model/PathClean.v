(* Model/PathClean.v — the Unix path/filepath functions that util/import.go relies on
   (Go 1.23: path/filepath.Clean = internal/filepathlite.Clean, Join, Rel), as total
   functions on byte strings.  A path string is split at '/' into its elements; the
   functions follow the case analysis of the Go code element by element:

     Clean   ""            -> "."
             element ""    -> skipped           (case IsPathSeparator(path[r]))
             element "."   -> skipped
             element ".."  -> pop the last real element if there is one (out.w > dotdot),
                              otherwise keep it when the path is not rooted, drop it when rooted
             other element -> appended
             nothing left  -> "." (not rooted) or "/" (rooted)
     Join(a,b)             -> first non-empty argument onwards, joined with "/" and cleaned; "" if none
     Rel(base,targ)        -> Clean both; equal -> "."; base "." -> ""; one rooted, the other not -> error;
                              strip the common leading elements; first remaining base element ".." -> error;
                              base elements left -> one ".." for each, then the remaining target elements;
                              otherwise the remaining target elements
   The correspondence check (Run/RunC17.v) compares each of the three with the real library
   function on exhaustive element universes.  No proofs in this file. *)
From Ecal Require Export Common.Bytes.

Definition SLASH : N := 47.
Definition DOT : bytes := [46].
Definition DOTDOT : bytes := [46; 46].

(* strings.Split(s, "/") *)
Fixpoint split (s : bytes) : list bytes :=
  match s with
  | [] => [[]]
  | c :: s' =>
    if c =? SLASH then [] :: split s'
    else match split s' with
         | h :: t => (c :: h) :: t
         | [] => [[c]]
         end
  end.

(* strings.Join(l, "/") *)
Fixpoint join_slash (l : list bytes) : bytes :=
  match l with
  | [] => []
  | [x] => x
  | x :: l' => x ++ SLASH :: join_slash l'
  end.

Definition rooted (s : bytes) : bool :=
  match s with
  | c :: _ => c =? SLASH
  | [] => false
  end.

Definition is_empty (s : bytes) : bool := bytes_eqb s [].
Definition is_dot (s : bytes) : bool := bytes_eqb s DOT.
Definition is_dotdot (s : bytes) : bool := bytes_eqb s DOTDOT.

(* the main loop of Clean: [acc] is the output so far, last element first *)
Fixpoint norm (rt : bool) (acc : list bytes) (elems : list bytes) : list bytes :=
  match elems with
  | [] => acc
  | e :: rest =>
    if is_empty e then norm rt acc rest
    else if is_dot e then norm rt acc rest
    else if is_dotdot e then
      match acc with
      | top :: acc' =>
        if is_dotdot top
        then (if rt then norm rt acc rest else norm rt (e :: acc) rest)   (* out.w == dotdot *)
        else norm rt acc' rest                                            (* out.w > dotdot: backtrack *)
      | [] => if rt then norm rt acc rest else norm rt (e :: acc) rest
      end
    else norm rt (e :: acc) rest
  end.

Definition clean_elems (s : bytes) : list bytes := rev (norm (rooted s) [] (split s)).

Definition render (rt : bool) (elems : list bytes) : bytes :=
  if rt then SLASH :: join_slash elems
  else match elems with
       | [] => DOT
       | _ => join_slash elems
       end.

Definition clean (s : bytes) : bytes :=
  match s with
  | [] => DOT
  | _ => render (rooted s) (clean_elems s)
  end.

(* filepath.Join with two arguments *)
Definition join2 (a b : bytes) : bytes :=
  match a with
  | _ :: _ => clean (a ++ SLASH :: b)
  | [] => match b with
          | _ :: _ => clean b
          | [] => []
          end
  end.

(* the non-empty elements of a string; on a cleaned string these are the elements the loop
   of Rel walks over (the empty element in front of the leading '/' is matched by the
   "both rooted or both not" test) *)
Definition comps (s : bytes) : list bytes := filter (fun e => negb (is_empty e)) (split s).

Fixpoint strip_common (a b : list bytes) : list bytes * list bytes :=
  match a, b with
  | x :: a', y :: b' => if bytes_eqb x y then strip_common a' b' else (a, b)
  | _, _ => (a, b)
  end.

(* ".." , "../.." , ... : n >= 1 times *)
Fixpoint ups (n : nat) : bytes :=
  match n with
  | O => []
  | S O => DOTDOT
  | S n' => DOTDOT ++ SLASH :: ups n'
  end.

Definition rel (basepath targpath : bytes) : option bytes :=
  let base := clean basepath in
  let targ := clean targpath in
  if bytes_eqb targ base then Some DOT
  else
    let base' := if bytes_eqb base DOT then [] else base in
    if negb (Bool.eqb (rooted base') (rooted targ)) then None
    else
      let '(bs, ts) := strip_common (comps base') (comps targ) in
      match bs with
      | [] => Some (join_slash ts)
      | x :: _ =>
        if is_dotdot x then None
        else match ts with
             | [] => Some (ups (length bs))
             | _ => Some (ups (length bs) ++ SLASH :: join_slash ts)
             end
      end.
