(* Model/Prims.v — every partial Go operation reachable from ECAL evaluation, as a total
   function over the ECAL value universe returning  Ok kind | Err class | Panic site.

   The flag [fixed] selects the code that is modelled: [true] = /repo with the C06 repairs
   (fixes/C06-*.patch), [false] = the code before them (its Panic outcomes are the replayable
   refutation witnesses of Props/C06.v).  The site strings of the Panic outcomes are keys of
   the regenerated inventory gen/PartialOps.v (file|function|kind|operation).

   Go code followed:
     interpreter/rt_general.go   numVal boolVal numOp genOp strOp boolOp listOp (+ checkComparable)
     interpreter/rt_arithmetic.go  + - * / // %          interpreter/rt_boolean.go  comparisons, and/or/not, in/notin
     interpreter/rt_value.go     mapValueRuntime.Validate / Eval
     scope/varsscope.go          getValue (containerAccess closure), setValue, containerAccess
     interpreter/rt_assign.go    assignment evaluates its left side before it sets it
     interpreter/func_provider.go  len del add concat range new type raise addEvent addEventAndWait
                                 (+ executeFunction turning plain errors into "Runtime error")
     interpreter/rt_sink.go      sinkDetailRuntime.Eval, createRule, makeStringList; engine AddRule's kind-match check
   No proofs in this file. *)
From Coq Require Import ZArith String List Bool.
From Ecal Require Export Common.Outcome.
Import ListNotations.
Open Scope string_scope.
Open Scope Z_scope.

(* ---------------------------------------------------------------- values *)

(* An ECAL number is a binary64: m * 2^e, an infinity or NaN. *)
Inductive num := NFin (m e : Z) | NInf (neg : bool) | NNaN.

Inductive val :=
| VNull
| VBool (b : bool)
| VNum (n : num)
| VStr (s : string)
| VList (l : list val)
| VMap (m : list (val * val))
| VFun (id : nat).          (* functions are pointers: equal iff the same function *)

Inductive kind := KNull | KBool | KNum | KStr | KList | KMap | KFun.

Definition kind_of (v : val) : kind :=
  match v with
  | VNull => KNull | VBool _ => KBool | VNum _ => KNum | VStr _ => KStr
  | VList _ => KList | VMap _ => KMap | VFun _ => KFun
  end.

Definition res := outcome kind.

(* error classes = the "type" an except clause sees (util/error.go; tryRuntime.Eval) *)
Definition E_NOTNUM   := "Operand is not a number".
Definition E_NOTBOOL  := "Operand is not a boolean".
Definition E_NOTLIST  := "Operand is not a list".
Definition E_RUNTIME  := "Runtime error".
Definition E_INVCONS  := "Invalid construct".
Definition E_INVSTATE := "Invalid state".
Definition E_PLAIN    := "UnexpectedError".     (* a plain Go error (scope access) *)
Definition E_RAISED   := "<raised by the program>".

(* ---------------------------------------------------------------- numbers *)

Definition MININT : Z := - 2 ^ 63.

(* Go int64(x) / int(x) on amd64: truncation toward zero; out of range, Inf and NaN give
   the "integer indefinite" value MinInt64. *)
Definition trunc (n : num) : Z :=
  match n with
  | NFin m e =>
    let t := if 0 <=? e then m * 2 ^ e else Z.quot m (2 ^ (- e)) in
    if (MININT <=? t) && (t <? 2 ^ 63) then t else MININT
  | _ => MININT
  end.

Definition num_eqb (a b : num) : bool :=
  match a, b with
  | NFin m1 e1, NFin m2 e2 =>
    let lo := Z.min e1 e2 in (m1 * 2 ^ (e1 - lo) =? m2 * 2 ^ (e2 - lo))
  | NInf n1, NInf n2 => Bool.eqb n1 n2
  | _, _ => false            (* NaN differs from everything, itself included *)
  end.

(* ---------------------------------------------------------------- Go == on interface{} *)

(* comparing two lists or two maps panics ("comparing uncomparable type") *)
Definition uncomparable (a b : val) : bool :=
  match a, b with
  | VList _, VList _ => true
  | VMap _, VMap _ => true
  | _, _ => false
  end.

Definition scalar_eqb (a b : val) : bool :=
  match a, b with
  | VNull, VNull => true
  | VBool x, VBool y => Bool.eqb x y
  | VNum x, VNum y => num_eqb x y
  | VStr x, VStr y => String.eqb x y
  | VFun x, VFun y => Nat.eqb x y
  | _, _ => false
  end.

Definition hashable (k : val) : bool :=
  match k with VList _ | VMap _ => false | _ => true end.

(* ---------------------------------------------------------------- sites (keys of gen/PartialOps.v) *)

Definition S_MOD    := "interpreter/rt_arithmetic.go|(*modintOpRuntime).Eval/func|intdiv|int64(n1) % int64(n2)".
Definition S_EQ     := "interpreter/rt_boolean.go|(*equalOpRuntime).Eval/func|ifaceeq|n1 == n2".
Definition S_NEQ    := "interpreter/rt_boolean.go|(*notequalOpRuntime).Eval/func|ifaceeq|n1 != n2".
Definition S_IN     := "interpreter/rt_boolean.go|(*inOpRuntime).Eval/func|ifaceeq|val == i".
Definition S_MAPKEY := "interpreter/rt_value.go|(*mapValueRuntime).Eval|mapkey|m[key]".
Definition S_MAPKVP := "interpreter/rt_value.go|(*mapValueRuntime).Eval|index|kvp.Children[0]".
Definition S_GET    := "scope/varsscope.go|(*varsScope).getValue/func|index|listContainer[index]".
Definition S_CACC   := "scope/varsscope.go|(*varsScope).containerAccess|index|listContainer[index]".
Definition S_SET    := "scope/varsscope.go|(*varsScope).setValue|index|listContainer[index]".
Definition S_DEL    := "interpreter/func_provider.go|(*delFunc).Run|slice|argList[:int(index)]".
Definition S_ADD    := "interpreter/func_provider.go|(*addFunc).Run|slice|argList[int(index+1):]".
Definition S_RAISE  := "interpreter/rt_statements.go|(*tryRuntime).Eval|nilcall|rtError.Type.Error()".

(* ---------------------------------------------------------------- operators *)

Inductive binop :=
| OPlus | OMinus | OTimes | ODiv | ODivInt | OMod
| OLt | OLeq | OGt | OGeq | OEq | ONeq
| OAnd | OOr | OIn | ONotIn | OHasPrefix | OHasSuffix.
Inductive unop := UPlus | UMinus | UNot.

(* numOp: first operand checked first *)
Definition num_op (a b : val) (k : num -> num -> res) : res :=
  match a with
  | VNum x => match b with VNum y => k x y | _ => Err E_NOTNUM end
  | _ => Err E_NOTNUM
  end.

Definition bool_op (a b : val) : res :=
  match a with
  | VBool _ => match b with VBool _ => Ok KBool | _ => Err E_NOTBOOL end
  | _ => Err E_NOTBOOL
  end.

Definition eq_op (fixed : bool) (site : string) (a b : val) : res :=
  if uncomparable a b then (if fixed then Err E_RUNTIME else Panic site) else Ok KBool.

(* inOp: val == i for the elements in order; stops at the first equal one *)
Fixpoint in_list (fixed : bool) (v : val) (l : list val) : res :=
  match l with
  | [] => Ok KBool
  | i :: l' =>
    if uncomparable v i then (if fixed then Err E_RUNTIME else Panic S_IN)
    else if scalar_eqb v i then Ok KBool
    else in_list fixed v l'
  end.

Definition eval_bin (fixed : bool) (op : binop) (a b : val) : res :=
  match op with
  | OPlus | OMinus | OTimes | ODiv | ODivInt => num_op a b (fun _ _ => Ok KNum)
  | OMod => num_op a b (fun _ y =>
              if trunc y =? 0 then (if fixed then Err E_RUNTIME else Panic S_MOD) else Ok KNum)
  | OLt | OLeq | OGt | OGeq => Ok KBool   (* numOp, on any error strOp on the printed operands *)
  | OEq => eq_op fixed S_EQ a b
  | ONeq => eq_op fixed S_NEQ a b
  | OAnd | OOr => bool_op a b
  | OIn | ONotIn => match b with VList l => in_list fixed a l | _ => Err E_NOTLIST end
  | OHasPrefix | OHasSuffix => Ok KBool   (* strOp *)
  end.

Definition eval_un (op : unop) (a : val) : res :=
  match op with
  | UPlus | UMinus => match a with VNum _ => Ok KNum | _ => Err E_NOTNUM end
  | UNot => match a with VBool _ => Ok KBool | _ => Err E_NOTBOOL end
  end.

(* ---------------------------------------------------------------- map literal *)

Inductive entry := EKvp (k v : val) | EBare (v : val).   (* {k : v}  /  the malformed {v} *)

Definition is_kvp (e : entry) : bool := match e with EKvp _ _ => true | EBare _ => false end.

Fixpoint map_lit_eval (fixed : bool) (es : list entry) : res :=
  match es with
  | [] => Ok KMap
  | EKvp k _ :: es' =>
    if hashable k then map_lit_eval fixed es' else (if fixed then Err E_RUNTIME else Panic S_MAPKEY)
  | EBare _ :: _ => Panic S_MAPKVP      (* kvp.Children[0] of a node without children *)
  end.

(* repaired: Validate rejects every entry that is not a key-value pair before anything is evaluated *)
Definition map_lit (fixed : bool) (es : list entry) : res :=
  if fixed && negb (forallb is_kvp es) then Err E_INVCONS else map_lit_eval fixed es.

(* ---------------------------------------------------------------- container access *)

(* one segment of the dotted access string: its text and strconv.Atoi of it *)
Record field := mkF { f_text : string; f_int : option Z }.

Fixpoint mlookup (k : val) (m : list (val * val)) : option val :=
  match m with
  | [] => None
  | (k', v) :: m' => if scalar_eqb k k' then Some v else mlookup k m'
  end.

Definition zlen (l : list val) : Z := Z.of_nat (length l).

(* list element with Go's index handling: negative indices count from the end once *)
Definition list_at (fixed : bool) (site : string) (l : list val) (f : field) : outcome val :=
  match f_int f with
  | None => Err E_PLAIN
  | Some i =>
    let i' := if i <? 0 then zlen l + i else i in
    if i' <? zlen l then
      (if 0 <=? i' then Ok (nth (Z.to_nat i') l VNull)
       else if fixed then Err E_PLAIN else Panic site)
    else Err E_PLAIN
  end.

(* getValue: the containerAccess closure *)
Fixpoint cget (fixed : bool) (c : val) (fs : list field) {struct fs} : outcome val :=
  match fs with
  | [] => Ok c
  | f :: rest =>
    let step : outcome val :=
      match c with
      | VMap m =>
        let by_num := match f_int f with
                      | Some i => mlookup (VNum (NFin i 0)) m
                      | None => None end in
        Ok (match by_num with
            | Some v => v
            | None => match mlookup (VStr (f_text f)) m with Some v => v | None => VNull end
            end)
      | VList l => list_at fixed S_GET l f
      | _ => Err E_PLAIN
      end in
    match rest with
    | [] => step
    | _ => obind step (fun v => cget fixed v rest)
    end
  end.

(* mapFieldKey (scope/varsscope.go): an existing number key is preferred over the string key *)
Definition map_field (m : list (val * val)) (f : field) : option val :=
  match (match f_int f with Some i => mlookup (VNum (NFin i 0)) m | None => None end) with
  | Some v => Some v
  | None => mlookup (VStr (f_text f)) m
  end.

(* setValue's containerAccess: a missing key is an error *)
Fixpoint caccess (fixed : bool) (c : val) (fs : list field) {struct fs} : outcome val :=
  match fs with
  | [] => Ok c
  | f :: rest =>
    let step : outcome val :=
      match c with
      | VMap m => match map_field m f with Some v => Ok v | None => Err E_PLAIN end
      | VList l => list_at fixed S_CACC l f
      | _ => Err E_PLAIN
      end in
    match rest with
    | [] => step
    | _ => obind step (fun v => caccess fixed v rest)
    end
  end.

Definition cset (fixed : bool) (c : val) (fs : list field) : res :=
  match fs with
  | [] => Ok KNull
  | _ =>
    obind (caccess fixed c (removelast fs)) (fun cont =>
      match cont with
      | VNull => Ok KNull                 (* container == nil: nothing happens *)
      | VMap _ => Ok KNull
      | VList l =>
        match list_at fixed S_SET l (last fs (mkF "" None)) with
        | Ok _ => Ok KNull
        | Err e => Err e
        | Panic s => Panic s
        | OutOfFuel => OutOfFuel
        end
      | _ => Err E_PLAIN
      end)
  end.

Definition get_kind (fixed : bool) (c : val) (fs : list field) : res :=
  match cget fixed c fs with
  | Ok v => Ok (kind_of v) | Err e => Err e | Panic s => Panic s | OutOfFuel => OutOfFuel
  end.

(* c[fs] := v — assignmentRuntime.Eval evaluates the left side first *)
Definition assign (fixed : bool) (c : val) (fs : list field) : res :=
  match fs with
  | [] => Ok KNull
  | _ => obind (get_kind fixed c fs) (fun _ => cset fixed c fs)
  end.

(* ---------------------------------------------------------------- built-in functions *)

Inductive builtin := BLen | BDel | BAdd | BConcat | BRange | BNew | BType | BRaise | BAddEvent | BAddEventAndWait.

Section Builtins.
  (* strconv.ParseFloat on the text of a string argument (AssertNumParam) *)
  Variable parse : string -> option num.

  (* AssertNumParam: a number, or anything whose printed form parses as one; the printed
     forms of null, booleans, lists, maps and functions do not *)
  Definition assert_num (v : val) : option num :=
    match v with VNum n => Some n | VStr s => parse s | _ => None end.

  Definition is_list (v : val) : bool := match v with VList _ => true | _ => false end.
  Definition is_map (v : val) : bool := match v with VMap _ => true | _ => false end.

  Definition b_len (args : list val) : res :=
    match args with
    | (VList _ | VMap _) :: _ => Ok KNum
    | _ => Err E_RUNTIME
    end.

  Definition b_del (fixed : bool) (args : list val) : res :=
    match args with
    | [VList l; ix] =>
      match assert_num ix with
      | None => Err E_RUNTIME
      | Some n =>
        let i := trunc n in
        if (0 <=? i) && (i <? zlen l) then Ok KList
        else if fixed then Err E_RUNTIME else Panic S_DEL
      end
    | [VMap _; _] => Ok KMap
    | _ => Err E_RUNTIME
    end.

  Definition b_add (fixed : bool) (args : list val) : res :=
    match args with
    | [] | [_] => Err E_RUNTIME
    | VList l :: _ :: rest =>
      match rest with
      | [ix] =>
        match assert_num ix with
        | None => Err E_RUNTIME
        | Some n =>
          let i := trunc n in
          if (0 <=? i) && (i <=? zlen l) then Ok KList
          else if fixed then Err E_RUNTIME else Panic S_ADD
        end
      | _ => Ok KList
      end
    | _ => Err E_RUNTIME
    end.

  Definition b_concat (args : list val) : res :=
    match args with
    | [] | [_] => Err E_RUNTIME
    | _ => if forallb is_list args then Ok KList else Err E_RUNTIME
    end.

  (* range(...) used as  for x in range(...) { break } *)
  Definition all_num (l : list val) : bool :=
    forallb (fun v => match assert_num v with Some _ => true | None => false end) l.
  Definition b_range (args : list val) : res :=
    match args with
    | [] => Err E_RUNTIME
    | _ => if all_num (firstn 3 args) then Ok KNull else Err E_RUNTIME
    end.

  Definition b_new (args : list val) : res :=
    match args with
    | VMap m :: _ =>
      match mlookup (VStr "super") m with
      | Some (VList _) | None => Ok KMap
      | Some _ => Err E_RUNTIME
      end
    | _ => Err E_RUNTIME
    end.

  Definition b_type (args : list val) : res :=
    match args with [] => Err E_RUNTIME | _ => Ok KStr end.

  (* addEvent / addEventAndWait: name, kind, state map [, scope map] *)
  Definition b_addevent (wait : bool) (args : list val) : res :=
    match args with
    | _ :: _ :: VMap _ :: rest =>
      match rest with
      | [] => Ok (if wait then KList else KNull)
      | VMap _ :: _ => Ok (if wait then KList else KNull)
      | _ => Err E_RUNTIME
      end
    | _ => Err E_RUNTIME
    end.

  Definition eval_builtin (fixed : bool) (f : builtin) (args : list val) : res :=
    match f with
    | BLen => b_len args
    | BDel => b_del fixed args
    | BAdd => b_add fixed args
    | BConcat => b_concat args
    | BRange => b_range args
    | BNew => b_new args
    | BType => b_type args
    | BRaise => Err E_RAISED
    | BAddEvent => b_addevent false args
    | BAddEventAndWait => b_addevent true args
    end.

  (* ---------------------------------------------------------------- sink attributes *)

  Inductive attr := AKindMatch | AScopeMatch | AStateMatch | APriority | ASuppresses.

  (* sinkDetailRuntime.Eval: the kind check that guards createRule's type assertions *)
  Definition attr_ok (a : attr) (v : val) : bool :=
    match a, v with
    | (AKindMatch | AScopeMatch | ASuppresses), VList _ => true
    | AStateMatch, VMap _ => true
    | APriority, VNum _ => true
    | _, _ => false
    end.

  (* createRule: kindmatch / scopematch become Go string slices; an EMPTY list leaves the
     slice nil.  scopeMatch starts as an empty non-nil slice, kindMatch as nil. *)
  Definition nonempty (l : list val) : bool := negb (Nat.eqb (length l) 0).
  Fixpoint rule_lists (attrs : list (attr * val)) (kind_ok scope_ok : bool) : bool * bool :=
    match attrs with
    | [] => (kind_ok, scope_ok)
    | (AKindMatch, VList l) :: r => rule_lists r (nonempty l) scope_ok
    | (AScopeMatch, VList l) :: r => rule_lists r kind_ok (nonempty l)
    | _ :: r => rule_lists r kind_ok scope_ok
    end.

  (* sinkRuntime.Eval: attributes in order, then AddRule's "needs a kind match / scope match" *)
  Definition sink_decl (attrs : list (attr * val)) : res :=
    if forallb (fun p => attr_ok (fst p) (snd p)) attrs then
      (let ks := rule_lists attrs false true in
       if fst ks && snd ks then Ok KNull else Err E_INVSTATE)
    else Err E_INVCONS.

  (* ---------------------------------------------------------------- raise() then try *)

  (* tryRuntime.Eval builds the error object from the error's Type; raise() without
     arguments used to build an error whose Type is nil *)
  Definition try_raise (fixed : bool) (nargs : nat) : res :=
    match nargs with
    | O => if fixed then Ok KNull else Panic S_RAISE
    | _ => Ok KNull
    end.

  (* ---------------------------------------------------------------- all primitives *)

  Inductive call :=
  | CBin (op : binop) (a b : val)
  | CUn (op : unop) (a : val)
  | CMapLit (es : list entry)
  | CGet (c : val) (fs : list field)
  | CAssign (c : val) (fs : list field)
  | CSetRaw (c : val) (fs : list field)        (* Scope.SetValue called directly *)
  | CBuiltin (f : builtin) (args : list val)
  | CSink (attrs : list (attr * val))
  | CTryRaise (nargs : nat).

  Definition eval_call (fixed : bool) (c : call) : res :=
    match c with
    | CBin op a b => eval_bin fixed op a b
    | CUn op a => eval_un op a
    | CMapLit es => map_lit fixed es
    | CGet c fs => get_kind fixed c fs
    | CAssign c fs => assign fixed c fs
    | CSetRaw c fs => cset fixed c fs
    | CBuiltin f args => eval_builtin fixed f args
    | CSink attrs => sink_decl attrs
    | CTryRaise n => try_raise fixed n
    end.
End Builtins.
