(* Model/Builtins.v — the list / map built-ins of /repo/interpreter/func_provider.go
   (lenFunc, addFunc, delFunc (REPAIRED), concatFunc) as the Go code computes them: slices
   with append / copy / re-slicing; positions outside the list are errors (they were Go panics
   before the repair d53eab2).
   The functions work on the contents of the slice that is RETURNED ("Only the returned
   value should be used further", ecal.md).  No proofs in this file. *)
From Coq Require Import ZArith String.
From Ecal Require Import Common.Bytes Common.Outcome Model.Scope.
Open Scope nat_scope.

(* ---- fmt.Sprint of an integral float64 ------------------------------------------- *)
Fixpoint n_digits (fuel : nat) (n : N) (acc : bytes) : bytes :=
  match fuel with
  | O => acc
  | S f =>
    let d := (n mod 10 + 48)%N in
    let q := (n / 10)%N in
    if N.eqb q 0 then d :: acc else n_digits f q (d :: acc)
  end.
Definition n_to_bytes (n : N) : bytes := n_digits (S (N.to_nat (N.log2 n))) n [].
Definition z_to_bytes (z : Z) : bytes :=
  if (z <? 0)%Z then 45%N :: n_to_bytes (Z.to_N (- z)) else n_to_bytes (Z.to_N z).

(* the text of a key inside an access path / of the second argument of del *)
Definition key_text (k : key) : bytes :=
  match k with KNum z => z_to_bytes z | KStr s => s end.

(* ---- Go slice primitives ---------------------------------------------------------- *)
(* copy(dst, src) where dst = l[d:], src = l[s:] of the same slice l (memmove semantics):
   the first min(len dst, len src) elements of src land at offset d *)
Definition go_copy_within {A} (l : list A) (d s : nat) : list A :=
  let n := Nat.min (length l - d) (length l - s) in
  firstn d l ++ firstn n (skipn s l) ++ skipn (d + n) l.

(* add(list, value, index), since d53eab2:
     if i := int(index); i >= 0 && i <= len(argList) {
       argList = append(argList, 0)
       copy(argList[i+1:], argList[i:])
       argList[i] = args[1]
     } else { err = "Out of bounds access to list ..." }                *)
Definition go_add_at (l : list val) (v : val) (i : Z) : outcome (list val) :=
  if (0 <=? i)%Z && (i <=? Z.of_nat (length l))%Z then
    let l1 := l ++ [VNum 0] in
    let n := Z.to_nat i in
    let l2 := go_copy_within l1 (S n) n in
    Ok (list_upd l2 n v)
  else Err "out of bounds".

(* add(list, value): append(argList, args[1]) *)
Definition go_add (l : list val) (v : val) : list val := l ++ [v].

(* del(list, index), since d53eab2:
     if i := int(index); i >= 0 && i < len(argList) { append(argList[:i], argList[i+1:]...) }
     else { err = "Out of bounds access to list ..." }                    *)
Definition go_del_at (l : list val) (i : Z) : outcome (list val) :=
  if (0 <=? i)%Z && (i <? Z.of_nat (length l))%Z
  then Ok (firstn (Z.to_nat i) l ++ skipn (Z.to_nat (i + 1)) l)
  else Err "out of bounds".

(* del(map, key) after the repair: the entry that an access m[key] reads is removed *)
Definition go_map_del (m : list (key * val)) (k : key) : list (key * val) :=
  map_del (map_field_key m (key_text k)) m.

(* concat(l1, l2, ...): resList = append(resList, argList...) for every argument *)
Definition go_concat (ls : list (list val)) : list val := fold_left (fun acc l => acc ++ l) ls [].

Definition go_len_list (l : list val) : Z := Z.of_nat (length l).
Definition go_len_map (m : list (key * val)) : Z := Z.of_nat (length m).
