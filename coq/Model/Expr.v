(* Model/Expr.v — evaluation of expression trees as the interpreter does it.

   Go code followed (interpreter/):
     rt_general.go   numVal, boolVal, numOp, boolOp, strOp, genOp, listOp, errorDetailString
                     (boolOp and listOp name a wrong SECOND operand in the error detail but
                      hand the FIRST operand's node to NewRuntimeError; the test-suite pins
                      that position, the model follows the code)
     rt_arithmetic.go plus/minus (binary and prefix), times, div, divint = math.Floor(a/b),
                     modint = float64(int64(a) % int64(b))
     rt_boolean.go   >= > <= < : numOp, and on ANY error of it strOp on fmt.Sprint of the
                     operands;  == != : genOp with Go's interface equality;  and/or: boolOp
                     (both operands are evaluated);  not: boolVal;  like: regexp on
                     fmt.Sprint of both operands (after the fix: commit for C03 an error of an
                     operand or of regexp.Compile is returned, not dropped);  hasprefix/hassuffix: strOp;  in/notin:
                     listOp with interface equality per element
     rt_value.go     number (strconv.ParseFloat of the token), string, list literal
     rt_const.go     true, false, null
   Numbers are IEEE binary64 = Coq's primitive floats.  Go panics (integer division by
   zero, comparing uncomparable values) are explicit outcomes.  What is outside the modelled
   domain (number formatting beyond 15 significant digits, int64 conversion beyond 2^63,
   string interpolation, access expressions) is [RUnmodelled], never a default value.
   The tree is the REAL parser's tree (Common/Ast.v).  No proofs in this file. *)
From Coq Require Import List String NArith ZArith Bool Arith Floats Uint63.
From Ecal Require Import Common.Bytes Common.Ast gen.Tokens.
Import ListNotations.
Local Open Scope Z_scope.

Inductive value :=
| VNull | VBool (b : bool) | VNum (f : float) | VStr (s : bytes) | VList (l : list value).

Inductive ecls := ENotANumber | ENotABoolean | ENotAList | ERegex.

Inductive eres :=
| RVal (v : value)
| RErr (c : ecls) (named : bytes) (named_ident : bool) (at_node : list nat)
      (* error class; token value and identifier flag of the operand the detail names;
         reversed child-index path of the node the error carries *)
| RPanic (site : string)
| RUnmodelled (why : string).

(* ---------------------------------------------------------------- numbers *)

Definition float_of_Z (z : Z) : float :=        (* 0 <= z < 2^63, correctly rounded *)
  PrimFloat.of_uint63 (Uint63.of_Z z).

(* math.Floor *)
Definition floor_mag (neg : bool) (m : positive) (e : Z) : Z :=   (* e < 0; floor of +-m*2^e *)
  let q := Z.shiftr (Zpos m) (- e) in
  if neg then (if Z.eqb (Z.shiftl q (- e)) (Zpos m) then - q else - (q + 1)) else q.
Definition float_floor (x : float) : float :=
  match Prim2SF x with
  | S754_finite s m e =>
    if 0 <=? e then x
    else let z := floor_mag s m e in
         if z <? 0 then PrimFloat.opp (float_of_Z (- z))
         else if s then x (* not reachable: a negative number has a negative floor *)
         else float_of_Z z
  | _ => x
  end.

(* int64(x) for |x| < 2^63 (outside: implementation specific, not modelled) *)
Definition float_trunc (x : float) : option Z :=
  match Prim2SF x with
  | S754_zero _ => Some 0
  | S754_finite s m e =>
    let mag := if 0 <=? e then Z.shiftl (Zpos m) e else Z.shiftr (Zpos m) (- e) in
    if mag <? 2 ^ 63 then Some (if s then - mag else mag) else None
  | _ => None
  end.
(* float64(z) for |z| < 2^63 *)
Definition float_of_int64 (z : Z) : float :=
  if z <? 0 then PrimFloat.opp (float_of_Z (- z)) else float_of_Z z.

(* the 64-bit pattern (math.Float64bits); every NaN is the canonical 0x7FF8000000000001 *)
Definition float_bits (f : float) : Z :=
  match Prim2SF f with
  | S754_zero s => if s then 2 ^ 63 else 0
  | S754_infinity s => (if s then 2 ^ 63 else 0) + 2047 * 2 ^ 52
  | S754_nan => 2047 * 2 ^ 52 + 2 ^ 51 + 1
  | S754_finite s m e =>
    let sg := if s then 2 ^ 63 else 0 in
    let d := Z.log2 (Zpos m) in
    let E := d + e + 1023 in
    if 1 <=? E then sg + E * 2 ^ 52 + (Z.shiftl (Zpos m) (52 - d) - 2 ^ 52)
    else sg + Z.shiftl (Zpos m) (e + 1074)
  end.

(* decimal digits of a non-negative integer *)
Fixpoint digits_fuel (fuel : nat) (z : Z) (acc : bytes) : bytes :=
  match fuel with
  | O => acc
  | S f => let acc' := (Z.to_N (48 + z mod 10)) :: acc in
           if z <? 10 then acc' else digits_fuel f (z / 10) acc'
  end.
Definition digits (z : Z) : bytes := digits_fuel 80 z [].

Fixpoint strip_zeros_rev (l : bytes) : bytes :=   (* drop leading '0's of a reversed digit list *)
  match l with
  | (48%N) :: r => strip_zeros_rev r
  | _ => l
  end.
Definition strip_trailing_zeros (l : bytes) : bytes := rev (strip_zeros_rev (rev l)).
Fixpoint count_leading_zeros (l : bytes) : nat :=
  match l with (48%N) :: r => S (count_leading_zeros r) | _ => O end.
Fixpoint pad_zeros (n : nat) (l : bytes) : bytes :=
  match n with O => l | S k => (48%N) :: pad_zeros k l end.

(* fmt.Sprint of a float64 (%v = shortest 'g' with exponent form below 1e-4 and from 1e21),
   modelled where the exact decimal expansion has at most 15 significant digits: there the
   shortest round-trip representation is the exact expansion *)
Definition sprint_float (x : float) : option bytes :=
  match Prim2SF x with
  | S754_zero s => Some (if s then [45%N; 48%N] else [48%N])
  | S754_finite s m e =>
    let sign := if s then [45%N] else [] in
    if 0 <=? e then
      if 70 <? e then None else
      let d := digits (Z.shiftl (Zpos m) e) in
      if Nat.leb (length (strip_trailing_zeros d)) 15 && Nat.leb (length d) 21
      then Some (sign ++ d) else None
    else
      let k := - e in
      if 60 <? k then None else
      let ip := Z.shiftr (Zpos m) k in
      let fp := Zpos m - Z.shiftl ip k in
      let fd0 := digits (Z.shiftr (fp * 10 ^ k) k) in
      let fd := strip_trailing_zeros (pad_zeros (Z.to_nat k - length fd0) fd0) in
      let idg := digits ip in
      let sig := if ip =? 0 then (length fd - count_leading_zeros fd)%nat
                 else length (strip_trailing_zeros (idg ++ fd)) in
      if negb (Nat.leb sig 15) then None
      else if (ip =? 0) && Nat.leb 4 (count_leading_zeros fd) then None
      else match fd with
           | [] => Some (sign ++ idg)
           | _ => Some (sign ++ idg ++ [46%N] ++ fd)
           end
  | _ => None
  end.

(* strconv.ParseFloat on  digits [. digits] [e+digits]  with a mantissa below 2^53 and a
   power of ten up to 10^22: one correctly rounded operation on exact operands *)
Fixpoint read_digits (s : bytes) (acc : Z) (n : nat) : Z * nat * bytes :=
  match s with
  | c :: r => if (48 <=? c)%N && (c <=? 57)%N
              then read_digits r (acc * 10 + (Z.of_N c - 48)) (S n) else (acc, n, s)
  | [] => (acc, n, s)
  end.
Definition parse_number (s : bytes) : option float :=
  let '(ip, ni, r1) := read_digits s 0 O in
  if Nat.eqb ni 0 then None else
  let '(mant, nf, r2) :=
    match r1 with
    | (46%N) :: r => read_digits r ip O
    | _ => (ip, O, r1)
    end in
  let ex :=
    match r2 with
    | [] => Some 0
    | (101%N) :: (43%N) :: r =>
      let '(e, ne, r3) := read_digits r 0 O in
      match r3 with [] => if Nat.eqb ne 0 then None else Some e | _ => None end
    | _ => None
    end in
  match ex with
  | None => None
  | Some e =>
    let sh := e - Z.of_nat nf in
    if negb (mant <? 2 ^ 53) then None
    else if (0 <=? sh) && (sh <=? 22) then Some (PrimFloat.mul (float_of_Z mant) (float_of_Z (10 ^ sh)))
    else if (sh <? 0) && (-22 <=? sh) then Some (PrimFloat.div (float_of_Z mant) (float_of_Z (10 ^ (- sh))))
    else None
  end.

(* ---------------------------------------------------------------- values *)

Fixpoint bytes_ltb (a b : bytes) : bool :=     (* Go's < on strings: bytewise lexical *)
  match a, b with
  | _, [] => false
  | [], _ :: _ => true
  | x :: a', y :: b' => (x <? y)%N || ((x =? y)%N && bytes_ltb a' b')
  end.
Definition bytes_leb (a b : bytes) : bool := negb (bytes_ltb b a).

Definition suffixb (p s : bytes) : bool := prefixb (rev p) (rev s).

Definition join_sp (l : list bytes) : bytes :=
  match l with
  | [] => []
  | x :: r => x ++ flat_map (fun y => (32%N) :: y) r
  end.

(* fmt.Sprint of a value *)
Fixpoint sprint (v : value) : option bytes :=
  match v with
  | VNull => Some [60; 110; 105; 108; 62]%N                     (* <nil> *)
  | VBool true => Some [116; 114; 117; 101]%N
  | VBool false => Some [102; 97; 108; 115; 101]%N
  | VNum f => sprint_float f
  | VStr s => Some s
  | VList l =>
    match (fix go (l : list value) : option (list bytes) :=
             match l with
             | [] => Some []
             | x :: r => match sprint x, go r with
                         | Some a, Some b => Some (a :: b)
                         | _, _ => None
                         end
             end) l with
    | Some parts => Some ([91%N] ++ join_sp parts ++ [93%N])
    | None => None
    end
  end.

(* Go's == on interface{} values: None = runtime panic (both operands are slices) *)
Definition val_eq (a b : value) : option bool :=
  match a, b with
  | VNull, VNull => Some true
  | VBool x, VBool y => Some (Bool.eqb x y)
  | VNum x, VNum y => Some (PrimFloat.eqb x y)
  | VStr x, VStr y => Some (bytes_eqb x y)
  | VList _, VList _ => None
  | _, _ => Some false
  end.

(* the loop of the `in` operator: stops at the first equal element *)
Fixpoint list_mem (v : value) (l : list value) : option bool :=
  match l with
  | [] => Some false
  | x :: r => match val_eq v x with
              | None => None
              | Some true => Some true
              | Some false => list_mem v r
              end
  end.

(* ---------------------------------------------------------------- operator helpers *)

Definition PANIC_UNCOMPARABLE : string := "runtime error: comparing uncomparable type []interface {}".
Definition PANIC_DIVZERO : string := "runtime error: integer divide by zero".

Definition err_at (c : ecls) (named : node) (at_child : nat) (path : list nat) : eres :=
  RErr c (n_val named) (n_ident named) (at_child :: path).

(* first error (or panic) among two evaluated operands, in evaluation order *)
Definition both (r1 r2 : eres) (k : value -> value -> eres) : eres :=
  match r1 with
  | RVal v1 => match r2 with RVal v2 => k v1 v2 | e => e end
  | e => e
  end.

Definition num_val (op : float -> value) (path : list nat) (c : node) (r : eres) : eres :=
  match r with
  | RVal (VNum x) => RVal (op x)
  | RVal _ => err_at ENotANumber c 0 path
  | e => e
  end.
Definition bool_val (op : bool -> value) (path : list nat) (c : node) (r : eres) : eres :=
  match r with
  | RVal (VBool x) => RVal (op x)
  | RVal _ => err_at ENotABoolean c 0 path
  | e => e
  end.
Definition num_op (op : float -> float -> eres) (path : list nat) (c1 c2 : node) (r1 r2 : eres) : eres :=
  both r1 r2 (fun v1 v2 =>
    match v1 with
    | VNum x => match v2 with
                | VNum y => op x y
                | _ => err_at ENotANumber c2 1 path
                end
    | _ => err_at ENotANumber c1 0 path
    end).
Definition bool_op (op : bool -> bool -> bool) (path : list nat) (c1 c2 : node) (r1 r2 : eres) : eres :=
  both r1 r2 (fun v1 v2 =>
    match v1 with
    | VBool x => match v2 with
                 | VBool y => RVal (VBool (op x y))
                 | _ => err_at ENotABoolean c2 0 path
                 end
    | _ => err_at ENotABoolean c1 0 path
    end).
Definition str_op (op : bytes -> bytes -> bool) (r1 r2 : eres) : eres :=
  both r1 r2 (fun v1 v2 =>
    match sprint v1, sprint v2 with
    | Some s1, Some s2 => RVal (VBool (op s1 s2))
    | _, _ => RUnmodelled "fmt.Sprint of a number outside the modelled domain"
    end).
Definition gen_op (op : bool -> bool) (r1 r2 : eres) : eres :=
  both r1 r2 (fun v1 v2 =>
    match val_eq v1 v2 with
    | Some b => RVal (VBool (op b))
    | None => RPanic PANIC_UNCOMPARABLE
    end).
Definition list_op (op : bool -> bool) (path : list nat) (c2 : node) (r1 r2 : eres) : eres :=
  both r1 r2 (fun v1 v2 =>
    match v2 with
    | VList l => match list_mem v1 l with
                 | Some b => RVal (VBool (op b))
                 | None => RPanic PANIC_UNCOMPARABLE
                 end
    | _ => err_at ENotAList c2 0 path
    end).

(* numOp, and on any error of it strOp: the operands' own errors come back unchanged *)
Definition cmp_op (fop : float -> float -> bool) (sop : bytes -> bytes -> bool) (r1 r2 : eres) : eres :=
  both r1 r2 (fun v1 v2 =>
    match v1, v2 with
    | VNum x, VNum y => RVal (VBool (fop x y))
    | _, _ => str_op sop (RVal v1) (RVal v2)
    end).

Definition op_divint (x y : float) : eres := RVal (VNum (float_floor (PrimFloat.div x y))).
Definition op_modint (x y : float) : eres :=
  match float_trunc x, float_trunc y with
  | Some a, Some b =>
    if b =? 0 then RPanic PANIC_DIVZERO else RVal (VNum (float_of_int64 (Z.rem a b)))
  | _, _ => RUnmodelled "int64 conversion of a value beyond 2^63"
  end.

Definition name_is (a b : string) : bool := String.eqb a b.

Section Eval.
  Variable env : list (bytes * value).                     (* the variables of the scope *)
  Variable rx : list (bytes * bytes * option bool).         (* regexp oracle: (pattern, subject)
                                                               -> None = does not compile *)
  Fixpoint env_get (e : list (bytes * value)) (k : bytes) : value :=
    match e with
    | [] => VNull
    | (k', v) :: r => if bytes_eqb k k' then v else env_get r k
    end.
  Fixpoint rx_get (t : list (bytes * bytes * option bool)) (p s : bytes) : option (option bool) :=
    match t with
    | [] => None
    | (p', s', b) :: r => if bytes_eqb p p' && bytes_eqb s s' then Some b else rx_get r p s
    end.

  Definition like_op (path : list nat) (c2 : node) (r1 r2 : eres) : eres :=
    both r1 r2 (fun v1 v2 =>
      match sprint v1, sprint v2 with
      | Some s, Some p =>
        match rx_get rx p s with
        | Some (Some b) => RVal (VBool b)
        | Some None => RErr ERegex (n_val c2) (n_ident c2) (1%nat :: path)
        | None => RUnmodelled "regular expression not in the oracle table"
        end
      | _, _ => RUnmodelled "fmt.Sprint of a number outside the modelled domain"
      end).

  (* one operator node, its children and their results *)
  Definition eval_op (name : string) (path : list nat) (cs : list node) (rs : list eres) : eres :=
    match cs, rs with
    | [c], [r] =>
      if name_is name NodePLUS then num_val (fun x => VNum x) path c r
      else if name_is name NodeMINUS then num_val (fun x => VNum (PrimFloat.opp x)) path c r
      else if name_is name NodeNOT then bool_val (fun b => VBool (negb b)) path c r
      else RUnmodelled "unary node outside the fragment"
    | [c1; c2], [r1; r2] =>
      if name_is name NodePLUS then num_op (fun x y => RVal (VNum (PrimFloat.add x y))) path c1 c2 r1 r2
      else if name_is name NodeMINUS then num_op (fun x y => RVal (VNum (PrimFloat.sub x y))) path c1 c2 r1 r2
      else if name_is name NodeTIMES then num_op (fun x y => RVal (VNum (PrimFloat.mul x y))) path c1 c2 r1 r2
      else if name_is name NodeDIV then num_op (fun x y => RVal (VNum (PrimFloat.div x y))) path c1 c2 r1 r2
      else if name_is name NodeDIVINT then num_op op_divint path c1 c2 r1 r2
      else if name_is name NodeMODINT then num_op op_modint path c1 c2 r1 r2
      else if name_is name NodeGEQ then cmp_op (fun x y => PrimFloat.leb y x) (fun a b => bytes_leb b a) r1 r2
      else if name_is name NodeGT then cmp_op (fun x y => PrimFloat.ltb y x) (fun a b => bytes_ltb b a) r1 r2
      else if name_is name NodeLEQ then cmp_op PrimFloat.leb bytes_leb r1 r2
      else if name_is name NodeLT then cmp_op PrimFloat.ltb bytes_ltb r1 r2
      else if name_is name NodeEQ then gen_op (fun b => b) r1 r2
      else if name_is name NodeNEQ then gen_op negb r1 r2
      else if name_is name NodeAND then bool_op andb path c1 c2 r1 r2
      else if name_is name NodeOR then bool_op orb path c1 c2 r1 r2
      else if name_is name NodeLIKE then like_op path c2 r1 r2
      else if name_is name NodeHASPREFIX then str_op (fun a b => prefixb b a) r1 r2
      else if name_is name NodeHASSUFFIX then str_op (fun a b => suffixb b a) r1 r2
      else if name_is name NodeIN then list_op (fun b => b) path c2 r1 r2
      else if name_is name NodeNOTIN then list_op negb path c2 r1 r2
      else RUnmodelled "binary node outside the fragment"
    | _, _ => RUnmodelled "operand count"
    end.

  Definition has_interp (s : bytes) : bool :=
    match find_sub [123; 123]%N s with Some _ => true | None => false end.

  (* a list literal: the first failing element, else the list *)
  Fixpoint collect (rs : list eres) : eres :=
    match rs with
    | [] => RVal (VList [])
    | RVal v :: r => match collect r with
                     | RVal (VList l) => RVal (VList (v :: l))
                     | e => e
                     end
    | e :: _ => e
    end.

  Fixpoint eval (path : list nat) (n : node) {struct n} : eres :=
    match n with
    | Node name val ident esc line cs =>
      let rs := (fix go (i : nat) (l : list node) {struct l} : list eres :=
                   match l with
                   | [] => []
                   | c :: r => eval (i :: path) c :: go (S i) r
                   end) O cs in
      if name_is name NodeNUMBER then
        match cs, parse_number val with
        | [], Some f => RVal (VNum f)
        | _, _ => RUnmodelled "number literal outside the modelled domain"
        end
      else if name_is name NodeSTRING then
        match cs with
        | [] => if esc && has_interp val then RUnmodelled "string interpolation" else RVal (VStr val)
        | _ => RUnmodelled "string with children"
        end
      else if name_is name NodeTRUE then RVal (VBool true)
      else if name_is name NodeFALSE then RVal (VBool false)
      else if name_is name NodeNULL then RVal VNull
      else if name_is name NodeIDENTIFIER then
        match cs with
        | [] => RVal (env_get env val)
        | _ => RUnmodelled "access expression"
        end
      else if name_is name NodeLIST then collect rs
      else eval_op name path cs rs
    end.
End Eval.
