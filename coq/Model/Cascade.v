(* Model/Cascade.v — completion detection of an event cascade (C02).  No proofs in this file.

   Go code followed, one model step per lock-delimited region, in program order:

   engine/processor.go  AddEventAndWait(event, rm)      adding goroutine of root monitor r
       wg.Add(1); (rm = newRootMonitor: unfinished = 1)        LNewRoot r wait
       messageQueue.AddObserver(Finished, rm, waiterCb)         LObsWaiter r      (pump lock)
       AddEvent(event, rm):
         !IsTriggering  -> rm.Skip(event)                       LSkip r           (root lock: unfinished--)
                           [post + callbacks if zero, see below]
         else AddObserver(Finished, rm, finishHandlerCb)        LObsHandler r     (pump lock)
              rm.Activate(event)                                LActivate r       (root lock)
              pool.AddTask -> TaskQueue.Push                    LPush r           (queue lock, nested pump lock)
       resMonitor == nil -> RemoveObservers(Finished, rm); return   LAdderNext r  (pump lock)
       else wg.Wait()                                           LAdderNext r ; LWaitReturn r (enabled iff wg = 0)

   engine/taskqueue.go  Pop  (removes empty queues, picks one)  LCleanup r ; LPop m
     Task.Run: ProcessEvent: for every executing rule: rule.Action(...)
                                                                LActStart m rule
         inside an action (the harness / ECAL addEvent):
           monitor.NewChildMonitor -> descendantCreated         LChild m c        (root lock: unfinished++)
           AddEvent(ev, child): Skip | Activate ; Push          LSkip c | LActivate c ; LPush c
                                                                LActEnd m rule failed
       ProcessEvent returned                                    LProcEnd m
       len(errors) > 0 -> HandleError: SetErrors                LErrAttach m      (root lock: errors[id] = m)
       Finish -> descendantFinished: lock; unfinished--;
                 finished := unfinished == 0; unlock            LFinish m         (root lock)
                 if finished { PostEvent }                      LPost m           (pump lock: copy observers)
                   callbacks, in the order of the copy:
                     waiter:   wg.Done()                        LWaiterDone m
                               RemoveObservers                  LCbRemove m       (pump lock)
                     handler:  rm.finished(p)                   LHandler m
                               RemoveObservers                  LCbRemove m
                     queue:    lock; assert queue empty;
                               RemoveObservers; unlock          LTqCheck m        (queue lock, nested pump lock)

   The monitor whose Finish/Skip crossed zero is the "poster"; its goroutine performs the
   post and the callbacks (phase PFinZero, PPosting).  A rule action is not a script but
   nondeterministic: every finite sequence of LChild/LSkip/LActivate/LPush inside
   LActStart..LActEnd is a behaviour, so the theorems cover every finite action script.
   The ghost field m_stamps records every returned action with its result; the Go
   [errors] map of ProcessEvent is the failing part of it ([failed_of]).

   Not modelled here (other properties): which worker pops (any task of any queue may be
   popped: C09/C10), the priority bookkeeping of descendantActivated/Finished (C10: it
   never touches [unfinished]), rule matching (C01).  Children are created only by rule
   actions of a running task (as ECAL's addEvent does with is["monitor"]).

   Go panics are explicit: s_panic = Some 1 ("Finished monitor left events behind"),
   Some 2 (sync: negative WaitGroup counter). *)
From Coq Require Export List ZArith Bool Arith.
Export ListNotations.
From Ecal Require Export Common.Sched.

Inductive cb := CbWaiter | CbHandler | CbTq.

Inductive phase :=
| PCreated                                   (* constructed / descendantCreated done *)
| PActivated
| PQueued
| PRun (cur : option nat) (busy : option nat) (* popped, ProcessEvent running; cur = rule whose action runs;
                                                 busy = child handed to an AddEvent call that may not have returned *)
| PProcDone
| PErrSet
| PFinZero                                   (* decremented to zero, post pending *)
| PPosting (cbs : list cb) (half : bool)     (* observers copied; half = first part of the head callback done *)
| PDone.

Inductive apc := ANew | AObsW | AGo | AWaiting | ARet.

Record mrec := mkM {
  m_root : nat; m_parent : option nat; m_phase : phase;
  m_inflight : bool;                 (* the AddEvent/Skip call handling this monitor has not returned *)
  m_stamps : list (nat * bool);      (* returned actions: (rule, returned an error) *)
  m_attached : bool;                 (* SetErrors done *)
  m_skipped : bool }.

Record rrec := mkR {
  r_unf : Z;                         (* RootMonitor.unfinished *)
  r_errors : list nat;               (* keys of RootMonitor.errors *)
  r_crossed : nat;                   (* ghost: decrements that produced zero *)
  r_posted : nat;                    (* finished messages posted *)
  r_handler : nat;                   (* finish handler calls *)
  r_wait : bool; r_trig : bool; r_released : bool;
  r_wg : Z;                          (* the waiter's WaitGroup counter *)
  r_apc : apc }.

Record state := mkS {
  mons : nat -> option mrec;
  ids : list nat;                    (* monitor ids in creation order *)
  roots : nat -> option rrec;
  obs : nat -> list cb;              (* observers of (MessageRootMonitorFinished, root) *)
  queues : nat -> option (list nat); (* TaskQueue.queues *)
  s_panic : option nat }.

Inductive label :=
| LNewRoot (r : nat) (w : bool) | LObsWaiter (r : nat) | LObsHandler (r : nat)
| LSkip (m : nat) | LActivate (m : nat) | LPush (m : nat) | LCleanup (r : nat) | LPop (m : nat)
| LActStart (m rule : nat) | LChild (m c : nat) | LActEnd (m rule : nat) (failed : bool)
| LProcEnd (m : nat) | LErrAttach (m : nat) | LFinish (m : nat) | LPost (m : nat)
| LWaiterDone (m : nat) | LHandler (m : nat) | LCbRemove (m : nat) | LTqCheck (m : nat)
| LAdderNext (r : nat) | LWaitReturn (r : nat).

Definition upd {A} (f : nat -> A) (n : nat) (v : A) : nat -> A :=
  fun i => if Nat.eqb i n then v else f i.

Definition set_m (s : state) (m : nat) (M : mrec) : state :=
  mkS (upd (mons s) m (Some M)) (ids s) (roots s) (obs s) (queues s) (s_panic s).
Definition add_m (s : state) (m : nat) (M : mrec) : state :=
  mkS (upd (mons s) m (Some M)) (ids s ++ [m]) (roots s) (obs s) (queues s) (s_panic s).
Definition set_r (s : state) (r : nat) (R : rrec) : state :=
  mkS (mons s) (ids s) (upd (roots s) r (Some R)) (obs s) (queues s) (s_panic s).
Definition set_obs (s : state) (r : nat) (l : list cb) : state :=
  mkS (mons s) (ids s) (roots s) (upd (obs s) r l) (queues s) (s_panic s).
Definition set_q (s : state) (r : nat) (q : option (list nat)) : state :=
  mkS (mons s) (ids s) (roots s) (obs s) (upd (queues s) r q) (s_panic s).
Definition set_panic (s : state) (n : nat) : state :=
  mkS (mons s) (ids s) (roots s) (obs s) (queues s) (Some n).

Definition with_phase (M : mrec) (p : phase) : mrec :=
  mkM (m_root M) (m_parent M) p (m_inflight M) (m_stamps M) (m_attached M) (m_skipped M).
Definition returned (M : mrec) (p : phase) : mrec :=       (* the call handling M returns *)
  mkM (m_root M) (m_parent M) p false (m_stamps M) (m_attached M) (m_skipped M).
Definition with_stamp (M : mrec) (p : phase) (st : nat * bool) : mrec :=
  mkM (m_root M) (m_parent M) p (m_inflight M) (m_stamps M ++ [st]) (m_attached M) (m_skipped M).
Definition attached (M : mrec) : mrec :=
  mkM (m_root M) (m_parent M) PErrSet (m_inflight M) (m_stamps M) true (m_skipped M).
Definition skipped (M : mrec) : mrec :=
  mkM (m_root M) (m_parent M) (m_phase M) (m_inflight M) (m_stamps M) (m_attached M) true.

Definition with_apc (R : rrec) (a : apc) : rrec :=
  mkR (r_unf R) (r_errors R) (r_crossed R) (r_posted R) (r_handler R) (r_wait R) (r_trig R) (r_released R) (r_wg R) a.
Definition with_trig (R : rrec) : rrec :=
  mkR (r_unf R) (r_errors R) (r_crossed R) (r_posted R) (r_handler R) (r_wait R) true (r_released R) (r_wg R) AGo.
Definition with_unf (R : rrec) (u : Z) (c : nat) : rrec :=
  mkR u (r_errors R) c (r_posted R) (r_handler R) (r_wait R) (r_trig R) (r_released R) (r_wg R) (r_apc R).
Definition with_error (R : rrec) (m : nat) : rrec :=
  mkR (r_unf R) (r_errors R ++ [m]) (r_crossed R) (r_posted R) (r_handler R) (r_wait R) (r_trig R) (r_released R) (r_wg R) (r_apc R).
Definition with_post (R : rrec) : rrec :=
  mkR (r_unf R) (r_errors R) (r_crossed R) (S (r_posted R)) (r_handler R) (r_wait R) (r_trig R) (r_released R) (r_wg R) (r_apc R).
Definition with_handler (R : rrec) : rrec :=
  mkR (r_unf R) (r_errors R) (r_crossed R) (r_posted R) (S (r_handler R)) (r_wait R) (r_trig R) (r_released R) (r_wg R) (r_apc R).
Definition with_release (R : rrec) : rrec :=
  mkR (r_unf R) (r_errors R) (r_crossed R) (r_posted R) (r_handler R) (r_wait R) (r_trig R) true (r_wg R - 1) (r_apc R).

(* created and not yet counted down *)
Definition unfinb (p : phase) : bool :=
  match p with PCreated | PActivated | PQueued | PRun _ _ | PProcDone | PErrSet => true | _ => false end.

Definition failed_of (M : mrec) : list nat := map fst (filter snd (m_stamps M)).

Definition pre_go (R : rrec) : bool :=
  match r_apc R with ANew => negb (r_wait R) | AObsW => true | _ => false end.

(* has the AddEvent call for the child recorded in [busy] returned? *)
Definition child_back (s : state) (busy : option nat) : bool :=
  match busy with
  | None => true
  | Some c => match mons s c with Some C => negb (m_inflight C) | None => true end
  end.

(* descendantFinished, locked part, for monitor m (record M with the new flags already set) *)
Definition dec (s : state) (m : nat) (M : mrec) : option state :=
  match roots s (m_root M) with
  | None => None
  | Some R =>
    let u := (r_unf R - 1)%Z in
    if Z.eqb u 0
    then Some (set_m (set_r s (m_root M) (with_unf R u (S (r_crossed R)))) m (with_phase M PFinZero))
    else Some (set_m (set_r s (m_root M) (with_unf R u (r_crossed R))) m (returned M PDone))
  end.

(* after a callback of the poster m completed *)
Definition next_cb (s : state) (m : nat) (M : mrec) (rest : list cb) : state :=
  match rest with
  | [] => set_m s m (returned M PDone)
  | _ => set_m s m (with_phase M (PPosting rest false))
  end.

Fixpoint remove_nat (x : nat) (l : list nat) : list nat :=
  match l with [] => [] | y :: t => if Nat.eqb x y then t else y :: remove_nat x t end.
Fixpoint mem_nat (x : nat) (l : list nat) : bool :=
  match l with [] => false | y :: t => Nat.eqb x y || mem_nat x t end.

Definition step (s : state) (l : label) : option state :=
  match s_panic s with Some _ => None | None =>
  match l with
  | LNewRoot r w =>
    match mons s r, roots s r with
    | None, None =>
      Some (add_m (set_r s r (mkR 1 [] 0 0 0 w false false (if w then 1 else 0)%Z ANew)) r
                  (mkM r None PCreated true [] false false))
    | _, _ => None
    end
  | LObsWaiter r =>
    match roots s r with
    | Some R => match r_apc R with
                | ANew => if r_wait R then Some (set_obs (set_r s r (with_apc R AObsW)) r (obs s r ++ [CbWaiter])) else None
                | _ => None end
    | None => None
    end
  | LObsHandler r =>
    match roots s r with
    | Some R => if pre_go R then Some (set_obs (set_r s r (with_trig R)) r (obs s r ++ [CbHandler])) else None
    | None => None
    end
  | LSkip m =>
    match mons s m with
    | Some M =>
      match m_phase M with
      | PCreated =>
        match m_parent M with
        | Some _ => dec s m (skipped M)
        | None => match roots s (m_root M) with
                  | Some R => if pre_go R then dec (set_r s (m_root M) (with_apc R AGo)) m (skipped M) else None
                  | None => None end
        end
      | _ => None
      end
    | None => None
    end
  | LActivate m =>
    match mons s m with
    | Some M =>
      match m_phase M with
      | PCreated =>
        match m_parent M with
        | Some _ => Some (set_m s m (with_phase M PActivated))
        | None => match roots s (m_root M) with
                  | Some R => match r_apc R with
                              | AGo => if r_trig R then Some (set_m s m (with_phase M PActivated)) else None
                              | _ => None end
                  | None => None end
        end
      | _ => None
      end
    | None => None
    end
  | LPush m =>
    match mons s m with
    | Some M =>
      match m_phase M with
      | PActivated =>
        let r := m_root M in
        let s1 := match queues s r with
                  | Some q => set_q s r (Some (q ++ [m]))
                  | None => set_obs (set_q s r (Some [m])) r (obs s r ++ [CbTq])
                  end in
        Some (set_m s1 m (returned M PQueued))
      | _ => None
      end
    | None => None
    end
  | LCleanup r =>
    match queues s r with
    | Some [] => Some (set_q s r None)
    | _ => None
    end
  | LPop m =>
    match mons s m with
    | Some M =>
      match m_phase M, queues s (m_root M) with
      | PQueued, Some q =>
        if mem_nat m q
        then Some (set_m (set_q s (m_root M) (Some (remove_nat m q))) m (with_phase M (PRun None None)))
        else None
      | _, _ => None
      end
    | None => None
    end
  | LActStart m rule =>
    match mons s m with
    | Some M => match m_phase M with
                | PRun None busy => if child_back s busy then Some (set_m s m (with_phase M (PRun (Some rule) None))) else None
                | _ => None end
    | None => None
    end
  | LChild m c =>
    match mons s m, mons s c with
    | Some M, None =>
      match m_phase M with
      | PRun (Some rule) busy =>
        if child_back s busy
        then match roots s (m_root M) with
             | Some R =>
               Some (add_m (set_m (set_r s (m_root M) (with_unf R (r_unf R + 1) (r_crossed R))) m
                                  (with_phase M (PRun (Some rule) (Some c))))
                           c (mkM (m_root M) (Some m) PCreated true [] false false))
             | None => None end
        else None
      | _ => None
      end
    | _, _ => None
    end
  | LActEnd m rule failed =>
    match mons s m with
    | Some M => match m_phase M with
                | PRun (Some rule') busy =>
                  if Nat.eqb rule rule' && child_back s busy
                  then Some (set_m s m (with_stamp M (PRun None None) (rule, failed))) else None
                | _ => None end
    | None => None
    end
  | LProcEnd m =>
    match mons s m with
    | Some M => match m_phase M with
                | PRun None busy => if child_back s busy then Some (set_m s m (with_phase M PProcDone)) else None
                | _ => None end
    | None => None
    end
  | LErrAttach m =>
    match mons s m with
    | Some M =>
      match m_phase M, failed_of M, roots s (m_root M) with
      | PProcDone, _ :: _, Some R => Some (set_m (set_r s (m_root M) (with_error R m)) m (attached M))
      | _, _, _ => None
      end
    | None => None
    end
  | LFinish m =>
    match mons s m with
    | Some M =>
      match m_phase M, failed_of M with
      | PProcDone, [] => dec s m M
      | PErrSet, _ => dec s m M
      | _, _ => None
      end
    | None => None
    end
  | LPost m =>
    match mons s m with
    | Some M =>
      match m_phase M, roots s (m_root M) with
      | PFinZero, Some R => Some (next_cb (set_r s (m_root M) (with_post R)) m M (obs s (m_root M)))
      | _, _ => None
      end
    | None => None
    end
  | LWaiterDone m =>
    match mons s m with
    | Some M =>
      match m_phase M, roots s (m_root M) with
      | PPosting (CbWaiter :: rest) false, Some R =>
        if Z.leb (r_wg R) 0 then Some (set_panic s 2)
        else Some (set_m (set_r s (m_root M) (with_release R)) m (with_phase M (PPosting (CbWaiter :: rest) true)))
      | _, _ => None
      end
    | None => None
    end
  | LHandler m =>
    match mons s m with
    | Some M =>
      match m_phase M, roots s (m_root M) with
      | PPosting (CbHandler :: rest) false, Some R =>
        Some (set_m (set_r s (m_root M) (with_handler R)) m (with_phase M (PPosting (CbHandler :: rest) true)))
      | _, _ => None
      end
    | None => None
    end
  | LCbRemove m =>
    match mons s m with
    | Some M =>
      match m_phase M with
      | PPosting (CbWaiter :: rest) true | PPosting (CbHandler :: rest) true =>
        Some (next_cb (set_obs s (m_root M) []) m M rest)
      | _ => None
      end
    | None => None
    end
  | LTqCheck m =>
    match mons s m with
    | Some M =>
      match m_phase M with
      | PPosting (CbTq :: rest) false =>
        match queues s (m_root M) with
        | Some (_ :: _) => Some (set_panic s 1)
        | _ => Some (next_cb (set_obs s (m_root M) []) m M rest)
        end
      | _ => None
      end
    | None => None
    end
  | LAdderNext r =>
    match roots s r, mons s r with
    | Some R, Some M =>
      match r_apc R with
      | AGo =>
        if m_inflight M then None
        else if m_skipped M
             then Some (set_r (if r_wait R then set_obs s r [] else s) r (with_apc R ARet))
             else Some (set_r s r (with_apc R (if r_wait R then AWaiting else ARet)))
      | _ => None
      end
    | _, _ => None
    end
  | LWaitReturn r =>
    match roots s r with
    | Some R => match r_apc R with
                | AWaiting => if Z.eqb (r_wg R) 0 then Some (set_r s r (with_apc R ARet)) else None
                | _ => None end
    | None => None
    end
  end end.

Definition init : state := mkS (fun _ => None) [] (fun _ => None) (fun _ => []) (fun _ => None) None.

Definition reach (s : state) : Prop := reachable step init s.

(* ---- observables of a state, used by the Spec and by the runner ---- *)
Definition mons_of (s : state) (r : nat) : list nat :=
  filter (fun i => match mons s i with Some M => Nat.eqb (m_root M) r | None => false end) (ids s).

(* sum of a weight over all monitors *)
Definition wsum (w : mrec -> nat) (s : state) : nat :=
  list_sum (map (fun i => match mons s i with Some M => w M | None => 0 end) (ids s)).

Definition b2n (b : bool) : nat := if b then 1 else 0.

(* number of created and not yet counted-down monitors of root r *)
Definition w_unf (r : nat) (M : mrec) : nat := b2n (Nat.eqb (m_root M) r && unfinb (m_phase M)).
Definition count_unf (s : state) (r : nat) : nat := wsum (w_unf r) s.

Definition finishedb (s : state) (m : nat) : bool :=
  match mons s m with Some M => negb (unfinb (m_phase M)) | None => false end.

Definition doneb (s : state) (m : nat) : bool :=
  match mons s m with Some M => match m_phase M with PDone => true | _ => false end | None => false end.

(* the cascade of root r has nothing left to do *)
Definition settledb (s : state) (r : nat) : bool :=
  match roots s r with
  | Some R => match r_apc R with ARet => forallb (doneb s) (mons_of s r) | _ => false end
  | None => false
  end.

(* AllErrors() as the list of (monitor, failing rules) *)
Definition all_errors (s : state) (r : nat) : list (nat * list nat) :=
  match roots s r with
  | Some R => map (fun m => (m, match mons s m with Some M => failed_of M | None => [] end)) (r_errors R)
  | None => []
  end.
