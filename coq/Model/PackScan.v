(* Model/PackScan.v — the marker scan of cli/tool/pack.go (findPackMarker, called by
   RunPackedBinary), REPAIRED version (fixes/C20-pack-marker-scan.patch), branch by branch.

   Go code                                            model
   -----------------------------------------------    ------------------------------------------
   keep := max(b2, len(marker)-1)                     keep
   buf := make([]byte, keep+b1); fill := 0            the window [win] is buf[:fill]; the bytes of
                                                      buf beyond fill are never inspected by the
                                                      code (every use is buf[:fill], buf[x:fill] or
                                                      buf[j] with j < fill), so stale buffer
                                                      contents are not part of the state
   i, err := r.Read(buf[fill:]); fill += i            [read_n]: io.Reader semantics — at most
                                                      len(buf)-fill bytes, possibly fewer (oracle
                                                      [short]), at least one unless the stream is
                                                      exhausted (then 0, io.EOF); a read into an
                                                      empty slice returns 0, nil (os.File.Read)
   buf[fill:] with fill > len(buf)                    Panic "slice bounds"
   if !found { Index ...; pos += ..; copy }           find_sub on the window
   if found { skip space/control; break | fill=0 }    [skipcount]
   else if fill > keep { pos += ..; copy }            keep the last [keep] bytes
   if err != nil { break }                            eof
   return pos, found                                  Ok (Some pos) | Ok None

   The loop is fuelled; OutOfFuel is an explicit outcome (an endless loop of the Go code,
   e.g. for b1 = 0 where every read returns 0, nil). *)
From Coq Require Import String.
From Ecal Require Import Common.Bytes Common.Outcome.

(* unicode.IsSpace(rune(b)) || unicode.IsControl(rune(b)) for a byte value b (Latin-1):
   control: 0x00-0x1F, 0x7F-0x9F; space: \t \n \v \f \r ' ' 0x85 0xA0 *)
Definition is_skip (c : N) : bool := (c <=? 32) || ((127 <=? c) && (c <=? 160)).

(* number of leading bytes that the scan skips after the marker *)
Fixpoint skipcount (s : bytes) : nat :=
  match s with
  | c :: s' => if is_skip c then S (skipcount s') else 0%nat
  | [] => 0%nat
  end.

Definition scan_result := outcome (option nat).
Definition Found (off : nat) : scan_result := Ok (Some off).
Definition NotFound : scan_result := Ok None.

Section Scan.
  Variable marker : bytes.
  Variables b1 b2 : nat.            (* package variables b1 (block) and b2 (overlap) *)
  Variable short : nat -> nat.      (* read number k returns [short k] bytes fewer than it could *)

  Definition keep : nat := Nat.max b2 (length marker - 1).
  Definition bufcap : nat := (keep + b1)%nat.

  (* bytes delivered by one Read into a slice with [free] bytes when [avail] bytes are left *)
  Definition read_n (k free avail : nat) : nat :=
    let m := Nat.min free avail in
    match m with
    | O => O
    | S _ => Nat.max 1 (m - short k)
    end.

  Fixpoint scan_loop (fuel k : nat) (win : bytes) (pos : nat) (found : bool) (rest : bytes)
    : scan_result :=
    match fuel with
    | O => OutOfFuel
    | S fuel' =>
      if (bufcap <? length win)%nat then Panic "slice bounds out of range: buf[fill:]"
      else
        let free := (bufcap - length win)%nat in
        let n := read_n k free (length rest) in
        let eof := andb (negb (free =? 0)%nat) (length rest =? 0)%nat in   (* err == io.EOF *)
        let win1 := win ++ firstn n rest in                                (* fill += i *)
        let rest1 := skipn n rest in
        (* if !found { ... } *)
        let '(found2, pos2, win2) :=
          if found then (true, pos, win1)
          else match find_sub marker win1 with
               | Some (a, b) => (true, (pos + (length a + length marker))%nat, b)
               | None => (false, pos, win1)
               end in
        if found2 then
          let start := skipcount win2 in
          let pos3 := (pos2 + start)%nat in
          if (start <? length win2)%nat then Found pos3               (* break: position determined *)
          else if eof then Found pos3                                  (* fill = 0; err != nil: break *)
          else scan_loop fuel' (S k) [] pos3 true rest1
        else if (keep <? length win2)%nat then
          let d := (length win2 - keep)%nat in
          if eof then NotFound
          else scan_loop fuel' (S k) (skipn d win2) (pos2 + d)%nat false rest1
        else
          if eof then NotFound
          else scan_loop fuel' (S k) win2 pos2 false rest1
    end.

  (* findPackMarker on a stream with content [file] *)
  Definition scan (file : bytes) : scan_result :=
    scan_loop (length file + 1) 0 [] 0 false file.
End Scan.

(* the Go variable packmarker = "\n####ECALSRC####\n" (the harness reads the actual value from
   the implementation on every run; Run/RunC20.v compares) *)
Definition ECAL_MARKER : bytes := [10; 35; 35; 35; 35; 69; 67; 65; 76; 83; 82; 67; 35; 35; 35; 35; 10].

(* every Read fills the slice as far as the stream allows (a regular file) *)
Definition full_reads : nat -> nat := fun _ => 0%nat.
