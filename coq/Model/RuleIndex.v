(* Model/RuleIndex.v — the rule index of engine/rule.go (after the C01 repairs):
   ruleIndexRoot / RuleIndexKind / RuleIndexState / RuleIndexAll / RuleMatcherKey.

   Go code followed, function by function:
     ruleIndexRoot.AddRule      -> add_rule        (duplicate name, missing kind match)
     RuleIndexKind.AddRule      -> add_kinds       (one addRuleAtLevel per kind match)
     *.addRuleAtLevel           -> add_at          (dynamic dispatch on the sub index type;
                                   `kindMatchLevel[0]` on an empty level and the
                                   AssertTrue of the state leaf are explicit Panic outcomes)
     RuleMatcherKey.addRule     -> matcher_add     (unhashable values only set rm.bits)
     RuleMatcherKey.match       -> matcher_match   (bit algebra verbatim; Go's `a | b ^ c`
                                   is `(a | b) ^ c`: both operators have the same precedence)
     RuleMatcherKey.unmatch     -> matcher_unmatch
     RuleIndexState.matchAtLevel-> leaf_match      (initial mask (1<<n)-1 in uint64, one
                                   match/unmatch per key, collection `for i, rule := range rules`)
     *.matchAtLevel             -> match_at
     *.isTriggeringAtLevel      -> trig_at
     ruleIndexRoot.Match        -> match_ev        (each rule once)
   `level` + `event.kind[level]` are modelled by the remaining suffix of the event kind.
   uint64 masks are N; the only operations that can leave 64 bits are `1 << n` and
   `(1 << n) - 1`, written with explicit `mod 2^64`.  Go maps are association lists in
   insertion order (Go's iteration order is unspecified; Proofs/RuleIndexProofs.v shows the
   result does not depend on it: every key is an independent per-bit filter).
   No proofs in this file. *)
From Coq Require Import String.
From Ecal Require Export Common.Outcome Spec.RuleSpec.

Definition W64 : N := 2 ^ 64.

(* ---- RuleMatcherKey --------------------------------------------------------------- *)
Record matcher := mkMatcher {
  m_bits : N;                       (* rules that require the key *)
  m_any : N;                        (* ... with NULL or a regex *)
  m_vals : list (value * N);        (* bitsValue: value -> rules requiring exactly it *)
  m_rx : list (N * N)               (* bitsRegexes: rule bit -> regex id *)
}.

Definition new_matcher : matcher := mkMatcher 0 0 [] [].

(* isHashable: lists and maps cannot be map keys *)
Definition hashable (v : value) : bool :=
  match v with VList _ | VMap _ => false | _ => true end.

Fixpoint vassoc (v : value) (l : list (value * N)) : option N :=
  match l with
  | [] => None
  | (w, m) :: l' => if val_equal w v then Some m else vassoc v l'
  end.

(* bitsValue[v] |= bit *)
Fixpoint vor (v : value) (bit : N) (l : list (value * N)) : list (value * N) :=
  match l with
  | [] => [(v, N.lor 0 bit)]
  | (w, m) :: l' => if val_equal w v then (w, N.lor m bit) :: l' else (w, m) :: vor v bit l'
  end.

Definition matcher_add (m : matcher) (bit : N) (rq : req) : matcher :=
  let bits' := N.lor (m_bits m) bit in
  match rq with
  | RVal VNull => mkMatcher bits' (N.lor (m_any m) bit) (m_vals m) (m_rx m)
  | RRegex id => mkMatcher bits' (N.lor (m_any m) bit) (m_vals m)
                           ((bit, id) :: filter (fun e => negb (fst e =? bit)) (m_rx m))
  | RVal v => if hashable v
              then mkMatcher bits' (m_any m) (vor v bit (m_vals m)) (m_rx m)
              else mkMatcher bits' (m_any m) (m_vals m) (m_rx m)
  end.

Section Matching.
  Variable rx : N -> value -> bool.

  Definition matcher_match (m : matcher) (bits : N) (v : value) : N :=
    let found := match v with
                 | VNull => None
                 | _ => if hashable v then vassoc v (m_vals m) else None
                 end in
    let toRemove := match found with
                    | Some additional => N.lxor (N.lor (m_any m) additional) (m_bits m)
                    | None => N.lxor (m_any m) (m_bits m)
                    end in
    let keyMatched := N.lxor bits (N.land bits toRemove) in
    fold_left (fun kmb e =>
                 if (0 <? N.land kmb (fst e)) && negb (rx (snd e) v)
                 then N.lxor kmb (N.land kmb (fst e)) else kmb)
              (m_rx m) keyMatched.

  Definition matcher_unmatch (m : matcher) (bits : N) : N :=
    N.lxor bits (N.land bits (m_bits m)).

  (* ---- RuleIndexState ------------------------------------------------------------- *)
  Definition keymap := list (N * matcher).

  Fixpoint kupd (k : N) (f : matcher -> matcher) (km : keymap) : keymap :=
    match km with
    | [] => [(k, f new_matcher)]
    | (k', m) :: km' => if k' =? k then (k', f m) :: km' else (k', m) :: kupd k f km'
    end.

  Definition rule_state (r : rule) : list (N * req) :=
    match r_state r with Some st => st | None => [] end.

  (* addRuleAtLevel of the state leaf: num := len(rules); bit := 1 << num *)
  Definition leaf_add (r : rule) (rs : list rule) (km : keymap) : list rule * keymap :=
    let bit := (2 ^ N.of_nat (length rs)) mod W64 in
    (rs ++ [r],
     fold_left (fun km kr => kupd (fst kr) (fun m => matcher_add m bit (snd kr)) km)
               (rule_state r) km).

  (* (1 << uint(len(rules))) - 1 in uint64 *)
  Definition init_bits (n : nat) : N := ((2 ^ N.of_nat n) mod W64 + W64 - 1) mod W64.

  Fixpoint match_keys (st : list (N * value)) (km : keymap) (bits : N) : N :=
    match km with
    | [] => bits
    | (k, m) :: km' =>
      let bits' := match assoc k st with
                   | Some v => matcher_match m bits v
                   | None => matcher_unmatch m bits
                   end in
      if bits' =? 0 then 0 else match_keys st km' bits'
    end.

  (* for i, rule := range rules { if matchBits&(1<<uint(i)) > 0 { append } } *)
  Fixpoint collect (bits : N) (rs : list rule) (i : nat) : list rule :=
    match rs with
    | [] => []
    | r :: rs' =>
      (if 0 <? N.land bits ((2 ^ N.of_nat i) mod W64) then [r] else []) ++ collect bits rs' (S i)
    end.

  Definition leaf_match (st : list (N * value)) (rs : list rule) (km : keymap) : list rule :=
    collect (match_keys st km (init_bits (length rs))) rs 0.
End Matching.

(* ---- the index tree --------------------------------------------------------------- *)
Inductive index :=
| KindNode (alls : list index) (singles : list (seg * list index))
| StateLeaf (rules : list rule) (km : keymap)
| AllLeaf (rules : list rule).

Inductive tag := TKind | TState | TAll.

Definition tag_of (ix : index) : tag :=
  match ix with KindNode _ _ => TKind | StateLeaf _ _ => TState | AllLeaf _ => TAll end.

Definition tag_eqb (a b : tag) : bool :=
  match a, b with TKind, TKind | TState, TState | TAll, TAll => true | _, _ => false end.

Definition new_index (ty : tag) : index :=
  match ty with TKind => KindNode [] [] | TState => StateLeaf [] [] | TAll => AllLeaf [] end.

(* ruleIndexStateMaxRules *)
Definition MAXR : nat := 64.

(* item.Type() == indexType, and not a full state index *)
Definition usable (ty : tag) (ix : index) : bool :=
  tag_eqb (tag_of ix) ty &&
  negb (match ix with StateLeaf rs _ => MAXR <=? length rs | _ => false end)%nat.

(* the first usable sub index is updated in place; a new one is appended when none is *)
Fixpoint upd_first (ty : tag) (f : index -> outcome index) (l : list index) : outcome (list index) :=
  match l with
  | [] => obind (f (new_index ty)) (fun i => Ok [i])
  | x :: l' =>
    if usable ty x then obind (f x) (fun x' => Ok (x' :: l'))
    else obind (upd_first ty f l') (fun l'' => Ok (x :: l''))
  end.

Fixpoint supd (s : seg) (l : list index) (singles : list (seg * list index)) :=
  match singles with
  | [] => [(s, l)]
  | (s', l0) :: rest => if s' =? s then (s', l) :: rest else (s', l0) :: supd s l rest
  end.

Fixpoint add_at (r : rule) (p : path) (ix : index) {struct p} : outcome index :=
  match ix with
  | AllLeaf rs => Ok (AllLeaf (rs ++ [r]))
  | StateLeaf rs km =>
    match p with
    | [] => let '(rs', km') := leaf_add r rs km in Ok (StateLeaf rs' km')
    | _ :: _ => Panic "RuleIndexState must be a leaf"%string
    end
  | KindNode alls singles =>
    match p with
    | [] => Panic "kindMatchLevel[0]: index out of range"%string
    | s :: p' =>
      let ty := match p' with
                | [] => match r_state r with Some _ => TState | None => TAll end
                | _ :: _ => TKind
                end in
      if s =? WILD
      then obind (upd_first ty (add_at r p') alls) (fun alls' => Ok (KindNode alls' singles))
      else let l := match assoc s singles with Some l => l | None => [] end in
           obind (upd_first ty (add_at r p') l) (fun l' => Ok (KindNode alls (supd s l' singles)))
    end
  end.

Fixpoint add_kinds (r : rule) (ps : list path) (ix : index) : outcome index :=
  match ps with
  | [] => Ok ix
  | p :: ps' => obind (add_at r p ix) (add_kinds r ps')
  end.

Record root := mkRoot { rt_index : index; rt_names : list N }.

Definition new_root : root := mkRoot (KindNode [] []) [].

Definition add_rule (rt : root) (r : rule) : outcome root :=
  if memN (r_name r) (rt_names rt) then Err "Cannot add rule twice"%string
  else match r_kinds r with
       | [] => Err "Cannot add rule without a kind match"%string
       | ps => obind (add_kinds r ps (rt_index rt))
                     (fun ix => Ok (mkRoot ix (r_name r :: rt_names rt)))
       end.

Fixpoint build_from (rt : root) (rules : list rule) : outcome root :=
  match rules with
  | [] => Ok rt
  | r :: rules' => obind (add_rule rt r) (fun rt' => build_from rt' rules')
  end.

Definition build (rules : list rule) : outcome root := build_from new_root rules.

(* ---- matching ---------------------------------------------------------------------- *)
Section Match.
  Variable rx : N -> value -> bool.
  Variable st : list (N * value).

  Fixpoint match_at (k : path) (ix : index) {struct k} : list rule :=
    match ix with
    | AllLeaf rs => match k with [] => rs | _ :: _ => [] end
    | StateLeaf rs km => match k with [] => leaf_match rx st rs km | _ :: _ => [] end
    | KindNode alls singles =>
      match k with
      | [] => []
      | s :: k' =>
        flat_map (match_at k') alls ++
        match assoc s singles with
        | Some l => flat_map (match_at k') l
        | None => []
        end
      end
    end.
End Match.

Fixpoint trig_at (k : path) (ix : index) {struct k} : bool :=
  match ix with
  | AllLeaf _ => match k with [] => true | _ :: _ => false end
  | StateLeaf _ _ => match k with [] => true | _ :: _ => false end
  | KindNode alls singles =>
    match k with
    | [] => false
    | s :: k' =>
      existsb (trig_at k') alls ||
      match assoc s singles with
      | Some l => existsb (trig_at k') l
      | None => false
      end
    end
  end.

(* ruleIndexRoot.Match: every rule once (rule names are unique in the root) *)
Fixpoint dedupe (seen : list N) (l : list rule) : list rule :=
  match l with
  | [] => []
  | r :: l' => if memN (r_name r) seen then dedupe seen l'
               else r :: dedupe (r_name r :: seen) l'
  end.

Definition match_ev (rx : N -> value -> bool) (rt : root) (ev : event) : list rule :=
  dedupe [] (match_at rx (e_state ev) (e_kind ev) (rt_index rt)).

Definition is_triggering (rt : root) (ev : event) : bool :=
  trig_at (e_kind ev) (rt_index rt).

(* ---- the unrepaired behaviour, for the refutation witnesses ------------------------- *)
(* Match before the repair: RuleIndexKind.Match, one entry per matching kind pattern *)
Definition old_match_ev (rx : N -> value -> bool) (rt : root) (ev : event) : list rule :=
  match_at rx (e_state ev) (e_kind ev) (rt_index rt).

(* the old collection loop
     for i := 0; collectionBits <= matchBits; i++ { ...; collectionBits <<= 1 }
   returns Some (number of iterations) or None when the fuel runs out *)
Fixpoint old_collect_loop (fuel : nat) (matchBits collectionBits : N) : option nat :=
  match fuel with
  | O => None
  | S f => if collectionBits <=? matchBits
           then option_map S (old_collect_loop f matchBits ((collectionBits * 2) mod W64))
           else Some O
  end.
