(* Model/StmtPrinter.v — C08, statement level.

   A syntax of STATEMENT trees ([stmt], [sblock], ...) whose expression leaves are AST nodes,
   its embedding into the parser's AST ([embed]), a structural token-level printer
   ([pp_stmt], [pp_prog]) that Proofs/StmtPrinterEq.v proves EQUAL to the correspondence-checked
   printer model Model/Printer.v [pp] on every embedded tree, and the layout function [lay]
   that turns the printer's items (tokens + line-break markers) into the token list the
   parser model Model/Parser.v reads: every token carries the line it is printed on.

   Statement kinds in the syntax:
     expression statements (incl. assignments, let, break, continue — these are expression
     trees), return (bare / with a value), if / elif / else, for (condition and `in` form),
     mutex, try / except (error names, `as` x, bare x) / otherwise / finally, named func with
     a parameter list (identifiers and presets are expression trees), blocks and statement
     sequences (one statement per line).
   No proofs in this file. *)
From Coq Require Import List String NArith Bool Arith ZArith.
From Ecal Require Import Common.Bytes Common.Ast gen.Tokens gen.Grammar Model.Printer.
From Ecal Require Model.Parser.
Import ListNotations.
Local Open Scope string_scope.
Local Open Scope nat_scope.

(* ---------------------------------------------------------------------------------- *)
(* Syntax *)

(* the variable an except clause binds the error to: none / `as x` / `x` *)
Inductive ebind : Type := EBNone | EBAs (x : bytes) | EBId (x : bytes).

Inductive stmt : Type :=
| SExpr (e : node)                                   (* expression statement *)
| SReturn0                                           (* bare return *)
| SReturn1 (e : node)                                (* return e *)
| SIf (g : node) (b : sblock) (r : iftail)
| SFor (g : node) (b : sblock)                        (* for g { }: `in` form iff g is an `in` node *)
| SMutex (name : bytes) (b : sblock)
| STry (b : sblock) (ex : excepts) (ow : oblock) (fin : oblock)
| SFunc (name : bytes) (params : list node) (b : sblock)
with sblock : Type :=
| BNil
| BCons (s : stmt) (b : sblock)
with iftail : Type :=
| INone
| IElse (b : sblock)
| IElif (g : node) (b : sblock) (r : iftail)
with excepts : Type :=
| ENil
| ECons (names : list (bytes * bool)) (bind : ebind) (b : sblock) (r : excepts)
with oblock : Type :=
| ONone
| OSome (b : sblock).

(* ---------------------------------------------------------------------------------- *)
(* Embedding into the parser's AST (token positions 0, keyword nodes without value: what
   "equal up to positions" keeps) *)

Definition knode (name : string) (cs : list node) : node := Node name [] false false 0 cs.
Definition identn (x : bytes) : node := Node NodeIDENTIFIER x true false 0 [].
Definition strn (p : bytes * bool) : node := Node NodeSTRING (fst p) false (snd p) 0 [].

(* the token id of the root of an expression tree (what parser.run returns the node of) *)
Definition root_id (e : node) : nat :=
  match classify e with CBin id => id | CPre id => id | CAtom id => id | COther => 0 end.

Definition bind_nodes (b : ebind) : list node :=
  match b with
  | EBNone => []
  | EBAs x => [knode NodeAS [identn x]]
  | EBId x => [identn x]
  end.

Fixpoint embed (s : stmt) : node :=
  match s with
  | SExpr e => erase e
  | SReturn0 => knode NodeRETURN []
  | SReturn1 e => knode NodeRETURN [erase e]
  | SIf g b r =>
    knode NodeIF (knode NodeGUARD [erase g] :: knode NodeSTATEMENTS (embed_block b) :: embed_tail r)
  | SFor g b =>
    knode NodeLOOP [if Nat.eqb (root_id g) TokenIN then erase g else knode NodeGUARD [erase g];
                    knode NodeSTATEMENTS (embed_block b)]
  | SMutex x b => knode NodeMUTEX [identn x; knode NodeSTATEMENTS (embed_block b)]
  | STry b ex ow fin =>
    knode NodeTRY (knode NodeSTATEMENTS (embed_block b) :: embed_excepts ex
                     ++ embed_oblock NodeOTHERWISE ow ++ embed_oblock NodeFINALLY fin)
  | SFunc x ps b =>
    knode NodeFUNC [identn x; knode NodePARAMS (map erase ps); knode NodeSTATEMENTS (embed_block b)]
  end
with embed_block (b : sblock) : list node :=
  match b with
  | BNil => []
  | BCons s r => embed s :: embed_block r
  end
with embed_tail (r : iftail) : list node :=
  match r with
  | INone => []
  | IElse b => [knode NodeGUARD [knode NodeTRUE []]; knode NodeSTATEMENTS (embed_block b)]
  | IElif g b r' => knode NodeGUARD [erase g] :: knode NodeSTATEMENTS (embed_block b) :: embed_tail r'
  end
with embed_excepts (ex : excepts) : list node :=
  match ex with
  | ENil => []
  | ECons names bind b r =>
    knode NodeEXCEPT (map strn names ++ bind_nodes bind ++ [knode NodeSTATEMENTS (embed_block b)])
      :: embed_excepts r
  end
with embed_oblock (name : string) (o : oblock) : list node :=
  match o with
  | ONone => []
  | OSome b => [knode name [knode NodeSTATEMENTS (embed_block b)]]
  end.

(* a program: one statement is its own root, several are children of a statements node *)
Definition embed_prog (b : sblock) : node :=
  match b with
  | BCons s BNil => embed s
  | _ => knode NodeSTATEMENTS (embed_block b)
  end.

(* ---------------------------------------------------------------------------------- *)
(* The statement printer: tokens and line breaks *)

Definition identt (x : bytes) : item := T TokenIDENTIFIER x false.
Definition strt (p : bytes * bool) : item := T TokenSTRING (fst p) (str_allow (fst p) (snd p)).

(* error names of an except clause; a comma also separates the last name from a bare variable *)
Fixpoint pp_names (names : list (bytes * bool)) (bind : ebind) : list item :=
  match names with
  | [] => []
  | [n] => strt n :: match bind with EBId _ => [kw TokenCOMMA] | _ => [] end
  | n :: r => strt n :: kw TokenCOMMA :: pp_names r bind
  end.

Definition pp_bind (b : ebind) : list item :=
  match b with
  | EBNone => []
  | EBAs x => [kw TokenAS; identt x]
  | EBId x => [identt x]
  end.

Fixpoint pp_stmt (s : stmt) : list item :=
  match s with
  | SExpr e => pp e
  | SReturn0 => [kw TokenRETURN]
  | SReturn1 e => kw TokenRETURN :: pp e
  | SIf g b r => kw TokenIF :: pp g ++ block (pp_lines b) ++ pp_tail r
  | SFor g b => kw TokenFOR :: pp g ++ block (pp_lines b)
  | SMutex x b => kw TokenMUTEX :: identt x :: block (pp_lines b) ++ [NL]
  | STry b ex ow fin =>
    kw TokenTRY :: block (pp_lines b) ++ pp_excepts ex ++ pp_oblock TokenOTHERWISE ow ++ pp_oblock TokenFINALLY fin
  | SFunc x ps b =>
    kw TokenFUNC :: identt x :: kw TokenLPAREN :: join_comma (map pp ps) ++ kw TokenRPAREN :: block (pp_lines b)
  end
with pp_lines (b : sblock) : list item :=          (* the statements of a block / program, one per line *)
  match b with
  | BNil => []
  | BCons s r => pp_stmt s ++ NL :: pp_more r
  end
with pp_more (b : sblock) : list item :=           (* the statements after the first: with a ";" where needed *)
  match b with
  | BNil => []
  | BCons s r => sep_of (pp_stmt s) ++ pp_stmt s ++ NL :: pp_more r
  end
with pp_tail (r : iftail) : list item :=
  match r with
  | INone => []
  | IElse b => kw TokenELSE :: block (pp_lines b)
  | IElif g b r' => kw TokenELIF :: pp g ++ block (pp_lines b) ++ pp_tail r'
  end
with pp_excepts (ex : excepts) : list item :=
  match ex with
  | ENil => []
  | ECons names bind b r =>
    kw TokenEXCEPT :: pp_names names bind ++ pp_bind bind ++ block (pp_lines b) ++ pp_excepts r
  end
with pp_oblock (id : nat) (o : oblock) : list item :=
  match o with
  | ONone => []
  | OSome b => kw id :: block (pp_lines b)
  end.

Definition pp_prog (b : sblock) : list item :=
  match b with
  | BCons s BNil => pp_stmt s
  | _ => pp_lines b
  end.

(* ---------------------------------------------------------------------------------- *)
(* Layout: the lexer tokens of the printed text.  Identifier tokens carry the Identifier flag,
   strings the AllowEscapes flag; columns are not modelled (0). *)

Definition flags_of (id : nat) (a : bool) : nat :=
  (if Nat.eqb id TokenIDENTIFIER then 1 else 0) + (if a then 2 else 0).

Definition tk (ln id : nat) (v : bytes) (a : bool) : Parser.tok :=
  Parser.T id v (flags_of id a) ln 0%Z.

Fixpoint lay (ln : nat) (l : list item) : list Parser.tok :=
  match l with
  | [] => []
  | T id v a :: r => tk ln id v a :: lay ln r
  | NL :: r => lay (S ln) r
  end.

(* number of line breaks *)
Fixpoint nls (l : list item) : nat :=
  match l with
  | [] => 0
  | NL :: r => S (nls r)
  | _ :: r => nls r
  end.

(* first token of a printed statement *)
Definition head_id (l : list item) : nat :=
  match l with T id _ _ :: _ => id | _ => TokenError end.

(* the source text the lexer turns into: printed tokens from line [l0] on, then EOF on line [le] *)
Definition source_tokens (l0 le : nat) (epos : Z) (its : list item) : list Parser.tok :=
  lay l0 its ++ [Parser.T TokenEOF [] 0 le epos].

(* the tree of a successful parse *)
Definition parsed (r : Parser.presult) : option node :=
  match r with
  | Parser.PRes (Some t) None _ => Some t
  | _ => None
  end.

(* equality up to token positions: all lines set to 0 *)
Fixpoint strip (n : node) : node :=
  match n with
  | Node name v i a _ cs => Node name v i a 0 (map strip cs)
  end.

(* all lines set to [ln]: an expression printed on one line *)
Fixpoint setl (ln : nat) (n : node) : node :=
  match n with
  | Node name v i a _ cs => Node name v i a ln (map (setl ln) cs)
  end.
