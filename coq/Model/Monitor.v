(* Model/Monitor.v — engine/monitor.go as far as C10 needs it: the root monitor's bookkeeping
   (unfinished, incomplete map[int]int, priorities *sortutil.IntHeap) driven by the monitor
   API NewChildMonitor / Activate / Skip / Finish of the root monitor and its descendants,
   and RootMonitor.HighestPriority().  Definitions only.

   A monitor handle is its creation index inside the cascade: 0 is the root monitor itself
   (priority 0), NewChildMonitor appends.  The parent link does not take part in the
   bookkeeping (every descendant reports to monitorBase.rootMonitor), so NewChild carries
   the priority only.  errorutil.AssertTrue failing = Panic.

   The model is parametrised by the two places the repair touched, so that the repaired and
   the unrepaired code are both instances:
     remove            — how descendantFinished takes a priority out of the heap
                         (repaired: IntHeap.RemoveAll, before: IntHeap.RemoveFirst)
     skip_activates    — whether Skip sets mb.activated (before: true, via mb.Finish();
                         repaired: false — Skip marks the monitor finished and reports to the
                         root monitor without passing as an activated one). *)
From Coq Require Import List ZArith Bool String.
From Ecal Require Import Common.Outcome Model.IntHeap.
Import ListNotations.
Open Scope Z_scope.

Record mon := mkMon { m_prio : Z; m_activated : bool; m_finished : bool }.

Record rootmon := mkRoot {
  mons : list mon;               (* all monitors of the cascade; index 0 = the root monitor *)
  incomplete : Z -> option Z;    (* map[int]int: priority -> number of incomplete monitors *)
  priorities : intheap;          (* heap of the priorities being handled *)
  unfinished : Z                 (* counter of all unfinished monitors *)
}.

(* newRootMonitor: priority 0, unfinished = 1, heap.Init on the empty heap *)
Definition new_root : rootmon :=
  mkRoot [mkMon 0 false false] (fun _ => None) (heap_init Z.ltb 0 []) 1.

Inductive op : Type :=
| NewChild (prio : Z)            (* m.NewChildMonitor(prio) on any monitor of the cascade *)
| Activate (m : nat)
| Skip (m : nat)
| Finish (m : nat).

Definition map_set (f : Z -> option Z) (k : Z) (v : option Z) : Z -> option Z :=
  fun k' => if Z.eqb k' k then v else f k'.

Definition dmon : mon := mkMon 0 false false.

Section Gen.
  Variable remove : intheap -> Z -> intheap.
  Variable skip_activates : bool.

  (* descendantActivated(priority) *)
  Definition descendant_activated (s : rootmon) (p : Z) : rootmon :=
    match incomplete s p with
    | None => mkRoot (mons s) (map_set (incomplete s) p (Some 1)) (ih_push (priorities s) p) (unfinished s)
    | Some v => mkRoot (mons s) (map_set (incomplete s) p (Some (v + 1))) (priorities s) (unfinished s)
    end.

  (* descendantFinished(m): unfinished--; if m.IsActivated() { incomplete[p]--; if it is 0
     { remove p from the heap; delete(incomplete, p) } } — a missing key reads as 0 *)
  Definition descendant_finished (s : rootmon) (m : mon) : rootmon :=
    let u := unfinished s - 1 in
    if m_activated m then
      let p := m_prio m in
      let v := (match incomplete s p with Some v => v | None => 0 end) - 1 in
      if Z.eqb v 0
      then mkRoot (mons s) (map_set (incomplete s) p None) (remove (priorities s) p) u
      else mkRoot (mons s) (map_set (incomplete s) p (Some v)) (priorities s) u
    else mkRoot (mons s) (incomplete s) (priorities s) u.

  Definition set_mon (s : rootmon) (i : nat) (m : mon) : rootmon :=
    mkRoot (upd (mons s) i m) (incomplete s) (priorities s) (unfinished s).

  Definition apply_op (s : rootmon) (o : op) : outcome rootmon :=
    match o with
    | NewChild p =>
      (* newMonitorBase; rootMonitor.descendantCreated: unfinished++ *)
      Ok (mkRoot (mons s ++ [mkMon p false false]) (incomplete s) (priorities s) (unfinished s + 1))
    | Activate i =>
      match nth_error (mons s) i with
      | None => Panic "nil monitor"
      | Some m =>
        if m_finished m then Panic "Cannot activate a finished monitor"
        else if m_activated m then Panic "Cannot activate an active monitor"
        else
          let s1 := descendant_activated s (m_prio m) in
          Ok (set_mon s1 i (mkMon (m_prio m) true (m_finished m)))
      end
    | Skip i =>
      match nth_error (mons s) i with
      | None => Panic "nil monitor"
      | Some m =>
        if m_finished m then Panic "Cannot skip a finished monitor"
        else if m_activated m then Panic "Cannot skip an active monitor"
        else
          let m' := mkMon (m_prio m) skip_activates true in
          Ok (descendant_finished (set_mon s i m') m')
      end
    | Finish i =>
      match nth_error (mons s) i with
      | None => Panic "nil monitor"
      | Some m =>
        if negb (m_activated m) then Panic "Cannot finish a not active monitor"
        else if m_finished m then Panic "Cannot finish a finished monitor"
        else
          let m' := mkMon (m_prio m) (m_activated m) true in
          Ok (descendant_finished (set_mon s i m') m')
      end
    end.

  Fixpoint run_ops (s : rootmon) (ops : list op) : outcome rootmon :=
    match ops with
    | [] => Ok s
    | o :: rest => obind (apply_op s o) (fun s' => run_ops s' rest)
    end.
End Gen.

(* HighestPriority(): if len(priorities) > 0 { return priorities[0] }; return -1 *)
Definition highest_priority (s : rootmon) : Z :=
  match priorities s with [] => -1 | x :: _ => x end.

(* the repaired code *)
Definition mon_step := apply_op ih_remove_all false.
Definition mon_run := run_ops ih_remove_all false.
(* the code before the repairs *)
Definition mon_run_old := run_ops ih_remove_first true.
(* each defect alone *)
Definition mon_run_removefirst_only := run_ops ih_remove_first false.
Definition mon_run_skip_only := run_ops ih_remove_all true.

(* HighestPriority() after every operation of a history (what the harness observes) *)
Fixpoint trace_ops (remove : intheap -> Z -> intheap) (sa : bool) (s : rootmon) (ops : list op) : list (option Z) :=
  match ops with
  | [] => []
  | o :: rest =>
    match apply_op remove sa s o with
    | Ok s' => Some (highest_priority s') :: trace_ops remove sa s' rest
    | _ => [None]
    end
  end.
