(* Model/RuleScope.v — engine/util.go RuleScope: a tree of maps, one level per path step,
   the allow flag of a node stored under the key ".".

     Add(path, allow):  walk/create the nodes of strings.Split(path, ".") (none for ""),
                        set the flag of the node reached
     IsAllowed(path):   allowed := false; root flag if present; for every step of
                        strings.Split(path, "."): stop at a missing child, otherwise descend
                        and take the child's flag if it has one
     IsAllowedAll(ps):  all of them
   Paths are given already split (Add("") = the empty list).  No proofs in this file. *)
From Ecal Require Export Spec.RuleSpec.

Inductive stree := SNode (flag : option bool) (children : list (seg * stree)).

Definition s_flag (t : stree) := match t with SNode f _ => f end.
Definition s_children (t : stree) := match t with SNode _ c => c end.

Definition empty_scope : stree := SNode None [].

Fixpoint cupd (s : seg) (c : stree) (ch : list (seg * stree)) : list (seg * stree) :=
  match ch with
  | [] => [(s, c)]
  | (s', c') :: rest => if s' =? s then (s', c) :: rest else (s', c') :: cupd s c rest
  end.

Fixpoint scope_add (p : path) (allow : bool) (t : stree) {struct p} : stree :=
  match p with
  | [] => SNode (Some allow) (s_children t)
  | s :: p' =>
    let c := match assoc s (s_children t) with Some c => c | None => empty_scope end in
    SNode (s_flag t) (cupd s (scope_add p' allow c) (s_children t))
  end.

Definition build_scope (defs : list (path * bool)) : stree :=
  fold_left (fun t d => scope_add (fst d) (snd d) t) defs empty_scope.

Fixpoint walk (p : path) (t : stree) (allowed : bool) : bool :=
  match p with
  | [] => allowed
  | s :: p' =>
    match assoc s (s_children t) with
    | None => allowed
    | Some c => walk p' c (match s_flag c with Some a => a | None => allowed end)
    end
  end.

Definition is_allowed (t : stree) (p : path) : bool :=
  walk p t (match s_flag t with Some a => a | None => false end).

Definition is_allowed_all (t : stree) (ps : list path) : bool := forallb (is_allowed t) ps.
