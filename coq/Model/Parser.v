(* Model/Parser.v — executable model of parser.ParseWithRuntime (parser/parser.go) over the
   token list the lexer sends, including the 3-slot look-ahead ring of parser/helper.go
   (LABuffer) so that the number of tokens received from the channel is exact.

   What is modelled, function by function: ParseWithRuntime, run, next (comment skipping,
   unexpected end / lexical error / unknown term), ndTerm, ndInner, ndPrefix, ndImport,
   ndSkink, ndFunc, ndReturn, ndIdentifier (parseMore / parseSegment / parseFuncCall /
   parseCompositionAccess), ndList, ndMap, ndGuard, ndLoop, ndTry, ndOtherwiseFinally,
   ndMutex, ldInfix, IsNotEndAndToken, IsNotEndAndNotTokens, hasMoreStatements, skipToken,
   acceptChild, parseInnerStatements.  The denotation of a token is chosen by the NAME the
   generated [grammar_table] (= parser.astNodeMap) records for it.

   [p.node] is an [option]: the Go code leaves it nil after a failed next().  A dereference
   of a nil [p.node] / nil current node is the outcome [RPanic site].

   Two variants, selected by [variant]: the code as it was (skipToken results ignored in three
   places, later statements overwriting an error, tree returned together with an error, token
   channel not drained, "{" given a null denotation while a guard is parsed) and the repaired
   code.  The theorems are about the repaired variant; the other one yields the refutation
   witnesses.

   Go nodes are mutable (children are appended through pointers); every nd* function here
   builds the same children in the same order functionally.  A partially built node is only
   ever visible together with an error, and run() drops it (returns nil) in that case.

   Not modelled: Meta (comments attached to nodes), Runtime components (rp = nil in Parse),
   error detail strings.  No proofs in this file. *)
From Coq Require Import List String Bool Arith BinInt.
From Ecal Require Import Common.Bytes Common.Ast gen.Tokens gen.Grammar Spec.ParseSpec.
Import ListNotations.
Local Open Scope string_scope.
Local Open Scope nat_scope.
Local Open Scope list_scope.

(* ---- tokens ------------------------------------------------------------------------ *)

(* LexToken: ID, Val, flags (1 = Identifier, 2 = AllowEscapes), Lline, Lpos *)
Record tok := T { t_id : nat; t_val : bytes; t_flags : nat; t_line : nat; t_pos : Z }.

(* the zero LexToken Go produces when it receives from the closed channel / LexToken{ID: TokenEOF} *)
Definition zero_tok : tok := T 0 [] 0 0 0%Z.
Definition eof_zero_tok : tok := T TokenEOF [] 0 0 0%Z.

Definition err_at (kind : nat) (t : tok) : perr := E kind (t_line t) (t_pos t).
Definition ErrUnexpectedEnd := 1.
Definition ErrLexicalError := 2.
Definition ErrUnknownToken := 3.
Definition ErrImpossibleNullDenotation := 4.
Definition ErrImpossibleLeftDenotation := 5.
Definition ErrUnexpectedToken := 6.

(* ---- variants ---------------------------------------------------------------------- *)

Record variant := mkVariant {
  v_propagate : bool;   (* skipToken errors propagated, statement loops stop at the first error *)
  v_exclusive : bool;   (* no tree is returned together with an error *)
  v_drain : bool;       (* the token channel is drained before ParseWithRuntime returns *)
  v_brace_nil : bool    (* while a guard is parsed "{" has no null denotation *)
}.
Definition repaired : variant := mkVariant true true true true.
Definition original : variant := mkVariant false false false false.

(* ---- parser state ------------------------------------------------------------------ *)

(* an ASTNode instance that has no children yet: its token and the table entry it was made from *)
Definition cnode : Type := (tok * grammar_entry)%type.

Record pst := mkSt {
  buf : list tok;          (* LABuffer ring, at most 3 tokens *)
  chan : list tok;         (* tokens the lexer has not been able to send yet *)
  cur : option cnode;      (* p.node *)
  sw : bool                (* astNodeMap[TokenLBRACE] is currently the temporary guard entry *)
}.

Definition set_cur (s : pst) (c : option cnode) : pst := mkSt (buf s) (chan s) c (sw s).
Definition set_sw (s : pst) (b : bool) : pst := mkSt (buf s) (chan s) (cur s) b.

(* tokens not yet handed to the parser *)
Definition toks (s : pst) : list tok := buf s ++ chan s.

Inductive res (A : Type) : Type :=
| ROk (a : A) (s : pst)
| RErr (e : perr) (s : pst)
| RPanic (site : string)
| RFuel.
Arguments ROk {A} a s.
Arguments RErr {A} e s.
Arguments RPanic {A} site.
Arguments RFuel {A}.

Definition rbind {A B} (r : res A) (f : A -> pst -> res B) : res B :=
  match r with
  | ROk a s => f a s
  | RErr e s => RErr e s
  | RPanic x => RPanic x
  | RFuel => RFuel
  end.
Notation "'do' x , s <- r ; f" := (rbind r (fun x s => f))
  (at level 200, x name, s name, r at level 100, f at level 200).

(* ---- LABuffer ---------------------------------------------------------------------- *)

(* NewLABuffer: receive one token, then more while the ring is not full, the channel is open
   and the last token is not EOF.  A receive from the closed channel adds the zero token. *)
Fixpoint la_fill (k : nat) (b : list tok) (v : tok) (c : list tok) : list tok * list tok :=
  match k with
  | 0 => (b, c)
  | S k' =>
    if (List.length b <? 3) && negb (t_id v =? TokenEOF) then
      match c with
      | [] => (b ++ [zero_tok], [])
      | w :: c' => la_fill k' (b ++ [w]) w c'
      end
    else (b, c)
  end.

Definition la_init (all : list tok) : list tok * list tok :=
  match all with
  | [] => ([zero_tok], [])
  | v :: c => la_fill 3 [v] v c
  end.

(* LABuffer.Next: poll the ring, then receive one more token if the lexer has one *)
Definition la_next (s : pst) : option tok * pst :=
  match buf s with
  | [] => (None, mkSt (firstn 1 (chan s)) (skipn 1 (chan s)) (cur s) (sw s))
  | b :: r => (Some b, mkSt (r ++ firstn 1 (chan s)) (skipn 1 (chan s)) (cur s) (sw s))
  end.

(* ---- the table --------------------------------------------------------------------- *)

Definition lookup_entry (id : nat) : option grammar_entry :=
  find (fun e => ge_token e =? id) grammar_table.

(* &ASTNode{"", nil, nil, nil, nil, 0, parseInnerStatements, nil} — after the repair the null
   denotation is nil *)
Definition guard_brace_entry (V : variant) : grammar_entry :=
  mkGE TokenLBRACE "" 0 (if v_brace_nil V then "" else "parseInnerStatements") "".

Definition entry_for (V : variant) (s : pst) (id : nat) : option grammar_entry :=
  if sw s && (id =? TokenLBRACE) then Some (guard_brace_entry V) else lookup_entry id.

(* name of a constructed node: astNodeMap[TokenX].Name *)
Definition cname (id : nat) : string :=
  match lookup_entry id with Some e => ge_name e | None => "" end.

(* ---- nodes ------------------------------------------------------------------------- *)

(* what run() returns: the id of the node's token and the tree *)
Definition rnode : Type := (nat * node)%type.

Definition mk_node (name : string) (t : tok) (cs : list node) : node :=
  Node name (t_val t) (Nat.odd (t_flags t)) (Nat.leb 2 (t_flags t)) (t_line t) cs.

(* the instance [c] with children [cs] *)
Definition rn (c : cnode) (cs : list node) : rnode :=
  (t_id (fst c), mk_node (ge_name (snd c)) (fst c) cs).

(* astNodeMap[id].instance(p, nil) with children *)
Definition constructed (id : nat) (cs : list node) : node := Node (cname id) [] false false 0 cs.

(* a nil *ASTNode in a Children slice (serialised the same way by the harness) *)
Definition nil_node : node := Node "<nil>" [] false false 0 [].

Definition is_comment (t : tok) : bool := (t_id t =? TokenPRECOMMENT) || (t_id t =? TokenPOSTCOMMENT).

Section WithVariant.
Variable V : variant.

(* ---- next() ------------------------------------------------------------------------ *)

(* skip comment tokens; None = the channel is exhausted *)
Fixpoint next_token (k : nat) (s : pst) : res (option tok) :=
  match k with
  | 0 => RFuel
  | S k' =>
    match la_next s with
    | (None, s') => ROk None s'
    | (Some t, s') => if is_comment t then next_token k' s' else ROk (Some t) s'
    end
  end.

Definition next (s : pst) : res cnode :=
  do o, s1 <- next_token (S (List.length (toks s))) s;
  match o with
  | None => RErr (err_at ErrUnexpectedEnd eof_zero_tok) s1
  | Some t =>
    if t_id t =? TokenError then RErr (err_at ErrLexicalError t) s1
    else match entry_for V s1 (t_id t) with
         | Some e => ROk (t, e) s1
         | None => RErr (err_at ErrUnknownToken t) s1
         end
  end.

(* p.node, err = p.next() *)
Definition advance (s : pst) : res unit :=
  match next s with
  | ROk c s1 => ROk tt (set_cur s1 (Some c))
  | RErr e s1 => RErr e (set_cur s1 None)
  | RPanic x => RPanic x
  | RFuel => RFuel
  end.

(* ---- helpers ----------------------------------------------------------------------- *)

Definition with_cur {A} (s : pst) (site : string) (f : tok -> grammar_entry -> res A) : res A :=
  match cur s with
  | None => RPanic site
  | Some (t, e) => f t e
  end.

Definition skipToken (id : nat) (s : pst) : res unit :=
  with_cur s "skipToken: p.node.Token" (fun t _ =>
    if t_id t =? id then advance s
    else if t_id t =? TokenEOF then RErr (err_at ErrUnexpectedEnd t) s
    else RErr (err_at ErrUnexpectedToken t) s).

(* acceptChild: the child that is appended to self *)
Definition acceptChild (id : nat) (s : pst) : res node :=
  match cur s with
  | None => match advance s with
            | ROk _ _ => RPanic "acceptChild: current.Token"
            | RErr e s1 => RErr e s1
            | RPanic x => RPanic x
            | RFuel => RFuel
            end
  | Some (t, e) =>
    do _, s1 <- advance s;
    if t_id t =? id then ROk (snd (rn (t, e) [])) s1
    else RErr (err_at ErrUnexpectedToken t) s1
  end.

Definition is_not_end_and_token (s : pst) (id : nat) : bool :=
  match cur s with
  | None => false
  | Some (t, e) => negb (String.eqb (ge_name e) NodeEOF) && (t_id t =? id)
  end.

Definition is_not_end_and_not_tokens (s : pst) (ids : list nat) : bool :=
  match cur s with
  | None => false
  | Some (t, e) => negb (String.eqb (ge_name e) NodeEOF) && forallb (fun i => negb (t_id t =? i)) ids
  end.

(* hasMoreStatements(p, currentNode); currentNode may be nil in the unrepaired code *)
Definition has_more (s : pst) (n : option rnode) : bool :=
  match cur s with
  | None => false
  | Some (t, _) =>
    if t_id t =? TokenEOF then false
    else if t_id t =? TokenSEMICOLON then true
    else match n with
         | None => false
         | Some (_, nd) => n_line nd <? t_line t
         end
  end.

Definition node_or_nil (n : option rnode) : node :=
  match n with Some (_, nd) => nd | None => nil_node end.

(* ---- the mutually recursive part, over run at the next lower nesting depth ---------- *)

Section Body.
Variable runf : nat -> pst -> res rnode.

(* for err == nil && IsNotEndAndNotTokens(p, ends) {
     if exp, err = p.run(rb); err == nil { append; if p.node is a comma { err = skipToken(comma) } } } *)
Fixpoint items (k : nat) (ends : list nat) (rb : nat) (acc : list node) (s : pst) : res (list node) :=
  match k with
  | 0 => RFuel
  | S k' =>
    if is_not_end_and_not_tokens s ends then
      do exp, s1 <- runf rb s;
      with_cur s1 "items: p.node.Token" (fun t _ =>
        if t_id t =? TokenCOMMA then
          do _, s2 <- skipToken TokenCOMMA s1; items k' ends rb (acc ++ [snd exp]) s2
        else items k' ends rb (acc ++ [snd exp]) s1)
    else ROk acc s
  end.

Definition fuel_of (s : pst) : nat := S (List.length (toks s)).

(* statement loop of parseInnerStatements, repaired: the first error ends it *)
Fixpoint stmts_new (k : nat) (n : rnode) (acc : list node) (s : pst) : res (list node) :=
  match k with
  | 0 => RFuel
  | S k' =>
    if has_more s (Some n) then
      with_cur s "parseInnerStatements: p.node.Token" (fun t _ =>
        if t_id t =? TokenSEMICOLON then
          do _, s1 <- skipToken TokenSEMICOLON s;
          do n', s2 <- runf 0 s1; stmts_new k' n' (acc ++ [snd n']) s2
        else if t_id t =? TokenRBRACE then ROk acc s
        else do n', s2 <- runf 0 s; stmts_new k' n' (acc ++ [snd n']) s2)
    else ROk acc s
  end.

(* run() seen from a caller that keeps (n, err) and goes on: nil node on error *)
Definition run_keep (s : pst) : res (option rnode * option perr) :=
  match runf 0 s with
  | ROk n s1 => ROk (Some n, None) s1
  | RErr e s1 => ROk (None, Some e) s1
  | RPanic x => RPanic x
  | RFuel => RFuel
  end.

(* skipToken(p, id) whose result is dropped *)
Definition skip_ignore (id : nat) (s : pst) : res unit :=
  match skipToken id s with
  | RErr _ s1 => ROk tt s1
  | r => r
  end.

(* statement loop of parseInnerStatements as it was: err is overwritten by every statement *)
Fixpoint stmts_old (k : nat) (n : option rnode) (err : option perr) (acc : list node) (s : pst)
  : res (list node * option perr) :=
  match k with
  | 0 => RFuel
  | S k' =>
    if has_more s n then
      with_cur s "parseInnerStatements: p.node.Token" (fun t _ =>
        if t_id t =? TokenSEMICOLON then
          do _, s1 <- skip_ignore TokenSEMICOLON s;
          do r, s2 <- run_keep s1; stmts_old k' (fst r) (snd r) (acc ++ [node_or_nil (fst r)]) s2
        else if t_id t =? TokenRBRACE then ROk (acc, err) s
        else do r, s2 <- run_keep s; stmts_old k' (fst r) (snd r) (acc ++ [node_or_nil (fst r)]) s2)
    else ROk (acc, err) s
  end.

(* parseInnerStatements: the statements node that is appended to self *)
Definition pis (s : pst) : res node :=
  do _, s1 <- skipToken TokenLBRACE s;
  do cs, s2 <-
    (match cur s1 with
     | None => ROk [] s1
     | Some (t, _) =>
       if t_id t =? TokenRBRACE then ROk [] s1
       else if v_propagate V then
         do n, s2 <- runf 0 s1;
         match cur s2 with
         | None => ROk [] s2
         | Some (t2, _) =>
           if t_id t2 =? TokenEOF then ROk [] s2
           else stmts_new (fuel_of s2) n [snd n] s2
         end
       else
         do r, s2 <- run_keep s1;
         do ce, s3 <-
           (match cur s2 with
            | None => ROk ([], snd r) s2
            | Some (t2, _) =>
              if t_id t2 =? TokenEOF then ROk ([], snd r) s2
              else stmts_old (fuel_of s2) (fst r) (snd r) [node_or_nil (fst r)] s2
            end);
         match snd ce with
         | Some e => RErr e s3
         | None => ROk (fst ce) s3
         end
     end);
  do _, s3 <- skipToken TokenRBRACE s2;
  ROk (constructed TokenSTATEMENTS cs) s3.

Definition ndTerm (c : cnode) (s : pst) : res rnode := ROk (rn c []) s.

Definition ndInner (c : cnode) (s : pst) : res rnode :=
  do exp, s1 <- runf 0 s;
  do _, s2 <- skipToken TokenRPAREN s1;
  ROk exp s2.

Definition ndPrefix (c : cnode) (s : pst) : res rnode :=
  do v, s1 <- runf (ge_binding (snd c) + 20) s;
  ROk (rn c [snd v]) s1.

Definition ndImport (c : cnode) (s : pst) : res rnode :=
  do path, s1 <- acceptChild TokenSTRING s;
  do _, s2 <- skipToken TokenAS s1;
  do name, s3 <- acceptChild TokenIDENTIFIER s2;
  ROk (rn c [path; name]) s3.

Definition ndSkink (c : cnode) (s : pst) : res rnode :=
  do name, s1 <- acceptChild TokenIDENTIFIER s;
  do attrs, s2 <- items (fuel_of s1) [TokenLBRACE] 150 [] s1;
  do body, s3 <- pis s2;
  ROk (rn c (name :: attrs ++ [body])) s3.

Definition ndFunc (c : cnode) (s : pst) : res rnode :=
  with_cur s "ndFunc: p.node.Token" (fun t _ =>
    do name, s1 <-
      (if t_id t =? TokenIDENTIFIER then do nm, s1 <- acceptChild TokenIDENTIFIER s; ROk [nm] s1
       else ROk [] s);
    do _, s2 <- skipToken TokenLPAREN s1;
    do ps, s3 <- items (fuel_of s2) [TokenRPAREN] 0 [] s2;
    do _, s4 <- skipToken TokenRPAREN s3;
    do body, s5 <- pis s4;
    ROk (rn c (name ++ [constructed TokenPARAMS ps; body])) s5).

Definition ndReturn (c : cnode) (s : pst) : res rnode :=
  with_cur s "ndReturn: p.node.Token" (fun t _ =>
    if t_line (fst c) =? t_line t then
      do v, s1 <- runf 0 s; ROk (rn c [snd v]) s1
    else ROk (rn c []) s).

(* parseMore(current): the children appended to current; [line] is the line of the identifier
   ndIdentifier was called for *)
Fixpoint parse_more (k : nat) (line : nat) (s : pst) : res (list node) :=
  match k with
  | 0 => RFuel
  | S k' =>
    with_cur s "ndIdentifier: p.node.Token" (fun t _ =>
      if t_id t =? TokenDOT then
        (* parseSegment *)
        do _, s1 <- skipToken TokenDOT s;
        match cur s1 with
        | None => RPanic "ndIdentifier: next segment"
        | Some nx =>
          do _, s2 <- acceptChild TokenIDENTIFIER s1;
          do sub, s3 <- parse_more k' line s2;
          ROk [snd (rn nx sub)] s3
        end
      else if t_id t =? TokenLPAREN then
        (* parseFuncCall *)
        do _, s1 <- skipToken TokenLPAREN s;
        do args, s2 <- items (fuel_of s1) [TokenRPAREN] 0 [] s1;
        do _, s3 <- skipToken TokenRPAREN s2;
        do rest, s4 <- parse_more k' line s3;
        ROk (constructed TokenFUNCCALL args :: rest) s4
      else if (t_id t =? TokenLBRACK) && (t_line t =? line) then
        do _, s1 <- (if v_propagate V then skipToken TokenLBRACK s else skip_ignore TokenLBRACK s);
        (* parseCompositionAccess *)
        do exp, s2 <- runf 0 s1;
        do _, s3 <- skipToken TokenRBRACK s2;
        do rest, s4 <- parse_more k' line s3;
        ROk (constructed TokenCOMPACCESS [snd exp] :: rest) s4
      else ROk [] s)
  end.

Definition ndIdentifier (c : cnode) (s : pst) : res rnode :=
  do cs, s1 <- parse_more (fuel_of s) (t_line (fst c)) s;
  ROk (rn c cs) s1.

(* ndList / ndMap: astNodeMap[TokenLIST].instance(p, self.Token) *)
Definition nd_collection (kind endtok : nat) (c : cnode) (s : pst) : res rnode :=
  do cs, s1 <- items (fuel_of s) [endtok] 0 [] s;
  do _, s2 <- skipToken endtok s1;
  ROk (t_id (fst c), mk_node (cname kind) (fst c) cs) s2.

(* run p.run(0) while "{" has the temporary entry, restore the previous entry afterwards *)
Definition with_guard_brace (s : pst) : res rnode :=
  let bak := sw s in
  match runf 0 (set_sw s true) with
  | ROk a s1 => ROk a (set_sw s1 bak)
  | RErr e s1 => RErr e (set_sw s1 bak)
  | RPanic x => RPanic x
  | RFuel => RFuel
  end.

(* parseGuardAndStatements: the two children appended to the if node *)
Definition guard_and_statements (s : pst) : res (list node) :=
  do exp, s1 <- with_guard_brace s;
  do body, s2 <- pis s1;
  ROk [constructed TokenGUARD [snd exp]; body] s2.

Fixpoint elifs (k : nat) (acc : list node) (s : pst) : res (list node) :=
  match k with
  | 0 => RFuel
  | S k' =>
    if is_not_end_and_token s TokenELIF then
      do _, s1 <- skipToken TokenELIF s;
      do gs, s2 <- guard_and_statements s1;
      elifs k' (acc ++ gs) s2
    else ROk acc s
  end.

Definition ndGuard (c : cnode) (s : pst) : res rnode :=
  do gs, s1 <- guard_and_statements s;
  do cs, s2 <- elifs (fuel_of s1) gs s1;
  with_cur s2 "ndGuard: p.node.Token" (fun t _ =>
    if t_id t =? TokenELSE then
      do _, s3 <- skipToken TokenELSE s2;
      do body, s4 <- pis s3;
      ROk (rn c (cs ++ [constructed TokenGUARD [constructed TokenTRUE []]; body])) s4
    else ROk (rn c cs) s2).

Definition ndLoop (c : cnode) (s : pst) : res rnode :=
  do exp, s1 <- with_guard_brace s;
  let g := if fst exp =? TokenIN then snd exp else constructed TokenGUARD [snd exp] in
  do body, s2 <- pis s1;
  ROk (rn c [g; body]) s2.

(* error names of an except clause *)
Fixpoint except_names (k : nat) (acc : list node) (s : pst) : res (list node) :=
  match k with
  | 0 => RFuel
  | S k' =>
    if is_not_end_and_not_tokens s [TokenAS; TokenIDENTIFIER; TokenLBRACE] then
      do str, s1 <- acceptChild TokenSTRING s;
      with_cur s1 "ndTry: p.node.Token" (fun t _ =>
        if t_id t =? TokenCOMMA then
          do _, s2 <- skipToken TokenCOMMA s1; except_names k' (acc ++ [str]) s2
        else except_names k' (acc ++ [str]) s1)
    else ROk acc s
  end.

Fixpoint excepts (k : nat) (acc : list node) (s : pst) : res (list node) :=
  match k with
  | 0 => RFuel
  | S k' =>
    if is_not_end_and_token s TokenEXCEPT then
      match cur s with
      | None => RPanic "ndTry: except"
      | Some ex =>
        do _, s1 <- acceptChild TokenEXCEPT s;
        do names, s2 <- except_names (fuel_of s1) [] s1;
        do bind, s3 <-
          with_cur s2 "ndTry: p.node.Token" (fun t _ =>
            if t_id t =? TokenAS then
              match cur s2 with
              | None => RPanic "ndTry: as"
              | Some asn =>
                do _, s3 <- acceptChild TokenAS s2;
                do v, s4 <- acceptChild TokenIDENTIFIER s3;
                ROk [snd (rn asn [v])] s4
              end
            else if t_id t =? TokenIDENTIFIER then
              do v, s3 <- acceptChild TokenIDENTIFIER s2; ROk [v] s3
            else ROk [] s2);
        do body, s4 <- pis s3;
        excepts k' (acc ++ [snd (rn ex (names ++ bind ++ [body]))]) s4
      end
    else ROk acc s
  end.

(* one optional "otherwise" / "finally" block of ndOtherwiseFinally *)
Definition optional_block (id : nat) (s : pst) : res (list node) :=
  match cur s with
  | None => RPanic "ndOtherwiseFinally: p.node.Token"
  | Some (t, e) =>
    if t_id t =? id then
      do _, s1 <- acceptChild id s;
      do body, s2 <- pis s1;
      ROk [snd (rn (t, e) [body])] s2
    else ROk [] s
  end.

Definition ndTry (c : cnode) (s : pst) : res rnode :=
  do body, s1 <- pis s;
  do exs, s2 <- excepts (fuel_of s1) [] s1;
  do ow, s3 <- optional_block TokenOTHERWISE s2;
  do fin, s4 <- optional_block TokenFINALLY s3;
  ROk (rn c (body :: exs ++ ow ++ fin)) s4.

Definition ndMutex (c : cnode) (s : pst) : res rnode :=
  do name, s1 <- acceptChild TokenIDENTIFIER s;
  do body, s2 <- pis s1;
  ROk (rn c [name; body]) s2.

(* the temporary "{" entry before the repair: parseInnerStatements(p, self) returns self *)
Definition ndBlock (c : cnode) (s : pst) : res rnode :=
  do body, s1 <- pis s;
  ROk (rn c [body]) s1.

Definition ldInfix (c : cnode) (left : rnode) (s : pst) : res rnode :=
  do right, s1 <- runf (ge_binding (snd c)) s;
  ROk (rn c [snd left; snd right]) s1.

(* the null denotation named in the table *)
Definition null_den (c : cnode) (s : pst) : res rnode :=
  let nm := ge_null (snd c) in
  if String.eqb nm "ndTerm" then ndTerm c s
  else if String.eqb nm "ndInner" then ndInner c s
  else if String.eqb nm "ndPrefix" then ndPrefix c s
  else if String.eqb nm "ndIdentifier" then ndIdentifier c s
  else if String.eqb nm "ndList" then nd_collection TokenLIST TokenRBRACK c s
  else if String.eqb nm "ndMap" then nd_collection TokenMAP TokenRBRACE c s
  else if String.eqb nm "ndImport" then ndImport c s
  else if String.eqb nm "ndSkink" then ndSkink c s
  else if String.eqb nm "ndFunc" then ndFunc c s
  else if String.eqb nm "ndReturn" then ndReturn c s
  else if String.eqb nm "ndGuard" then ndGuard c s
  else if String.eqb nm "ndLoop" then ndLoop c s
  else if String.eqb nm "ndTry" then ndTry c s
  else if String.eqb nm "ndMutex" then ndMutex c s
  else if String.eqb nm "parseInnerStatements" then ndBlock c s
  else RPanic "null denotation not modelled".

Definition left_den (c : cnode) (left : rnode) (s : pst) : res rnode :=
  if String.eqb (ge_left (snd c)) "ldInfix" then ldInfix c left s
  else RPanic "left denotation not modelled".

(* for rightBinding < p.node.binding { ... } *)
Fixpoint ld_loop (k : nat) (rb : nat) (left : rnode) (s : pst) : res rnode :=
  match k with
  | 0 => RFuel
  | S k' =>
    with_cur s "run: p.node.binding" (fun t e =>
      if rb <? ge_binding e then
        if String.eqb (ge_left e) "" then
          if n_line (snd left) <? t_line t then ROk left s
          else RErr (err_at ErrImpossibleLeftDenotation t) s
        else
          do _, s1 <- advance s;
          do nleft, s2 <- left_den (t, e) left s1;
          ld_loop k' rb nleft s2
      else ROk left s)
  end.

Definition run_body (rb : nat) (s : pst) : res rnode :=
  let n := cur s in
  do _, s1 <- advance s;
  match n with
  | None => RPanic "run: n.nullDenotation"
  | Some (t, e) =>
    if String.eqb (ge_null e) "" then RErr (err_at ErrImpossibleNullDenotation t) s1
    else
      do left, s2 <- null_den (t, e) s1;
      ld_loop (fuel_of s2) rb left s2
  end.

End Body.

Fixpoint run (fuel : nat) (rb : nat) (s : pst) : res rnode :=
  match fuel with
  | 0 => RFuel
  | S f => run_body (run f) rb s
  end.

(* ---- ParseWithRuntime -------------------------------------------------------------- *)

(* top-level statement loop, repaired *)
Fixpoint top_new (fuel k : nat) (n : rnode) (acc : list node) (s : pst) : res (list node) :=
  match k with
  | 0 => RFuel
  | S k' =>
    if has_more s (Some n) then
      with_cur s "ParseWithRuntime: p.node.Token" (fun t _ =>
        do _, s1 <- (if t_id t =? TokenSEMICOLON then skipToken TokenSEMICOLON s else ROk tt s);
        do n', s2 <- run fuel 0 s1;
        top_new fuel k' n' (acc ++ [snd n']) s2)
    else ROk acc s
  end.

(* top-level statement loop as it was: for err == nil && hasMoreStatements(p, n) *)
Fixpoint top_old (fuel k : nat) (n : option rnode) (acc : list node) (s : pst)
  : res (list node * option perr) :=
  match k with
  | 0 => RFuel
  | S k' =>
    if has_more s n then
      with_cur s "ParseWithRuntime: p.node.Token" (fun t _ =>
        do _, s1 <- (if t_id t =? TokenSEMICOLON then skip_ignore TokenSEMICOLON s else ROk tt s);
        do r, s2 <- run_keep (run fuel) s1;
        match snd r with
        | Some e => ROk (acc ++ [node_or_nil (fst r)], Some e) s2
        | None => top_old fuel k' (fst r) (acc ++ [node_or_nil (fst r)]) s2
        end)
    else ROk (acc, None) s
  end.

(* the Go pair, or a panic; with the number of tokens received from the lexer's channel *)
Inductive presult : Type :=
| PRes (tree : option node) (err : option perr) (received : nat)
| PPanic (site : string) (received : nat)
| PFuel.

Definition received (all : list tok) (s : pst) : nat :=
  if v_drain V then List.length all else List.length all - length (chan s).

(* the state of the last step is not kept by RPanic: a deferred drain receives everything,
   without it at least the initial fill has been received *)
Definition received_panic (all : list tok) : nat :=
  if v_drain V then List.length all else List.length all - length (snd (la_init all)).

Definition finish (all : list tok) (t : option node) (e : option perr) (s : pst) : presult :=
  match e with
  | Some _ => if v_exclusive V then PRes None e (received all s) else PRes t e (received all s)
  | None => PRes t None (received all s)
  end.

Definition parse_with (fuel : nat) (all : list tok) : presult :=
  let (b, c) := la_init all in
  let s0 := mkSt b c None false in
  match advance s0 with
  | RErr e s => finish all None (Some e) s
  | RPanic x => PPanic x (received_panic all)
  | RFuel => PFuel
  | ROk _ s1 =>
    match run fuel 0 s1 with
    | RErr e s => finish all None (Some e) s
    | RPanic x => PPanic x (received_panic all)
    | RFuel => PFuel
    | ROk n s2 =>
      let r :=
        if has_more s2 (Some n) then
          if v_propagate V then
            do cs, s3 <- top_new fuel (fuel_of s2) n [snd n] s2;
            ROk (constructed TokenSTATEMENTS cs, None) s3
          else
            do ce, s3 <- top_old fuel (fuel_of s2) (Some n) [snd n] s2;
            ROk (constructed TokenSTATEMENTS (fst ce), snd ce) s3
        else ROk (snd n, None) s2 in
      match r with
      | RErr e s => finish all None (Some e) s
      | RPanic x => PPanic x (received_panic all)
      | RFuel => PFuel
      | ROk (t, Some e) s => finish all (Some t) (Some e) s
      | ROk (t, None) s =>
        match cur s with
        | Some (tk, _) =>
          if negb (t_id tk =? TokenEOF) then finish all (Some t) (Some (err_at ErrUnexpectedEnd tk)) s
          else finish all (Some t) None s
        | None => finish all (Some t) None s
        end
      end
    end
  end.

End WithVariant.

(* nesting depth never exceeds the number of tokens *)
Definition parse_fuel (all : list tok) : nat := List.length all + 5.

Definition parse (all : list tok) : presult := parse_with repaired (parse_fuel all) all.
Definition parse_original (all : list tok) : presult := parse_with original (parse_fuel all) all.
