(* Model/TaskQueue.v — (1) sortutil.PriorityQueue as the code implements it: a container/heap of
   items ordered by (priority, order) where order is a per-queue insertion counter;
   (2) engine/taskqueue.go: one PriorityQueue per cascade (root monitor id), Push, Pop with a
   random choice among the non-empty queues and removal of empty queues met on the way;
   (3) engine/processor.go ProcessEvent's rule sequence: sort by priority, run one after
   another, stop at the first error when failOnFirstError is set.  Definitions only. *)
From Coq Require Import List ZArith Bool Arith.
From Ecal Require Import Model.IntHeap.
Import ListNotations.
Open Scope Z_scope.

(* ---- (1) sortutil.PriorityQueue --------------------------------------------------- *)
Record pqitem := mkItem { pi_prio : Z; pi_order : Z; pi_val : nat }.   (* value = task identity *)
Definition ditem : pqitem := mkItem 0 0 0.

(* priorityQueueHeap.Less *)
Definition item_ltb (a b : pqitem) : bool :=
  if negb (Z.eqb (pi_prio a) (pi_prio b)) then Z.ltb (pi_prio a) (pi_prio b)
  else Z.ltb (pi_order a) (pi_order b).

Record pq := mkPQ { pq_heap : list pqitem; pq_counter : Z }.

(* NewPriorityQueue: empty heap (heap.Init), orderCounter 0, MinPriority = func() int { return -1 }.
   The task queue never sets MinPriority, so "minPriority > 0 && ..." is false in Pop and Size. *)
Definition new_pq : pq := mkPQ (heap_init item_ltb ditem []) 0.

(* Push(value, priority): if priority < 0 { priority = 0 }; heap.Push(item{value, priority, orderCounter}); orderCounter++ *)
Definition pq_push (q : pq) (v : nat) (prio : Z) : pq :=
  let p := if Z.ltb prio 0 then 0 else prio in
  mkPQ (heap_push item_ltb ditem (pq_heap q) (mkItem p (pq_counter q) v)) (pq_counter q + 1).

Definition pq_size (q : pq) : nat := length (pq_heap q).

(* Pop: nil (None) if the heap is empty, else heap.Pop(pq.heap).value *)
Definition pq_pop (q : pq) : option (nat * pq) :=
  match heap_pop item_ltb ditem (pq_heap q) with
  | None => None
  | Some (it, h') => Some (pi_val it, mkPQ h' (pq_counter q))
  end.

(* ---- (2) TaskQueue ------------------------------------------------------------------ *)
(* map[uint64]*PriorityQueue with unique keys *)
Definition tqstate := list (nat * pq).

Fixpoint lookup (s : tqstate) (k : nat) : option pq :=
  match s with
  | [] => None
  | (k', q) :: t => if Nat.eqb k k' then Some q else lookup t k
  end.
Definition remove (s : tqstate) (k : nat) : tqstate := filter (fun e => negb (Nat.eqb (fst e) k)) s.
Definition set (s : tqstate) (k : nat) (q : pq) : tqstate := (k, q) :: remove s k.

(* Push(t): q := queues[id] or a new queue; q.Push(task, task.m.Priority()) *)
Definition tq_push (s : tqstate) (root : nat) (prio : Z) (task : nat) : tqstate :=
  let q := match lookup s root with Some q => q | None => new_pq end in
  set s root (pq_push q task prio).

(* Pop walks over the map in Go's random order with a random countdown: it ends at some
   non-empty queue (any of them can be the one) and deletes the empty queues it met before.
   Both choices are part of the label: [cleaned] = the deleted keys, [root] = the chosen queue. *)
Definition is_empty_queue (s : tqstate) (k : nat) : bool :=
  match lookup s k with Some q => Nat.eqb (pq_size q) 0 | None => false end.
Definition clean (s : tqstate) (cleaned : list nat) : tqstate := fold_left remove cleaned s.
Definition all_empty (s : tqstate) : bool := forallb (fun e => Nat.eqb (pq_size (snd e)) 0) s.

Definition tq_pop (s : tqstate) (cleaned : list nat) (root : nat) : option (nat * tqstate) :=
  if forallb (is_empty_queue s) cleaned then
    match lookup s root with
    | Some q => match pq_pop q with
                | Some (task, q') => Some (task, set (clean s cleaned) root q')
                | None => None
                end
    | None => None
    end
  else None.

(* Pop returning nil: no queue has an element *)
Definition tq_pop_nil (s : tqstate) (cleaned : list nat) : option tqstate :=
  if forallb (is_empty_queue s) cleaned && all_empty s then Some (clean s cleaned) else None.

Inductive tq_label : Type :=
| TPush (root : nat) (prio : Z) (task : nat)
| TPop (cleaned : list nat) (root : nat) (task : nat)    (* a worker took [task] from cascade [root] *)
| TPopNil (cleaned : list nat).

(* labelled step in the sense of Common/Sched.v: None = this observation cannot happen here *)
Definition tq_step (s : tqstate) (l : tq_label) : option tqstate :=
  match l with
  | TPush root prio task => Some (tq_push s root prio task)
  | TPop cleaned root task =>
    match tq_pop s cleaned root with
    | Some (t, s') => if Nat.eqb t task then Some s' else None
    | None => None
    end
  | TPopNil cleaned => tq_pop_nil s cleaned
  end.

(* ---- (3) ProcessEvent: the rule sequence of one event ------------------------------------ *)
(* A rule action is a script: it adds child events (monitor priority, task identity) to the
   cascade and then returns an error or nil. *)
Record rule := mkRule { r_id : nat; r_prio : Z; r_adds : list (Z * nat); r_fails : bool }.

(* for _, rule := range rulesExecuting {
     if err := rule.Action(...); err != nil { errors[rule.Name] = err }
     if p.failOnFirstError && len(errors) > 0 { break } }
   returns the rules whose action ran, in order, and the names in the error map *)
Fixpoint exec_rules (flag : bool) (rs : list rule) (errs : list nat) : list rule * list nat :=
  match rs with
  | [] => ([], errs)
  | r :: t =>
    let errs' := if r_fails r then errs ++ [r_id r] else errs in
    if flag && Nat.ltb 0 (length errs') then ([r], errs')
    else let (ex, e) := exec_rules flag t errs' in (r :: ex, e)
  end.

(* SortRuleSlice = sort.Sort (not stable) with Less = "Priority <": modelled by any function
   [srt] returning a permutation sorted by priority; which one is the library's business. *)
Definition process_event (srt : list rule -> list rule) (flag : bool) (triggered : list rule)
  : list rule * list nat := exec_rules flag (srt triggered) [].

(* the events the executed actions added, in order; all go to the cascade [root] *)
Definition adds_of (executed : list rule) : list (Z * nat) := flat_map r_adds executed.
Definition push_all (s : tqstate) (root : nat) (adds : list (Z * nat)) : tqstate :=
  fold_left (fun s a => tq_push s root (fst a) (snd a)) adds s.

(* an instance of srt: insertion sort by (priority, tie r) where [tie] stands for the
   unspecified decisions of the unstable sort among equal priorities *)
Section InsSort.
  Variable tie : rule -> nat.
  Definition rule_leb (a b : rule) : bool :=
    if Z.eqb (r_prio a) (r_prio b) then Nat.leb (tie a) (tie b) else Z.ltb (r_prio a) (r_prio b).
  Fixpoint insert_rule (r : rule) (l : list rule) : list rule :=
    match l with
    | [] => [r]
    | x :: t => if rule_leb r x then r :: l else x :: insert_rule r t
    end.
  Definition ins_sort (l : list rule) : list rule := fold_right insert_rule [] l.
End InsSort.
