(* Model/Pratt.v — the expression fragment of parser/parser.go over a token list.

   Go code followed:
     parser.run(rightBinding)       n := p.node; p.node = next(); null denotation of n;
                                   for rightBinding < p.node.binding { left denotation ... }
                                   with the same-line rule for an impossible left denotation
     parser.next                    end of tokens / error token / unknown token id
     ndTerm, ndIdentifier (plain identifiers only: a following '.', '(' or same-line '[' leaves
     the modelled fragment), ndPrefix (run(binding+20)), ndInner (run(0), skip ')'), ldInfix
     (run(binding)), ParseWithRuntime for a single statement.

   Binding powers, node names and the KIND of the null/left denotation of every token are
   looked up in gen/Grammar.v (= parser.astNodeMap of the current source) by token id.
   The parser state (p.node, rest of the channel) is a token list whose head is p.node.
   Tokens are the real lexer's tokens (id, value, flags, line).  No proofs in this file. *)
From Coq Require Import List String NArith Bool Arith.
From Ecal Require Import Common.Bytes Common.Ast gen.Tokens gen.Grammar.
Import ListNotations.
Local Open Scope nat_scope.
Local Open Scope string_scope.

Record token := mkTok {
  t_id : nat;          (* LexToken.ID *)
  t_val : bytes;       (* LexToken.Val *)
  t_ident : bool;      (* LexToken.Identifier *)
  t_esc : bool;        (* LexToken.AllowEscapes *)
  t_line : nat         (* LexToken.Lline *)
}.

(* astNodeMap[id] *)
Fixpoint lookup_ge (tbl : list grammar_entry) (id : nat) : option grammar_entry :=
  match tbl with
  | [] => None
  | g :: r => if Nat.eqb (ge_token g) id then Some g else lookup_ge r id
  end.

Definition entry (t : token) : option grammar_entry := lookup_ge grammar_table (t_id t).
Definition bp (t : token) : nat := match entry t with Some g => ge_binding g | None => 0 end.
Definition nullk (t : token) : string := match entry t with Some g => ge_null g | None => "" end.
Definition leftk (t : token) : string := match entry t with Some g => ge_left g | None => "" end.
Definition nname (t : token) : string := match entry t with Some g => ge_name g | None => "" end.

(* node.instance(p, &token) *)
Definition mk (t : token) (cs : list node) : node :=
  Node (nname t) (t_val t) (t_ident t) (t_esc t) (t_line t) cs.

Inductive perr :=
| EUnexpectedEnd | ELexical | EUnknownToken | EImpossibleNull | EImpossibleLeft
| EUnexpectedToken | EExtraToken.

Inductive presult (A : Type) :=
| POk (a : A)
| PErr (e : perr) (line : nat)
| PUnsupported                 (* input leaves the modelled fragment *)
| POutOfFuel.
Arguments POk {A} a.
Arguments PErr {A} e line.
Arguments PUnsupported {A}.
Arguments POutOfFuel {A}.

Definition is_comment (t : token) : bool :=
  Nat.eqb (t_id t) TokenPRECOMMENT || Nat.eqb (t_id t) TokenPOSTCOMMENT.

(* p.node, err = p.next(): the state after it is the rest of the list, whose head must
   exist and be convertible into an AST node *)
Definition advance (rest : list token) : presult (list token) :=
  match rest with
  | [] => PErr EUnexpectedEnd 0
  | t :: _ =>
    if is_comment t then PUnsupported
    else if Nat.eqb (t_id t) TokenError then PErr ELexical (t_line t)
    else match entry t with
         | Some _ => POk rest
         | None => PErr EUnknownToken (t_line t)
         end
  end.

(* what ndIdentifier's parseMore looks at *)
Definition starts_access (self : token) (ts : list token) : bool :=
  match ts with
  | [] => false
  | t :: _ =>
    Nat.eqb (t_id t) TokenDOT || Nat.eqb (t_id t) TokenLPAREN ||
    (Nat.eqb (t_id t) TokenLBRACK && Nat.eqb (t_line t) (t_line self))
  end.

(* skipToken(p, TokenRPAREN) *)
Definition skip_rparen (ts : list token) : presult (list token) :=
  match ts with
  | [] => PErr EUnexpectedEnd 0
  | t :: rest =>
    if Nat.eqb (t_id t) TokenRPAREN then advance rest
    else if Nat.eqb (t_id t) TokenEOF then PErr EUnexpectedEnd (t_line t)
    else PErr EUnexpectedToken (t_line t)
  end.

Fixpoint run (fuel : nat) (rb : nat) (ts : list token) {struct fuel} : presult (node * list token) :=
  match fuel with
  | O => POutOfFuel
  | S f =>
    match ts with
    | [] => PErr EUnexpectedEnd 0
    | n :: rest =>
      match advance rest with
      | POk rest1 =>
        let k := nullk n in
        if String.eqb k "" then PErr EImpossibleNull (t_line n)
        else if String.eqb k "ndTerm" then loop f rb (mk n []) rest1
        else if String.eqb k "ndIdentifier" then
          if starts_access n rest1 then PUnsupported else loop f rb (mk n []) rest1
        else if String.eqb k "ndPrefix" then
          match run f (bp n + 20) rest1 with
          | POk (v, ts1) => loop f rb (mk n [v]) ts1
          | PErr e l => PErr e l | PUnsupported => PUnsupported | POutOfFuel => POutOfFuel
          end
        else if String.eqb k "ndInner" then
          match run f 0 rest1 with
          | POk (x, ts1) =>
            match skip_rparen ts1 with
            | POk ts2 => loop f rb x ts2
            | PErr e l => PErr e l | PUnsupported => PUnsupported | POutOfFuel => POutOfFuel
            end
          | PErr e l => PErr e l | PUnsupported => PUnsupported | POutOfFuel => POutOfFuel
          end
        else PUnsupported
      | PErr e l => PErr e l | PUnsupported => PUnsupported | POutOfFuel => POutOfFuel
      end
    end
  end

with loop (fuel : nat) (rb : nat) (left : node) (ts : list token) {struct fuel}
  : presult (node * list token) :=
  match fuel with
  | O => POutOfFuel
  | S f =>
    match ts with
    | [] => PErr EUnexpectedEnd 0
    | n :: rest =>
      if Nat.ltb rb (bp n) then
        let k := leftk n in
        if String.eqb k "" then
          if Nat.ltb (n_line left) (t_line n) then POk (left, ts)
          else PErr EImpossibleLeft (t_line n)
        else if String.eqb k "ldInfix" then
          match advance rest with
          | POk rest1 =>
            match run f (bp n) rest1 with
            | POk (r, ts1) => loop f rb (mk n [left; r]) ts1
            | PErr e l => PErr e l | PUnsupported => PUnsupported | POutOfFuel => POutOfFuel
            end
          | PErr e l => PErr e l | PUnsupported => PUnsupported | POutOfFuel => POutOfFuel
          end
        else PUnsupported
      else POk (left, ts)
    end
  end.

(* fuel that Proofs/PrattProofs shows sufficient *)
Definition parse_fuel (ts : list token) : nat := 2 * length ts.

(* ParseWithRuntime restricted to one expression statement: first next(), run(0), then the
   parser must stand on EOF; a further statement (';' or a token on a later line) leaves the
   fragment, anything else is the "extra token" error. *)
Definition parse_expr (ts : list token) : presult node :=
  match advance ts with
  | POk ts0 =>
    match run (parse_fuel ts0) 0 ts0 with
    | POk (n, rest) =>
      match rest with
      | [] => PErr EUnexpectedEnd 0
      | t :: _ =>
        if Nat.eqb (t_id t) TokenEOF then POk n
        else if Nat.eqb (t_id t) TokenSEMICOLON || Nat.ltb (n_line n) (t_line t) then PUnsupported
        else PErr EExtraToken (t_line t)
      end
    | PErr e l => PErr e l | PUnsupported => PUnsupported | POutOfFuel => POutOfFuel
    end
  | PErr e l => PErr e l | PUnsupported => PUnsupported | POutOfFuel => POutOfFuel
  end.
