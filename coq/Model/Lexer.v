(* Model/Lexer.v — executable model of the ECAL lexer, parser/lexer.go (SHARED: C18, C07, C03, C08).

   ======================================================================================
   INTERFACE (stable; other properties import this file)

     rune   := Z          (RuneEOF = -1, RuneError = 65533)
     Record token := mkTok {
       t_id : nat;        LexToken.ID   (parser/const.go numbering, Token constants below)
       t_pos : nat;       LexToken.Pos  (byte offset)
       t_val : bytes;     LexToken.Val  (for TokenError: a one-byte error class, see the Err constants)
       t_ident : bool;    LexToken.Identifier
       t_esc : bool;      LexToken.AllowEscapes
       t_pnl : nat;       LexToken.PrefixNewlines
       t_line : Z;        LexToken.Lline
       t_col : Z }.       LexToken.Lpos   (Z: the EOF token can carry a column <= 0)

     lex : bytes -> outcome (list token)
         the tokens the channel of parser.Lex carries, in order (= parser.LexToList), for the
         code as it is in /repo (UNCHANGED variant: a line comment bumps line but keeps lastnl,
         so columns on the line after a # comment are counted from an earlier line start).
         [Panic s]   : the Go code would panic (slice bounds / negative position)
         [OutOfFuel] : a loop did not end within its fuel
         Proofs/LexerProofs.v proves that neither happens for every input, both variants.
     lex_repaired : the same for the code with the one-line repair (lastnl set after a line
         comment, fixes/C18-line-comment-column.patch - NOT applied to /repo, known finding).
     lex_variant keeps : lex = lex_variant true, lex_repaired = lex_variant false.
     lex_with is_space is_control is_number v_line_comment_keeps_lastnl : the same with
         arbitrary classifiers (the proofs are about lex_with).
     KeywordMap, SymbolMap : list (bytes * nat)  — the Go tables (cross-checked against
         parser.KeywordMap / parser.SymbolMap by the C18 harness on every run).
     uni_space_ranges / uni_control_ranges / uni_number_ranges — unicode.IsSpace / IsControl /
         IsNumber as range tables over all of Unicode (cross-checked on every run as well).
     decode_rune : bytes -> rune * nat    utf8.DecodeRuneInString (exact)
     encode_rune : rune -> bytes          utf8.AppendRune / string(rune) (exact)
     unquote : bytes -> option bytes      strconv.Unquote of a double-quoted literal (exact:
         all escapes \a \b \f \n \r \t \v \\ \dquote \xHH \uHHHH \UHHHHHHHH \ooo, invalid UTF-8
         becomes U+FFFD, raw newline / \' / unknown escape = error)
     parse_float_ok : bytes -> bool       strconv.ParseFloat(s, 64) returns no error, for the
         strings the number block can produce (digits . e +): syntax digits[.digits][e[+]digits]
         and no overflow (value < 2^1024 - 2^970); exact for inputs shorter than 10000 bytes.
     lower_bytes : bytes -> bytes         strings.ToLower, exact on ASCII and on the two
         non-ASCII runes that lower-case INTO ASCII (U+0130 -> i, U+212A -> k; checked by the
         harness over all runes); other non-ASCII runes are left unchanged, which can only
         show in the text of an error message (never compared).

   The model follows the Go code function by function: next/backup/startNew, emitToken /
   emitTokenAndValue / emitError, skipWhiteSpace, lexTextBlock, lexNumberBlock and the state
   functions lexToken, lexValue, lexComment, driven by run().  The Go channel is the field
   l_out (newest token first).  The only difference between the two variants is one
   assignment in lexComment (switch v_line_comment_keeps_lastnl).  No proofs in this file.
   ====================================================================================== *)
From Coq Require Import ZArith String.
From Ecal Require Export Common.Bytes Common.Outcome.
Open Scope N_scope.

Definition rune := Z.
Definition RuneEOF : rune := (-1)%Z.
Definition RuneError : rune := 65533%Z.

Notation "x <- c1 ;; c2" := (obind c1 (fun x => c2))
  (at level 61, c1 at next level, right associativity).
Notation "' pat <- c1 ;; c2" := (obind c1 (fun x => match x with pat => c2 end))
  (at level 61, pat pattern, c1 at next level, right associativity).

(* ---------------------------------------------------------------- token ids (const.go) *)
Definition TokenError : nat := 0.
Definition TokenEOF : nat := 1.
Definition TokenPRECOMMENT : nat := 3.
Definition TokenPOSTCOMMENT : nat := 4.
Definition TokenSTRING : nat := 5.
Definition TokenNUMBER : nat := 6.
Definition TokenIDENTIFIER : nat := 7.

(* error classes carried in t_val of a TokenError (the message text is not modelled) *)
Definition ErrIdentifier : bytes := [1].      (* Cannot parse identifier ... *)
Definition ErrUnclosedString : bytes := [2].  (* Unexpected end while reading string value *)
Definition ErrUnquote : bytes := [3].         (* <strconv error> while parsing string *)
Definition ErrUnclosedComment : bytes := [4]. (* Unexpected end while reading comment *)

Record token := mkTok {
  t_id : nat; t_pos : nat; t_val : bytes; t_ident : bool; t_esc : bool; t_pnl : nat;
  t_line : Z; t_col : Z }.

(* ---------------------------------------------------------------- tables *)
Definition uni_space_ranges : list (Z * Z) := [
  (9, 13); (32, 32); (133, 133); (160, 160); (5760, 5760); (8192, 8202); (8232, 8233);
  (8239, 8239); (8287, 8287); (12288, 12288)
]%Z.

Definition uni_control_ranges : list (Z * Z) := [
  (0, 31); (127, 159)
]%Z.

Definition uni_number_ranges : list (Z * Z) := [
  (48, 57); (178, 179); (185, 185); (188, 190); (1632, 1641); (1776, 1785); (1984, 1993);
  (2406, 2415); (2534, 2543); (2548, 2553); (2662, 2671); (2790, 2799); (2918, 2927);
  (2930, 2935); (3046, 3058); (3174, 3183); (3192, 3198); (3302, 3311); (3416, 3422);
  (3430, 3448); (3558, 3567); (3664, 3673); (3792, 3801); (3872, 3891); (4160, 4169);
  (4240, 4249); (4969, 4988); (5870, 5872); (6112, 6121); (6128, 6137); (6160, 6169);
  (6470, 6479); (6608, 6618); (6784, 6793); (6800, 6809); (6992, 7001); (7088, 7097);
  (7232, 7241); (7248, 7257); (8304, 8304); (8308, 8313); (8320, 8329); (8528, 8578);
  (8581, 8585); (9312, 9371); (9450, 9471); (10102, 10131); (11517, 11517); (12295, 12295);
  (12321, 12329); (12344, 12346); (12690, 12693); (12832, 12841); (12872, 12879);
  (12881, 12895); (12928, 12937); (12977, 12991); (42528, 42537); (42726, 42735);
  (43056, 43061); (43216, 43225); (43264, 43273); (43472, 43481); (43504, 43513);
  (43600, 43609); (44016, 44025); (65296, 65305); (65799, 65843); (65856, 65912);
  (65930, 65931); (66273, 66299); (66336, 66339); (66369, 66369); (66378, 66378);
  (66513, 66517); (66720, 66729); (67672, 67679); (67705, 67711); (67751, 67759);
  (67835, 67839); (67862, 67867); (68028, 68029); (68032, 68047); (68050, 68095);
  (68160, 68168); (68221, 68222); (68253, 68255); (68331, 68335); (68440, 68447);
  (68472, 68479); (68521, 68527); (68858, 68863); (68912, 68921); (69216, 69246);
  (69405, 69414); (69457, 69460); (69573, 69579); (69714, 69743); (69872, 69881);
  (69942, 69951); (70096, 70105); (70113, 70132); (70384, 70393); (70736, 70745);
  (70864, 70873); (71248, 71257); (71360, 71369); (71472, 71483); (71904, 71922);
  (72016, 72025); (72784, 72812); (73040, 73049); (73120, 73129); (73552, 73561);
  (73664, 73684); (74752, 74862); (92768, 92777); (92864, 92873); (93008, 93017);
  (93019, 93025); (93824, 93846); (119488, 119507); (119520, 119539); (119648, 119672);
  (120782, 120831); (123200, 123209); (123632, 123641); (124144, 124153); (125127, 125135);
  (125264, 125273); (126065, 126123); (126125, 126127); (126129, 126132); (126209, 126253);
  (126255, 126269); (127232, 127244); (130032, 130041)
]%Z.

Definition KeywordMap : list (bytes * nat) := [
  ([97;110;100], 52%nat) (* and *);
  ([97;115], 43%nat) (* as *);
  ([98;114;101;97;107], 67%nat) (* break *);
  ([99;111;110;116;105;110;117;101], 68%nat) (* continue *);
  ([101;108;105;102], 64%nat) (* elif *);
  ([101;108;115;101], 65%nat) (* else *);
  ([101;120;99;101;112;116], 70%nat) (* except *);
  ([102;97;108;115;101], 60%nat) (* false *);
  ([102;105;110;97;108;108;121], 72%nat) (* finally *);
  ([102;111;114], 66%nat) (* for *);
  ([102;117;110;99], 50%nat) (* func *);
  ([104;97;115;112;114;101;102;105;120], 57%nat) (* hasprefix *);
  ([104;97;115;115;117;102;102;105;120], 58%nat) (* hassuffix *);
  ([105;102], 63%nat) (* if *);
  ([105;109;112;111;114;116], 42%nat) (* import *);
  ([105;110], 56%nat) (* in *);
  ([107;105;110;100;109;97;116;99;104], 45%nat) (* kindmatch *);
  ([108;101;116], 40%nat) (* let *);
  ([108;105;107;101], 55%nat) (* like *);
  ([109;117;116;101;120], 73%nat) (* mutex *);
  ([110;111;116], 54%nat) (* not *);
  ([110;111;116;105;110], 59%nat) (* notin *);
  ([110;117;108;108], 62%nat) (* null *);
  ([111;114], 53%nat) (* or *);
  ([111;116;104;101;114;119;105;115;101], 71%nat) (* otherwise *);
  ([112;114;105;111;114;105;116;121], 48%nat) (* priority *);
  ([114;101;116;117;114;110], 51%nat) (* return *);
  ([115;99;111;112;101;109;97;116;99;104], 46%nat) (* scopematch *);
  ([115;105;110;107], 44%nat) (* sink *);
  ([115;116;97;116;101;109;97;116;99;104], 47%nat) (* statematch *);
  ([115;117;112;112;114;101;115;115;101;115], 49%nat) (* suppresses *);
  ([116;114;117;101], 61%nat) (* true *);
  ([116;114;121], 69%nat) (* try *)
].

Definition SymbolMap : list (bytes * nat) := [
  ([33;61], 18%nat);
  ([37], 38%nat);
  ([40], 22%nat);
  ([41], 23%nat);
  ([42], 35%nat);
  ([43], 33%nat);
  ([44], 29%nat);
  ([45], 34%nat);
  ([46], 28%nat);
  ([47], 36%nat);
  ([47;47], 37%nat);
  ([58], 31%nat);
  ([58;61], 39%nat);
  ([59], 30%nat);
  ([60], 21%nat);
  ([60;61], 17%nat);
  ([61], 32%nat);
  ([61;61], 19%nat);
  ([62], 20%nat);
  ([62;61], 16%nat);
  ([91], 24%nat);
  ([93], 25%nat);
  ([123], 26%nat);
  ([125], 27%nat)
].

Fixpoint lookup (t : list (bytes * nat)) (k : bytes) : option nat :=
  match t with
  | [] => None
  | (k', v) :: t' => if bytes_eqb k' k then Some v else lookup t' k
  end.

Definition in_ranges (t : list (Z * Z)) (r : rune) : bool :=
  existsb (fun p => (fst p <=? r)%Z && (r <=? snd p)%Z) t.

Definition uni_is_space : rune -> bool := in_ranges uni_space_ranges.
Definition uni_is_control : rune -> bool := in_ranges uni_control_ranges.
Definition uni_is_number : rune -> bool := in_ranges uni_number_ranges.

(* ---------------------------------------------------------------- UTF-8 *)
Definition cont (b : N) : bool := (128 <=? b) && (b <=? 191).

(* utf8.DecodeRuneInString: (rune, width); invalid or short encodings give (RuneError, 1),
   the empty string (RuneError, 0). *)
Definition decode_rune (s : bytes) : rune * nat :=
  match s with
  | [] => (RuneError, 0%nat)
  | b0 :: t =>
    if b0 <? 128 then (Z.of_N b0, 1%nat)
    else if (194 <=? b0) && (b0 <=? 223) then
      match t with
      | b1 :: _ =>
        if cont b1 then (Z.of_N ((b0 - 192) * 64 + (b1 - 128)), 2%nat) else (RuneError, 1%nat)
      | _ => (RuneError, 1%nat)
      end
    else if (224 <=? b0) && (b0 <=? 239) then
      match t with
      | b1 :: b2 :: _ =>
        if ((if b0 =? 224 then 160 else 128) <=? b1) && (b1 <=? (if b0 =? 237 then 159 else 191))
           && cont b2
        then (Z.of_N ((b0 - 224) * 4096 + (b1 - 128) * 64 + (b2 - 128)), 3%nat)
        else (RuneError, 1%nat)
      | _ => (RuneError, 1%nat)
      end
    else if (240 <=? b0) && (b0 <=? 244) then
      match t with
      | b1 :: b2 :: b3 :: _ =>
        if ((if b0 =? 240 then 144 else 128) <=? b1) && (b1 <=? (if b0 =? 244 then 143 else 191))
           && cont b2 && cont b3
        then (Z.of_N ((b0 - 240) * 262144 + (b1 - 128) * 4096 + (b2 - 128) * 64 + (b3 - 128)), 4%nat)
        else (RuneError, 1%nat)
      | _ => (RuneError, 1%nat)
      end
    else (RuneError, 1%nat)
  end.

Definition valid_rune (r : rune) : bool :=
  ((0 <=? r) && (r <? 55296) || (57344 <=? r) && (r <=? 1114111))%Z.

(* utf8.AppendRune / string(rune): invalid runes are encoded as U+FFFD *)
Definition encode_rune (r : rune) : bytes :=
  let r := if valid_rune r then Z.to_N r else 65533 in
  if r <? 128 then [r]
  else if r <? 2048 then [192 + r / 64; 128 + r mod 64]
  else if r <? 65536 then [224 + r / 4096; 128 + (r / 64) mod 64; 128 + r mod 64]
  else [240 + r / 262144; 128 + (r / 4096) mod 64; 128 + (r / 64) mod 64; 128 + r mod 64].

(* unicode.ToLower as far as it matters (see the header) *)
Definition rune_lower (r : rune) : rune :=
  (if (65 <=? r) && (r <=? 90) then r + 32
   else if r =? 304 then 105 else if r =? 8490 then 107 else r)%Z.

(* strings.ToLower; [skip] bytes still belong to the rune decoded last *)
Fixpoint lower_aux (skip : nat) (s : bytes) : bytes :=
  match s with
  | [] => []
  | _ :: t =>
    match skip with
    | S k => lower_aux k t
    | O => let '(r, w) := decode_rune s in encode_rune (rune_lower r) ++ lower_aux (w - 1) t
    end
  end.
Definition lower_bytes (s : bytes) : bytes := lower_aux 0 s.

(* ---------------------------------------------------------------- patterns *)
Definition is_digit (b : N) : bool := (48 <=? b) && (b <=? 57).
Definition is_alpha (b : N) : bool := ((65 <=? b) && (b <=? 90)) || ((97 <=? b) && (b <=? 122)).

(* numberPattern ^[0-9].*$  ('.' does not match a newline) *)
Definition number_pattern (s : bytes) : bool :=
  match s with
  | b :: t => is_digit b && negb (existsb (N.eqb 10) t)
  | [] => false
  end.

(* NamePattern ^[A-Za-z][A-Za-z0-9]*$ *)
Definition name_pattern (s : bytes) : bool :=
  match s with
  | b :: t => is_alpha b && forallb (fun c => is_alpha c || is_digit c) t
  | [] => false
  end.

(* ---------------------------------------------------------------- strconv.ParseFloat: err == nil *)
Fixpoint take_digits (s : bytes) (acc : N) (n : nat) : N * nat * bytes :=
  match s with
  | b :: t => if is_digit b then take_digits t (acc * 10 + (b - 48)) (S n) else (acc, n, s)
  | [] => (acc, n, s)
  end.

Definition float_max_excl : N := 2 ^ 1024 - 2 ^ 970.  (* first value that rounds to +Inf *)

Definition parse_float_ok (s : bytes) : bool :=
  let '(m1, n1, r1) := take_digits s 0 0 in
  let '(m, nfrac, ndig, r2) :=
    match r1 with
    | 46 :: t => let '(m2, n2, r) := take_digits t m1 0 in (m2, n2, (n1 + n2)%nat, r)
    | _ => (m1, 0%nat, n1, r1)
    end in
  if (ndig =? 0)%nat then false
  else
    let mexp :=
      match r2 with
      | [] => Some 0
      | 101 :: t =>
        (* a '-' sign cannot reach this function: the number block stops at '-' *)
        let t' := match t with 43 :: u => u | _ => t end in
        let '(e, ne, r3) := take_digits t' 0 0 in
        match r3 with
        | [] => if (ne =? 0)%nat then None else Some e
        | _ => None
        end
      | _ => None
      end in
    match mexp with
    | None => false
    | Some e =>
      if m =? 0 then true
      else
        let d := N.of_nat nfrac in
        if d + 310 <? e then false                           (* m >= 1: certainly too large *)
        else if d <=? e then m * 10 ^ (e - d) <? float_max_excl
        else m <? float_max_excl * 10 ^ (d - e)
    end.

(* ---------------------------------------------------------------- strconv.Unquote of a double-quoted literal *)
Definition unhex (b : N) : option N :=
  if is_digit b then Some (b - 48)
  else if (97 <=? b) && (b <=? 102) then Some (b - 87)
  else if (65 <=? b) && (b <=? 70) then Some (b - 55)
  else None.

Fixpoint read_hex (n : nat) (s : bytes) (acc : N) : option (N * bytes) :=
  match n with
  | O => Some (acc, s)
  | S k => match s with
           | b :: t => match unhex b with Some x => read_hex k t (acc * 16 + x) | None => None end
           | [] => None
           end
  end.

Definition is_oct (b : N) : bool := (48 <=? b) && (b <=? 55).

(* strconv.UnquoteChar(s, double quote) for s not starting with the quote: (value, multibyte, tail) *)
Definition unquote_char (s : bytes) : option (rune * bool * bytes) :=
  match s with
  | [] => None
  | c :: t =>
    if 128 <=? c then let '(r, w) := decode_rune s in Some (r, true, skipn w s)
    else if negb (c =? 92) then Some (Z.of_N c, false, t)
    else
      match t with
      | [] => None
      | c1 :: u =>
        if c1 =? 97 then Some (7%Z, false, u)
        else if c1 =? 98 then Some (8%Z, false, u)
        else if c1 =? 102 then Some (12%Z, false, u)
        else if c1 =? 110 then Some (10%Z, false, u)
        else if c1 =? 114 then Some (13%Z, false, u)
        else if c1 =? 116 then Some (9%Z, false, u)
        else if c1 =? 118 then Some (11%Z, false, u)
        else if c1 =? 120 then
          match read_hex 2 u 0 with Some (v, rest) => Some (Z.of_N v, false, rest) | None => None end
        else if (c1 =? 117) || (c1 =? 85) then
          match read_hex (if c1 =? 117 then 4 else 8) u 0 with
          | Some (v, rest) => if valid_rune (Z.of_N v) then Some (Z.of_N v, true, rest) else None
          | None => None
          end
        else if is_oct c1 then
          match u with
          | d1 :: d2 :: rest =>
            if is_oct d1 && is_oct d2 then
              let v := (c1 - 48) * 64 + (d1 - 48) * 8 + (d2 - 48) in
              if 255 <? v then None else Some (Z.of_N v, false, rest)
            else None
          | _ => None
          end
        else if c1 =? 92 then Some (92%Z, false, u)
        else if c1 =? 34 then Some (34%Z, false, u)
        else None                                   (* includes backslash-apostrophe *)
      end
  end.

Fixpoint unq_loop (fuel : nat) (s acc : bytes) : option (bytes * bytes) :=
  match fuel with
  | O => None
  | S f =>
    match s with
    | [] => None                                    (* no terminating quote *)
    | c :: t =>
      if c =? 34 then Some (acc, t)
      else if c =? 10 then None
      else match unquote_char s with
           | None => None
           | Some (r, multibyte, rem) =>
             unq_loop f rem (acc ++ (if (r <? 128)%Z || negb multibyte then [Z.to_N r] else encode_rune r))
           end
    end
  end.

Definition unquote (s : bytes) : option bytes :=
  match s with
  | 34 :: t => match unq_loop (S (length t)) t [] with
               | Some (out, []) => Some out
               | _ => None
               end
  | _ => None
  end.

(* strings.Replace: every double quote gets a backslash in front *)
Fixpoint escape_dq (s : bytes) : bytes :=
  match s with
  | [] => []
  | c :: t => if c =? 34 then 92 :: 34 :: escape_dq t else c :: escape_dq t
  end.

(* ---------------------------------------------------------------- the lexer *)
Inductive lstate := SToken | SValue | SComment.   (* lexFunc values; nil = None *)

Record lexer := mkLexer {
  l_pos : nat;        (* pos: current rune pointer *)
  l_line : nat;       (* line: current line pointer (0-based) *)
  l_lastnl : nat;     (* lastnl: offset just after the last newline seen *)
  l_skipped : nat;    (* skippedNewline *)
  l_width : nat;      (* width of the last rune read *)
  l_start : nat;      (* start of the current token *)
  l_out : list token  (* the channel: tokens sent so far, newest first *)
}.

Definition set_pos (l : lexer) (p : nat) : lexer :=
  mkLexer p (l_line l) (l_lastnl l) (l_skipped l) (l_width l) (l_start l) (l_out l).
Definition set_pos_width (l : lexer) (p w : nat) : lexer :=
  mkLexer p (l_line l) (l_lastnl l) (l_skipped l) w (l_start l) (l_out l).
Definition set_skipped (l : lexer) (n : nat) : lexer :=
  mkLexer (l_pos l) (l_line l) (l_lastnl l) n (l_width l) (l_start l) (l_out l).
Definition set_line_lastnl (l : lexer) (ln nl : nat) : lexer :=
  mkLexer (l_pos l) ln nl (l_skipped l) (l_width l) (l_start l) (l_out l).
(* line++ ; skippedNewline++ ; lastnl = pos *)
Definition count_newline (l : lexer) : lexer :=
  mkLexer (l_pos l) (S (l_line l)) (l_pos l) (S (l_skipped l)) (l_width l) (l_start l) (l_out l).
Definition startNew (l : lexer) : lexer :=
  mkLexer (l_pos l) (l_line l) (l_lastnl l) (l_skipped l) (l_width l) (l_pos l) (l_out l).
Definition push (l : lexer) (t : token) : lexer :=
  mkLexer (l_pos l) (l_line l) (l_lastnl l) (l_skipped l) (l_width l) (l_start l) (t :: l_out l).

Definition lexer0 : lexer := mkLexer 0 0 0 0 0 0 [].

Definition nonspace (is_space is_control : rune -> bool) (r : rune) : bool :=
  negb (is_space r) && negb (is_control r) && negb (r =? RuneEOF)%Z.

(* SymbolMap[strings.ToLower(string(r))] / [.. string(r)+string(nr)]: every key is ASCII
   (checked with the tables), so only runes that lower-case into ASCII can match. *)
Definition ascii_byte (r : rune) : option N :=
  let r' := rune_lower r in if (0 <=? r')%Z && (r' <? 128)%Z then Some (Z.to_N r') else None.
Definition is_sym1 (r : rune) : bool :=
  match ascii_byte r with
  | Some b => match lookup SymbolMap [b] with Some _ => true | None => false end
  | None => false
  end.
Definition is_sym2 (r nr : rune) : bool :=
  match ascii_byte r, ascii_byte nr with
  | Some b, Some c => match lookup SymbolMap [b; c] with Some _ => true | None => false end
  | _, _ => false
  end.

Section Lex.
  Variables is_space is_control is_number : rune -> bool.
  (* true = the code in /repo: lexComment leaves lastnl alone after a line comment;
     false = with the one-line repair l.lastnl = l.pos *)
  Variable v_line_comment_keeps_lastnl : bool.
  Variable input : bytes.

  Definition ilen : nat := length input.

  (* l.next(0) *)
  Definition next0 (l : lexer) : rune * lexer :=
    if (ilen <=? l_pos l)%nat then (RuneEOF, l)
    else let '(r, w) := decode_rune (skipn (l_pos l) input) in
         (r, set_pos_width l (l_pos l + w) w).

  (* l.next(k) for k > 0: the rune at byte offset pos+k-1, nothing consumed *)
  Definition peek_at (p k : nat) : rune :=
    if (ilen <=? p)%nat then RuneEOF else fst (decode_rune (skipn (p + (k - 1)) input)).
  Definition peek (l : lexer) (k : nat) : rune := peek_at (l_pos l) k.

  (* l.backup(width): a negative position would make the next slice expression panic *)
  Definition backup (l : lexer) (width : nat) : outcome lexer :=
    let w := if (width =? 0)%nat then l_width l else width in
    if (l_pos l <? w)%nat then Panic "lexer.backup: negative position"
    else Ok (set_pos l (l_pos l - w)).

  (* l.input[a:b] *)
  Definition slice (a b : Z) : outcome bytes :=
    if ((0 <=? a) && (a <=? b) && (b <=? Z.of_nat ilen))%Z
    then Ok (firstn (Z.to_nat (b - a)) (skipn (Z.to_nat a) input))
    else Panic "lexer: slice bounds out of range".

  Definition zpos (l : lexer) : Z := Z.of_nat (l_pos l).
  Definition zstart (l : lexer) : Z := Z.of_nat (l_start l).

  (* the position stamp shared by emitToken, emitTokenAndValue and emitError:
     Pos = start, Lline = line + 1, Lpos = start - lastnl + 1 *)
  Definition stamp (l : lexer) (id : nat) (val : bytes) (ident esc : bool) : token :=
    mkTok id (l_start l) val ident esc (l_skipped l)
          (Z.of_nat (l_line l) + 1) (Z.of_nat (l_start l) - Z.of_nat (l_lastnl l) + 1).

  Definition emitTokenAndValue (l : lexer) (id : nat) (val : bytes) (ident esc : bool) : lexer :=
    push l (stamp l id val ident esc).
  Definition emitToken (l : lexer) (id : nat) : outcome lexer :=
    if (id =? TokenEOF)%nat then Ok (emitTokenAndValue l id [] false false)
    else v <- slice (zstart l) (zpos l) ;; Ok (push l (stamp l id v false false)).
  Definition emitError (l : lexer) (cls : bytes) : lexer :=
    push l (stamp l TokenError cls false false).
  Definition emitEOF (l : lexer) : lexer := emitTokenAndValue l TokenEOF [] false false.

  (* ---- skipWhiteSpace *)
  Fixpoint sws_loop (fuel : nat) (r : rune) (l : lexer) : outcome (bool * lexer) :=
    if is_space r || is_control r || (r =? RuneEOF)%Z then
      match fuel with
      | O => OutOfFuel
      | S f =>
        let l1 := if (r =? 10)%Z then count_newline l else l in
        let '(r', l2) := next0 l1 in
        if (r' =? RuneEOF)%Z then Ok (false, emitEOF l2) else sws_loop f r' l2
      end
    else l' <- backup l 0 ;; Ok (true, l').

  Definition skipWhiteSpace (l : lexer) : outcome (bool * lexer) :=
    let '(r, l1) := next0 l in sws_loop (S ilen) r (set_skipped l1 0).

  (* ---- lexTextBlock *)
  Definition block_end (r : rune) (l : lexer) : outcome lexer :=
    if (r =? RuneEOF)%Z then Ok l else backup l 0.

  Fixpoint ltb_loop (fuel : nat) (interp : bool) (r : rune) (l : lexer) : outcome lexer :=
    if nonspace is_space is_control r then
      match fuel with
      | O => OutOfFuel
      | S f =>
        if interp && is_sym1 r then backup l 0
        else if interp && is_sym2 r (peek l 1) then backup l 0
        else let '(r', l') := next0 l in ltb_loop f interp r' l'
      end
    else block_end r l.

  Definition lexTextBlock (l : lexer) (interp : bool) : outcome lexer :=
    let '(r, l1) := next0 l in
    if interp && is_sym2 r (peek l1 1) then Ok (snd (next0 l1))
    else if interp && is_sym1 r then Ok l1
    else ltb_loop (S ilen) interp r l1.

  (* ---- lexNumberBlock *)
  Fixpoint lnb_loop (fuel : nat) (r : rune) (l : lexer) : outcome lexer :=
    if nonspace is_space is_control r then
      match fuel with
      | O => OutOfFuel
      | S f =>
        if negb (is_number r) && negb (r =? 46)%Z then
          if (r =? 101)%Z then
            if negb (peek l 1 =? 43)%Z || negb (is_number (peek l 2)) then block_end r l
            else let '(r', l') := next0 (snd (next0 (snd (next0 l)))) in lnb_loop f r' l'
          else block_end r l
        else let '(r', l') := next0 l in lnb_loop f r' l'
      end
    else block_end r l.

  Definition lexNumberBlock (l : lexer) : outcome lexer :=
    let '(r, l1) := next0 l in lnb_loop (S ilen) r l1.

  (* ---- lexToken *)
  Definition lexToken (l : lexer) : outcome (option lstate * lexer) :=
    let n1 := peek l 1 in
    let n2 := peek l 2 in
    if ((n1 =? 47) && (n2 =? 42) || (n1 =? 35))%Z then Ok (Some SComment, l)
    else if ((n1 =? 34) || (n1 =? 39) || (n1 =? 114) && ((n2 =? 34) || (n2 =? 39)))%Z
    then Ok (Some SValue, l)
    else
      let l := startNew l in
      l <- lexNumberBlock l ;;
      cand <- slice (zstart l) (zpos l) ;;
      let kw := lower_bytes cand in
      if number_pattern kw && parse_float_ok kw
      then Ok (Some SToken, emitTokenAndValue l TokenNUMBER kw false false)
      else
        l <- (if (0 <? length kw)%nat then backup l (l_pos l - l_start l) else Ok l) ;;
        l <- lexTextBlock l true ;;
        ident <- slice (zstart l) (zpos l) ;;
        let kw := lower_bytes ident in
        match (match lookup KeywordMap kw with Some t => Some t | None => lookup SymbolMap kw end) with
        | Some t => l <- emitToken l t ;; Ok (Some SToken, l)
        | None =>
          if negb (name_pattern kw) then Ok (None, emitError l ErrIdentifier)
          else Ok (Some SToken, emitTokenAndValue l TokenIDENTIFIER ident true false)
        end.

  (* ---- lexValue *)
  (* [escaped]: the current rune is escaped by a backslash (the flag introduced by the fix:
     commit for C08; before it the test was "the previous rune is a backslash") *)
  Fixpoint lv_loop (fuel : nat) (allow : bool) (endT r : rune) (escaped : bool) (lLine lLastnl : nat)
           (l : lexer) : outcome (option lstate * lexer) :=
    if (negb allow && negb (r =? endT)%Z) || (allow && (negb (r =? endT)%Z || escaped)) then
      match fuel with
      | O => OutOfFuel
      | S f =>
        let lLine' := if (r =? 10)%Z then S lLine else lLine in
        let lLastnl' := if (r =? 10)%Z then l_pos l else lLastnl in
        let '(r', l') := next0 l in
        if (r' =? RuneEOF)%Z then Ok (None, emitError l' ErrUnclosedString)
        else lv_loop f allow endT r' (negb escaped && (r =? 92)%Z) lLine' lLastnl' l'
      end
    else if allow then
      val <- slice (zstart l + 1) (zpos l - 1) ;;
      let val := if (endT =? 39)%Z then escape_dq val else val in
      match unquote (34 :: val ++ [34]) with
      | None => Ok (None, emitError l ErrUnquote)
      | Some s => Ok (Some SToken, set_line_lastnl (emitTokenAndValue l TokenSTRING s false true) lLine lLastnl)
      end
    else
      val <- slice (zstart l + 2) (zpos l - 1) ;;
      Ok (Some SToken, set_line_lastnl (emitTokenAndValue l TokenSTRING val false false) lLine lLastnl).

  Definition lexValue (l : lexer) : outcome (option lstate * lexer) :=
    let l := startNew l in
    let '(r, l) := next0 l in
    let q := peek l 1 in
    let raw := ((r =? 114) && ((q =? 34) || (q =? 39)))%Z in
    let l1 := if raw then snd (next0 l) else l in
    let endT := if raw then q else r in
    let '(r1, l2) := next0 l1 in
    lv_loop (S ilen) (negb raw) endT r1 false (l_line l2) (l_lastnl l2) l2.

  (* ---- lexComment *)
  Fixpoint lc_line_loop (fuel : nat) (r : rune) (l : lexer) : outcome (rune * lexer) :=
    if negb (r =? 10)%Z && negb (r =? RuneEOF)%Z then
      match fuel with
      | O => OutOfFuel
      | S f => let '(r', l') := next0 l in lc_line_loop f r' l'
      end
    else Ok (r, l).

  Fixpoint lc_block_loop (fuel : nat) (r : rune) (lLine lLastnl : nat) (l : lexer)
    : outcome (option lstate * lexer) :=
    if negb (r =? 42)%Z || negb (peek l 1 =? 47)%Z then
      match fuel with
      | O => OutOfFuel
      | S f =>
        let lLine' := if (r =? 10)%Z then S lLine else lLine in
        let lLastnl' := if (r =? 10)%Z then l_pos l else lLastnl in
        let '(r', l') := next0 l in
        if (r' =? RuneEOF)%Z then Ok (None, emitError l' ErrUnclosedComment)
        else lc_block_loop f r' lLine' lLastnl' l'
      end
    else
      val <- slice (zstart l) (zpos l - 1) ;;
      let l := emitTokenAndValue l TokenPRECOMMENT val false false in
      let l := snd (next0 l) in
      Ok (Some SToken, set_line_lastnl l lLine lLastnl).

  Definition lexComment (l : lexer) : outcome (option lstate * lexer) :=
    let '(r, l) := next0 l in
    if (r =? 35)%Z then
      let l := startNew l in
      '(r', l) <- lc_line_loop (S ilen) r l ;;
      val <- slice (zstart l) (zpos l) ;;
      let l := emitTokenAndValue l TokenPOSTCOMMENT val false false in
      if (r' =? RuneEOF)%Z then Ok (None, l)
      else
        (* l.line++   (the repair adds: l.lastnl = l.pos) *)
        Ok (Some SToken, set_line_lastnl l (S (l_line l))
                           (if v_line_comment_keeps_lastnl then l_lastnl l else l_pos l))
    else
      let l := snd (next0 l) in
      let lLine := l_line l in
      let lLastnl := l_lastnl l in
      let l := startNew l in
      let '(r, l) := next0 l in
      lc_block_loop (S ilen) r lLine lLastnl l.

  (* ---- run *)
  Definition step (st : lstate) (l : lexer) : outcome (option lstate * lexer) :=
    match st with
    | SToken => lexToken l
    | SValue => lexValue l
    | SComment => lexComment l
    end.

  Fixpoint run_loop (fuel : nat) (st : lstate) (l : lexer) : outcome lexer :=
    match fuel with
    | O => OutOfFuel
    | S f =>
      '(nxt, l1) <- step st l ;;
      '(more, l2) <- skipWhiteSpace l1 ;;
      if negb more then Ok l2
      else match nxt with
           | None => Ok l2
           | Some st' => run_loop f st' l2
           end
    end.

  Definition run_fuel : nat := (2 * ilen + 2)%nat.

  Definition run : outcome lexer :=
    '(more, l) <- skipWhiteSpace lexer0 ;;
    if more then run_loop run_fuel SToken l else Ok l.

  Definition lex_with : outcome (list token) := l <- run ;; Ok (rev (l_out l)).
End Lex.

Definition lex_variant (keeps : bool) (input : bytes) : outcome (list token) :=
  lex_with uni_is_space uni_is_control uni_is_number keeps input.

(* parser.LexToList as it is in /repo *)
Definition lex (input : bytes) : outcome (list token) := lex_variant true input.

(* parser.LexToList with the one-line repair of lexComment *)
Definition lex_repaired (input : bytes) : outcome (list token) := lex_variant false input.
