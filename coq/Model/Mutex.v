(* Model/Mutex.v — named mutex blocks of interpreter/rt_statements.go (mutexRuntime.Eval)
   with the tables of interpreter/provider.go (Mutexes, MutexeOwners, guarded by
   MutexesMutex).  No proofs in this file.

   Go code followed (one model step per lock-delimited region, in program order):

     rt.erp.MutexesMutex.Lock()                         -- step LOOKUP (one region)
     mutex, ok := rt.erp.Mutexes[name]; if !ok { create, store }
     owner, ok := rt.erp.MutexeOwners[name]                (the owner is READ inside this region)
     rt.erp.MutexesMutex.Unlock()
     if !ok || owner != tid {
        mutex.Lock()                                    -- step LOCK (blocking: enabled only when free)
        MutexesMutex.Lock(); MutexeOwners[name] = tid; MutexesMutex.Unlock()   -- step SETOWNER
        defer func() {
           MutexesMutex.Lock(); MutexeOwners[name] = 0; MutexesMutex.Unlock()  -- step CLEAROWNER
           mutex.Unlock()                               -- step UNLOCK
        }()
     }                                                  (else: re-entry, nothing locked, no defer)
     res, err = body.Eval(...)                          -- body steps
     return res, err                                    (every completion of the body - value,
                                                         error, return, break, continue - is a
                                                         plain Go return: the deferred function runs)

   All accesses to the two tables happen inside MutexesMutex regions, so each region is one
   atomic step.  The Go mutex of a name is modelled with its holder (Go does not record one;
   the holder is ghost information used by the proofs only: LOCK is enabled iff unlocked,
   UNLOCK of an unlocked mutex is Go's "fatal error: sync: unlock of unlocked mutex",
   an explicit outcome [fatal]).

   A thread's program is the sequence of block entries / exits / counter increments it
   performs ([op]); [flatten] produces it from a tree of nested blocks in which every block
   carries the kind of completion that leaves it. *)
From Coq Require Export List NArith Bool Arith.
Export ListNotations.

(* how the body of a block completes *)
Inductive exitk := XNormal | XError | XReturn | XBreak | XContinue.

(* programs as trees: a block of a name with a body and the completion kind that leaves it
   (an abrupt completion that travels through several blocks gives every one of them that kind) *)
Inductive blk :=
| BInc                                            (* counter := counter + 1 as read; write *)
| BMutex (n : N) (body : list blk) (k : exitk).

Inductive op := OEnter (n : N) | OLeave (k : exitk) | OInc.

Fixpoint flatten (b : blk) : list op :=
  match b with
  | BInc => [OInc]
  | BMutex n body k => OEnter n :: flat_map flatten body ++ [OLeave k]
  end.
Definition flatten_list (l : list blk) : list op := flat_map flatten l.

(* where a thread is inside the code above *)
Inductive pcs :=
| PIdle                 (* between operations / executing the body *)
| PWant (n : N)         (* LOOKUP done, owner differed: about to call mutex.Lock() *)
| PLocked (n : N)       (* mutex.Lock() returned, owner not yet registered *)
| PUnlock (n : N)       (* deferred function: owner cleared, about to call mutex.Unlock() *)
| PWrite (v : N).       (* counter read as v, about to write v+1 *)

Record thread := mkThread {
  tid : N;                        (* thread id handed to Eval *)
  pc : pcs;
  stack : list (N * bool);        (* entered blocks, innermost first; flag: this entry locked *)
  ops : list op                   (* what is left to do (head = current operation) *)
}.

Record shared := mkShared {
  mtx : N -> option (option N);   (* Mutexes: None = no entry, Some None = unlocked, Some (Some t) = locked (by t) *)
  own : N -> option N;            (* MutexeOwners: None = no entry *)
  ctr : N;                        (* a shared variable of the program *)
  fatal : bool                    (* the Go runtime aborted the process *)
}.

Record state := mkState { sh : shared; thr : list thread }.

Inductive event := EvEnter (t n : N) | EvLeave (t n : N).

Definition upd {A} (f : N -> A) (n : N) (v : A) : N -> A :=
  fun m => if N.eqb m n then v else f m.

Definition names (st : list (N * bool)) : list N := map fst st.

(* mutex, ok := Mutexes[name]; if !ok { mutex = &sync.Mutex{}; Mutexes[name] = mutex } *)
Definition lookup_or_create (m : N -> option (option N)) (n : N) : N -> option (option N) :=
  match m n with
  | None => upd m n (Some None)
  | Some _ => m
  end.

(* one step of thread t on the shared tables: new tables, new thread, observable event *)
Definition tstep (s : shared) (t : thread) : option (shared * thread * option event) :=
  match pc t with
  | PWant n =>
      match mtx s n with
      | Some None =>
          Some (mkShared (upd (mtx s) n (Some (Some (tid t)))) (own s) (ctr s) (fatal s),
                mkThread (tid t) (PLocked n) (stack t) (ops t), None)
      | _ => None                                   (* locked: the goroutine is blocked *)
      end
  | PLocked n =>
      Some (mkShared (mtx s) (upd (own s) n (Some (tid t))) (ctr s) (fatal s),
            mkThread (tid t) PIdle ((n, true) :: stack t) (tl (ops t)),
            Some (EvEnter (tid t) n))
  | PUnlock n =>
      match mtx s n with
      | Some (Some _) =>
          Some (mkShared (upd (mtx s) n (Some None)) (own s) (ctr s) (fatal s),
                mkThread (tid t) PIdle (stack t) (ops t), None)
      | _ =>                                        (* unlock of an unlocked mutex *)
          Some (mkShared (mtx s) (own s) (ctr s) true,
                mkThread (tid t) PIdle (stack t) (ops t), None)
      end
  | PWrite v =>
      Some (mkShared (mtx s) (own s) (v + 1)%N (fatal s),
            mkThread (tid t) PIdle (stack t) (tl (ops t)), None)
  | PIdle =>
      match ops t with
      | [] => None                                  (* finished *)
      | OEnter n :: rest =>
          let s1 := mkShared (lookup_or_create (mtx s) n) (own s) (ctr s) (fatal s) in
          match own s n with
          | Some o =>
              if N.eqb o (tid t)
              then Some (s1, mkThread (tid t) PIdle ((n, false) :: stack t) rest,
                         Some (EvEnter (tid t) n))  (* ok && owner == tid: re-entry *)
              else Some (s1, mkThread (tid t) (PWant n) (stack t) (ops t), None)
          | None => Some (s1, mkThread (tid t) (PWant n) (stack t) (ops t), None)
          end
      | OLeave k :: rest =>
          match stack t with
          | [] => Some (s, mkThread (tid t) PIdle [] rest, None)   (* no enclosing block: not produced by [flatten] *)
          | (n, true) :: st =>
              Some (mkShared (mtx s) (upd (own s) n (Some 0%N)) (ctr s) (fatal s),
                    mkThread (tid t) (PUnlock n) st rest,
                    Some (EvLeave (tid t) n))
          | (n, false) :: st =>
              Some (s, mkThread (tid t) PIdle st rest, Some (EvLeave (tid t) n))
          end
      | OInc :: _ =>
          Some (s, mkThread (tid t) (PWrite (ctr s)) (stack t) (ops t), None)
      end
  end.

Fixpoint set_nth {A} (i : nat) (x : A) (l : list A) : list A :=
  match l with
  | [] => []
  | y :: r => match i with O => x :: r | S i' => y :: set_nth i' x r end
  end.

(* the scheduler picks thread number i *)
Definition step_ev (s : state) (i : nat) : option (state * option event) :=
  if fatal (sh s) then None else
  match nth_error (thr s) i with
  | None => None
  | Some t =>
      match tstep (sh s) t with
      | None => None
      | Some (s1, t1, e) => Some (mkState s1 (set_nth i t1 (thr s)), e)
      end
  end.

Definition step (s : state) (i : nat) : option state := option_map fst (step_ev s i).

(* the observable events of a schedule *)
Fixpoint trace_of (s : state) (sched : list nat) : list event :=
  match sched with
  | [] => []
  | i :: r =>
      match step_ev s i with
      | Some (s', e) => match e with Some e => e :: trace_of s' r | None => trace_of s' r end
      | None => []
      end
  end.

Definition init_shared : shared := mkShared (fun _ => None) (fun _ => None) 0%N false.

(* a system: thread ids with their programs *)
Definition init (specs : list (N * list op)) : state :=
  mkState init_shared (map (fun p => mkThread (fst p) PIdle [] (snd p)) specs).

Definition finished (t : thread) : Prop := pc t = PIdle /\ ops t = [].
Definition finishedb (t : thread) : bool :=
  match pc t, ops t with PIdle, [] => true | _, _ => false end.

(* thread t is inside a block of name n *)
Definition inside (t : thread) (n : N) : Prop := In n (names (stack t)).
(* nesting depth of name n *)
Definition depth (n : N) (st : list (N * bool)) : nat :=
  length (filter (fun p => N.eqb (fst p) n) st).

Definition count_inc (l : list op) : nat :=
  length (filter (fun o => match o with OInc => true | _ => false end) l).
