(* Model/ParseShared.v — C13: n parses sharing the package-level state of parser/ and
   interpreter/ (the grammar table astNodeMap, the instance counter), on Common/Sched.v.

   1. A GENERIC system: n threads, each a deterministic step machine over its own local state
      (core + an auxiliary component) that READS the shared state and may WRITE it.
   2. The CONCRETE instance: the parser's protocol on the shared state.  What a parser thread
      does to shared state is, in program order, a list of actions
         Fetch lb   parser.next(): look the token up in astNodeMap (only the entry for '{'
                    ever varies, so only "is it '{'" matters); the thread records the entry
                    it got for every '{' — its parse is a deterministic function of its own
                    text and of these look-ups
         Enter      ndGuard / ndLoop: just before p.run(0) of the if/elif/for expression
         Leave      just after it
         Alloc      newBaseRuntime: take the next instance id (runtime provider attached)
      in two protocols:
         Old  (code before the repair) Enter saves the table entry for '{' in a local and
              REPLACES it by the block entry; Leave writes the saved entry back
         New  (repaired code) Enter saves and sets a flag of the running parser
              (p.tokens.blockBrace), Leave restores it, Fetch consults flag and table;
              the table is never written
      Which protocol the model follows is decided by the static scan (gen/SharedWrites.v):
      Old iff some listed statement writes the grammar table.
   No proofs in this file. *)
From Coq Require Import String List NArith Bool.
Import ListNotations.
Local Open Scope list_scope.
From Ecal Require Import Common.Sched gen.SharedWrites.

(* ------------------------------------------------------------------ generic system *)

Fixpoint upd {A : Type} (l : list A) (i : nat) (x : A) : list A :=
  match l, i with
  | [], _ => []
  | _ :: r, O => x :: r
  | y :: r, S j => y :: upd r j x
  end.

Section Generic.
  Variables (shared view core aux : Type).
  Variable vw : shared -> view.                  (* the part of the shared state threads read *)
  Variable cstep : view -> core -> core.         (* one step of a thread on its own state *)
  Variable astep : shared -> core -> aux -> aux. (* values it merely receives (ids) *)
  Variable wstep : shared -> core -> shared.     (* what the step writes to shared state *)

  Definition gstate : Type := (shared * list (core * aux))%type.

  (* thread t takes one step; None: no such thread *)
  Definition gstep (s : gstate) (t : nat) : option gstate :=
    match nth_error (snd s) t with
    | None => None
    | Some (c, a) =>
        Some (wstep (fst s) c, upd (snd s) t (cstep (vw (fst s)) c, astep (fst s) c a))
    end.

  (* the thread alone: k steps against a fixed view *)
  Fixpoint iter_core (v : view) (k : nat) (c : core) : core :=
    match k with
    | O => c
    | S k' => iter_core v k' (cstep v c)
    end.
End Generic.
Arguments gstep {shared view core aux} vw cstep astep wstep s t.
Arguments iter_core {view core} cstep v k c.

(* ------------------------------------------------------------------ parser protocol *)

Inductive entry := EMap | EBlock.   (* astNodeMap[TokenLBRACE]: ndMap/150 or parseInnerStatements/0 *)
Inductive action := Fetch (lb : bool) | Enter | Leave | Alloc.
Inductive proto := Old | New.

Definition entry_eqb (a b : entry) : bool :=
  match a, b with EMap, EMap => true | EBlock, EBlock => true | _, _ => false end.

Record pcore := mkCore {
  pc_prog : list action;     (* what is left to do *)
  pc_baks : list entry;      (* Old: saved table entries (nodeMapEntryBak of nested guards) *)
  pc_fbaks : list bool;      (* New: saved flags (blockBraceBak) *)
  pc_flag : bool;            (* New: p.tokens.blockBrace *)
  pc_trace : list entry      (* the entry obtained for each '{' fetched so far *)
}.

Definition pshared : Type := (entry * N)%type.   (* table entry for '{', instanceCounter *)
Definition pview (sh : pshared) : entry := fst sh.

Definition lookup (p : proto) (v : entry) (c : pcore) : entry :=
  match p with
  | Old => v
  | New => if pc_flag c then EBlock else v
  end.

Definition pcstep (p : proto) (v : entry) (c : pcore) : pcore :=
  match pc_prog c with
  | [] => c
  | Fetch true :: r => mkCore r (pc_baks c) (pc_fbaks c) (pc_flag c) (pc_trace c ++ [lookup p v c])
  | Fetch false :: r => mkCore r (pc_baks c) (pc_fbaks c) (pc_flag c) (pc_trace c)
  | Alloc :: r => mkCore r (pc_baks c) (pc_fbaks c) (pc_flag c) (pc_trace c)
  | Enter :: r =>
      match p with
      | Old => mkCore r (v :: pc_baks c) (pc_fbaks c) (pc_flag c) (pc_trace c)
      | New => mkCore r (pc_baks c) (pc_flag c :: pc_fbaks c) true (pc_trace c)
      end
  | Leave :: r =>
      match p with
      | Old => mkCore r (tl (pc_baks c)) (pc_fbaks c) (pc_flag c) (pc_trace c)
      | New => mkCore r (pc_baks c) (tl (pc_fbaks c)) (hd false (pc_fbaks c)) (pc_trace c)
      end
  end.

Definition pwstep (p : proto) (sh : pshared) (c : pcore) : pshared :=
  match pc_prog c with
  | Enter :: _ => match p with Old => (EBlock, snd sh) | New => sh end
  | Leave :: _ => match p with Old => (hd (fst sh) (pc_baks c), snd sh) | New => sh end
  | Alloc :: _ => (fst sh, (snd sh + 1)%N)          (* atomic.AddUint64(&instanceCounter, 1) *)
  | _ => sh
  end.

Definition pastep (sh : pshared) (c : pcore) (ids : list N) : list N :=
  match pc_prog c with
  | Alloc :: _ => ids ++ [(snd sh + 1)%N]
  | _ => ids
  end.

Definition pthread : Type := (pcore * list N)%type.
Definition pstate : Type := (pshared * list pthread)%type.

Definition pstep (p : proto) : pstate -> nat -> option pstate :=
  gstep pview (pcstep p) pastep (pwstep p).

Definition pdone (c : pcore) : bool := match pc_prog c with [] => true | _ => false end.

Definition core0 (prog : list action) : pcore := mkCore prog [] [] false [].
Definition pinit (tbl : entry) (ctr : N) (progs : list (list action)) : pstate :=
  ((tbl, ctr), map (fun pr => (core0 pr, [])) progs).

Definition traces (s : pstate) : list (list entry) := map (fun th => pc_trace (fst th)) (snd s).

(* the parse of one text alone: the same system with this single thread, every action once *)
Definition seq_state (p : proto) (tbl : entry) (prog : list action) : option pstate :=
  run (pstep p) (pinit tbl 0 [prog]) (repeat 0 (List.length prog)).
Definition seq_trace (p : proto) (tbl : entry) (prog : list action) : list entry :=
  match seq_state p tbl prog with
  | Some s => hd [] (traces s)
  | None => []
  end.

(* ... which, when nothing writes the table, is the thread stepping against a fixed table *)
Definition seq_core (p : proto) (tbl : entry) (prog : list action) : pcore :=
  iter_core (pcstep p) tbl (List.length prog) (core0 prog).

Definition all_done (s : pstate) : bool := forallb (fun th => pdone (fst th)) (snd s).
Definition all_ids (s : pstate) : list N := concat (map snd (snd s)).

(* ------------------------------------------------------------------ which protocol is the code? *)

Definition grammar_table_var : String.string := "github.com/krotik/ecal/parser.astNodeMap"%string.
Definition counter_var : String.string := "github.com/krotik/ecal/interpreter.instanceCounter"%string.

Definition writes_var (v : String.string) (ws : list shared_write) : bool :=
  existsb (fun w => String.eqb (sa_var w) v) ws.

Definition proto_of_scan (ws : list shared_write) : proto :=
  if writes_var grammar_table_var ws then Old else New.

(* ------------------------------------------------------------------ big steps (hook granularity) *)

(* The hook "parser.guard.block" sits right after Enter.  A big step of thread t: run it until
   it has just executed an Enter, or until it is finished. *)
Fixpoint big_step (p : proto) (fuel : nat) (s : pstate) (t : nat) : option pstate :=
  match fuel with
  | O => Some s
  | S f =>
      match nth_error (snd s) t with
      | None => None
      | Some (c, _) =>
          match pc_prog c with
          | [] => Some s
          | Enter :: _ => pstep p s t
          | _ => match pstep p s t with
                 | Some s1 => big_step p f s1 t
                 | None => None
                 end
          end
      end
  end.

Definition prog_fuel (progs : list (list action)) : nat :=
  S (fold_right (fun pr n => List.length pr + n) 0 progs).

Definition run_big (p : proto) (progs : list (list action)) (sched : list nat) : option pstate :=
  run (fun s t => big_step p (prog_fuel progs) s t) (pinit EMap 0 progs) sched.

(* ------------------------------------------------------------------ the unsynchronised counter (Old) *)

(* instanceCounter++ ; fmt.Sprint(instanceCounter) without synchronisation: a load and a store *)
Record cthread := mkCT { ct_tmp : option N; ct_ids : list N }.
Definition cstate : Type := (N * list cthread)%type.
Definition old_counter_step (s : cstate) (t : nat) : option cstate :=
  match nth_error (snd s) t with
  | None => None
  | Some th =>
      match ct_tmp th with
      | None => Some (fst s, upd (snd s) t (mkCT (Some (fst s)) (ct_ids th)))
      | Some v => Some ((v + 1)%N, upd (snd s) t (mkCT None (ct_ids th ++ [(v + 1)%N])))
      end
  end.
