(* Model/Scope.v — executable model of /repo/scope/varsscope.go (REPAIRED code, see
   fixes/C05-map-number-keys.patch): the scope tree (named children are re-used by
   NewChild), per scope storage, getScopeForVariable, setValue / SetLocalValue / getValue
   on dotted access paths over a heap of containers (Go maps and slices are references).
   A Go panic is the explicit outcome [Panic site] (after the repairs of C06 no reachable one is
   left in this code: only a nil scope / dangling reference, which the API cannot produce); no
   proofs in this file.

   Numbers: float64 values that are integral are modelled by Z (the generators only
   produce small integers); strings are byte lists. *)
From Coq Require Import ZArith String.
From Ecal Require Import Common.Bytes Common.Outcome.
Open Scope nat_scope.

Definition name := bytes.

Inductive key := KNum (z : Z) | KStr (s : bytes).

Inductive val :=
| VNull
| VBool (b : bool)
| VNum (z : Z)
| VStr (s : bytes)
| VRef (a : nat)      (* a list or a map: address of a cell of the heap *)
| VFun (id : nat).    (* some function object (opaque to the scope) *)

Inductive cell :=
| CList (l : list val)                 (* []interface{} *)
| CMap (m : list (key * val)).         (* map[interface{}]interface{}: keys are unique *)

Definition heap := list cell.

Definition key_eqb (a b : key) : bool :=
  match a, b with
  | KNum x, KNum y => Z.eqb x y
  | KStr x, KStr y => bytes_eqb x y
  | _, _ => false
  end.

Definition is_null (v : val) : bool := match v with VNull => true | _ => false end.

(* ---- association lists: Go maps ------------------------------------------------- *)
Section Assoc.
  Context {K V : Type} (eqb : K -> K -> bool).
  Fixpoint assoc_get (k : K) (m : list (K * V)) : option V :=
    match m with
    | [] => None
    | (k', v) :: m' => if eqb k' k then Some v else assoc_get k m'
    end.
  (* m[k] = v: update in place or add *)
  Fixpoint assoc_set (k : K) (v : V) (m : list (K * V)) : list (K * V) :=
    match m with
    | [] => [(k, v)]
    | (k', v') :: m' => if eqb k' k then (k', v) :: m' else (k', v') :: assoc_set k v m'
    end.
  Fixpoint assoc_del (k : K) (m : list (K * V)) : list (K * V) :=
    match m with
    | [] => []
    | (k', v') :: m' => if eqb k' k then m' else (k', v') :: assoc_del k m'
    end.
  Definition assoc_has (k : K) (m : list (K * V)) : bool :=
    match assoc_get k m with Some _ => true | None => false end.
End Assoc.

Definition store := list (name * val).
Definition store_get := @assoc_get name val bytes_eqb.
Definition store_set := @assoc_set name val bytes_eqb.
Definition store_has := @assoc_has name val bytes_eqb.
Definition map_get := @assoc_get key val key_eqb.
Definition map_set := @assoc_set key val key_eqb.
Definition map_del := @assoc_del key val key_eqb.
Definition map_has := @assoc_has key val key_eqb.

(* ---- strings.Split(s, ".") and strconv.Atoi -------------------------------------- *)
Definition DOT : N := 46%N.

Fixpoint split_dot_aux (cur : bytes) (s : bytes) : list bytes :=
  match s with
  | [] => [rev cur]
  | c :: s' => if N.eqb c DOT then rev cur :: split_dot_aux [] s' else split_dot_aux (c :: cur) s'
  end.
Definition split_dot (s : bytes) : list bytes := split_dot_aux [] s.

Definition is_digit (c : N) : bool := (N.leb 48 c && N.leb c 57)%N.

Fixpoint digits_val (acc : Z) (s : bytes) : option Z :=
  match s with
  | [] => Some acc
  | c :: s' => if is_digit c then digits_val (acc * 10 + Z.of_N (c - 48)%N)%Z s' else None
  end.

(* strconv.Atoi: optional sign, at least one digit, digits only *)
Definition atoi (s : bytes) : option Z :=
  match s with
  | [] => None
  | c :: s' =>
    if N.eqb c 45 then match s' with [] => None | _ => option_map Z.opp (digits_val 0%Z s') end
    else if N.eqb c 43 then match s' with [] => None | _ => digits_val 0%Z s' end
    else digits_val 0%Z s
  end.

(* ---- scopes --------------------------------------------------------------------- *)
Record scope := mkScope {
  sc_name : bytes;
  sc_parent : option nat;        (* varsScope.parent *)
  sc_children : list nat;        (* varsScope.children *)
  sc_store : store               (* varsScope.storage *)
}.

Record sstate := mkSS {
  ss_scopes : list scope;        (* arena: a *varsScope is an index *)
  ss_heap : heap
}.

Definition get_scope (st : sstate) (s : nat) : option scope := nth_error (ss_scopes st) s.

Fixpoint list_upd {A} (l : list A) (i : nat) (x : A) : list A :=
  match l, i with
  | [], _ => []
  | _ :: l', O => x :: l'
  | y :: l', S i' => y :: list_upd l' i' x
  end.

Definition upd_scope (st : sstate) (s : nat) (sc : scope) : sstate :=
  mkSS (list_upd (ss_scopes st) s sc) (ss_heap st).

Definition with_store (sc : scope) (m : store) : scope :=
  mkScope (sc_name sc) (sc_parent sc) (sc_children sc) m.

(* NewScope / NewScopeWithParent: a new varsScope that is not tracked as a child *)
Definition new_scope (st : sstate) (nm : bytes) (parent : option nat) : sstate * nat :=
  (mkSS (ss_scopes st ++ [mkScope nm parent [] []]) (ss_heap st), length (ss_scopes st)).

Fixpoint find_child (scs : list scope) (nm : bytes) (cs : list nat) : option nat :=
  match cs with
  | [] => None
  | c :: cs' =>
    match nth_error scs c with
    | Some sc => if bytes_eqb (sc_name sc) nm then Some c else find_child scs nm cs'
    | None => find_child scs nm cs'
    end
  end.

(* NewChild: "for _, c := range s.children { if c.name == name { return c } }", else a new
   child that is appended to s.children *)
Definition new_child (st : sstate) (s : nat) (nm : bytes) : outcome (sstate * nat) :=
  match get_scope st s with
  | None => Panic "NewChild: nil scope"
  | Some sc =>
    match find_child (ss_scopes st) nm (sc_children sc) with
    | Some c => Ok (st, c)
    | None =>
      let id := length (ss_scopes st) in
      let scs := list_upd (ss_scopes st) s
                   (mkScope (sc_name sc) (sc_parent sc) (sc_children sc ++ [id]) (sc_store sc)) in
      Ok (mkSS (scs ++ [mkScope nm (Some s) [] []]) (ss_heap st), id)
    end
  end.

(* getScopeForVariable: this scope or the nearest parent whose storage has the name.
   The Go recursion follows parent pointers; [fuel] bounds it (parents always have smaller
   indices in reachable states, Proofs/ScopeProofs.v, so [S s] is enough). *)
Fixpoint gsv (fuel : nat) (scs : list scope) (s : nat) (x : name) : outcome (option nat) :=
  match fuel with
  | O => OutOfFuel
  | S f =>
    match nth_error scs s with
    | None => Panic "getScopeForVariable: nil scope"
    | Some sc =>
      if store_has x (sc_store sc) then Ok (Some s)
      else match sc_parent sc with
           | Some p => gsv f scs p x
           | None => Ok None
           end
    end
  end.

Definition get_scope_for_variable (st : sstate) (s : nat) (x : name) : outcome (option nat) :=
  gsv (S s) (ss_scopes st) s x.

(* getValue of a name without dots *)
Definition get_simple (st : sstate) (s : nat) (x : name) : outcome (val * bool) :=
  obind (get_scope_for_variable st s x) (fun r =>
    match r with
    | Some t =>
      match get_scope st t with
      | Some sc => Ok (match store_get x (sc_store sc) with Some v => v | None => VNull end, true)
      | None => Panic "getValue: nil scope"
      end
    | None => Ok (VNull, false)
    end).

(* mapFieldKey (added by the repair): the key under which a path field is looked up in a
   map — an existing number key is preferred over the string key. *)
Definition map_field_key (m : list (key * val)) (f : bytes) : key :=
  match atoi f with
  | Some i => if map_has (KNum i) m then KNum i else KStr f
  | None => KStr f
  end.

(* list index of a path field: negative indices count from the end *)
Definition list_index (len : nat) (f : bytes) : outcome nat :=
  match atoi f with
  | None => Err "needs a number index"
  | Some i =>
    let i' := if (i <? 0)%Z then (Z.of_nat len + i)%Z else i in
    (* "index >= 0 && index < len(listContainer)" (since 07794bb: a negative index beyond the
       start of the list is an out of bounds error, it used to be a Go panic) *)
    if (0 <=? i')%Z && (i' <? Z.of_nat len)%Z then Ok (Z.to_nat i')
    else Err "out of bounds"
  end.

(* one step of the READ access (the closure containerAccess inside getValue) *)
Definition read_step (h : heap) (c : val) (f : bytes) : outcome val :=
  match c with
  | VRef a =>
    match nth_error h a with
    | Some (CMap m) =>
      Ok (match map_get (map_field_key m f) m with Some v => v | None => VNull end)
    | Some (CList l) =>
      obind (list_index (length l) f) (fun i => Ok (nth i l VNull))
    | None => Panic "dangling reference"
    end
  | _ => Err "not a container"
  end.

Fixpoint read_path (h : heap) (c : val) (fields : list bytes) : outcome val :=
  match fields with
  | [] => Ok c
  | f :: rest => obind (read_step h c f) (fun v => read_path h v rest)
  end.

(* getValue *)
Definition get_value (st : sstate) (s : nat) (varName : bytes) : outcome (val * bool) :=
  match split_dot varName with
  | [] => Panic "unreachable: strings.Split returns at least one element"
  | [x] => get_simple st s x
  | root :: fields =>
    obind (get_simple st s root) (fun r =>
      let '(c, ok) := r in
      if negb ok then Ok (VNull, false)
      else obind (read_path (ss_heap st) c fields) (fun v => Ok (v, negb (is_null v))))
  end.

(* one step of the WRITE access (method containerAccess): a missing map field is an error *)
Definition walk_step (h : heap) (c : val) (f : bytes) : outcome val :=
  match c with
  | VRef a =>
    match nth_error h a with
    | Some (CMap m) =>
      match map_get (map_field_key m f) m with
      | Some v => Ok v
      | None => Err "container field does not exist"
      end
    | Some (CList l) =>
      obind (list_index (length l) f) (fun i => Ok (nth i l VNull))
    | None => Panic "dangling reference"
    end
  | _ => Err "not a container"
  end.

Fixpoint walk_path (h : heap) (c : val) (fields : list bytes) : outcome val :=
  match fields with
  | [] => Ok c
  | f :: rest => obind (walk_step h c f) (fun v => walk_path h v rest)
  end.

(* the final store of setValue into the container reached (REPAIRED: a null container is
   "not a container" like any other scalar; the original code silently did nothing) *)
Definition write_field (h : heap) (c : val) (f : bytes) (v : val) : outcome heap :=
  match c with
  | VRef a =>
    match nth_error h a with
    | Some (CMap m) => Ok (list_upd h a (CMap (map_set (map_field_key m f) v m)))
    | Some (CList l) =>
      obind (list_index (length l) f) (fun i => Ok (list_upd h a (CList (list_upd l i v))))
    | None => Panic "dangling reference"
    end
  | _ => Err "not a container"
  end.

Definition set_simple (st : sstate) (s : nat) (x : name) (v : val) : outcome sstate :=
  obind (get_scope_for_variable st s x) (fun r =>
    let t := match r with Some t => t | None => s end in
    match get_scope st t with
    | Some sc => Ok (upd_scope st t (with_store sc (store_set x v (sc_store sc))))
    | None => Panic "setValue: nil scope"
    end).

(* setValue *)
Definition set_value (st : sstate) (s : nat) (varName : bytes) (v : val) : outcome sstate :=
  match split_dot varName with
  | [] => Panic "unreachable: strings.Split returns at least one element"
  | [x] => set_simple st s x v
  | root :: fields =>
    obind (get_simple st s root) (fun r =>
      let '(c, ok) := r in
      if negb ok then Err "not a container"
      else
        obind (walk_path (ss_heap st) c (removelast fields)) (fun c' =>
        obind (write_field (ss_heap st) c' (last fields []) v) (fun h' =>
          Ok (mkSS (ss_scopes st) h'))))
  end.

(* SetLocalValue: "s.storage[strings.Split(varName, ".")[0]] = nil" and then setValue *)
Definition set_local_value (st : sstate) (s : nat) (varName : bytes) (v : val) : outcome sstate :=
  match get_scope st s with
  | None => Panic "SetLocalValue: nil scope"
  | Some sc =>
    let x := hd [] (split_dot varName) in
    set_value (upd_scope st s (with_store sc (store_set x VNull (sc_store sc)))) s varName v
  end.

(* the first half of SetLocalValue on its own: it takes effect even when the setValue that
   follows returns an error *)
Definition declare_local (st : sstate) (s : nat) (varName : bytes) : outcome sstate :=
  match get_scope st s with
  | None => Panic "SetLocalValue: nil scope"
  | Some sc =>
    Ok (upd_scope st s (with_store sc (store_set (hd [] (split_dot varName)) VNull (sc_store sc))))
  end.

(* allocation of a container (a map or list literal) *)
Definition alloc (st : sstate) (c : cell) : sstate * val :=
  (mkSS (ss_scopes st) (ss_heap st ++ [c]), VRef (length (ss_heap st))).

Definition empty_state : sstate := mkSS [] [].

(* ---- the scope API as a state machine (used by the correspondence check and by the
   law about sequences of operations) ------------------------------------------------- *)
Inductive sop :=
| ONewScope (nm : bytes) (parent : option nat)   (* NewScope / NewScopeWithParent *)
| ONewChild (s : nat) (nm : bytes)
| OSet (s : nat) (path : bytes) (v : val)
| OLet (s : nat) (path : bytes) (v : val)
| OAlloc (c : cell).

Definition step (st : sstate) (op : sop) : outcome sstate :=
  match op with
  | ONewScope nm None => Ok (fst (new_scope st nm None))
  | ONewScope nm (Some q) =>
    if q <? length (ss_scopes st) then Ok (fst (new_scope st nm (Some q))) else Panic "nil scope"
  | ONewChild s nm => obind (new_child st s nm) (fun r => Ok (fst r))
  | OSet s path v => if s <? length (ss_scopes st) then set_value st s path v else Panic "nil scope"
  | OLet s path v => if s <? length (ss_scopes st) then set_local_value st s path v else Panic "nil scope"
  | OAlloc c => Ok (fst (alloc st c))
  end.

Fixpoint run_ops (st : sstate) (ops : list sop) : outcome sstate :=
  match ops with
  | [] => Ok st
  | op :: rest => obind (step st op) (fun st' => run_ops st' rest)
  end.
