(* Model/Adapter.v — the Go function bridge, stdlib/adapter.go (ECALFunctionAdapter.Run,
   convertNumber, convertResultNumber) together with the part of reflect.Value.Call that
   decides whether the callee is entered.  No proofs in this file.

   Go code followed, branch by branch:

     Run(args):
       defer recover -> err = "Error: <panic value>"                      [recover_]
       for i, arg := range args {                                         [build_args]
         if i == NumIn()            -> return error "Too many parameters"
         expected := In(i)
         if arg is float64          -> arg = convertNumber(arg, expected) [convert_number]
         given := reflect.TypeOf(arg)          (nil for a nil argument)
         if given != expected &&
            !(expected.Kind()==Interface && given.Kind()==Interface && ...)   (given.Kind() on the
                                     nil Type of a NULL argument dereferences nil: a panic)
            && expected != []interface{}  -> return error "Parameter i should be of type ..."
         fargs = append(fargs, reflect.ValueOf(arg)) }
       vals := funcval.Call(fargs)                                        [reflect_call]
            reflect: too few / too many arguments, a zero Value (from nil), a value that is
            not assignable to its parameter or to the element type of the variadic
            parameter -> panic; otherwise the callee runs (returns values or panics)
       for i, v := range vals {                                           [conv_results]
         last result of type error: non-nil -> err, never part of the results
         otherwise convertResultNumber: (u)int* -> float64(v.Int()/v.Uint()),
                                        float32/float64 -> v.Float() }
       one result -> the value itself, otherwise the list                  [finish]

   Numbers.  ECAL numbers are float64; they are modelled as [spec_float] (sign, integer
   mantissa, binary exponent: the IEEE-754 specification of the Coq standard library,
   Floats/SpecFloat.v; definitions only, no axioms).  Integers are Z.
   * float64 -> (u)intN:  truncation toward zero when the truncated value lies in the range of
     the target kind.  Outside that range (and for NaN / infinities) the Go specification
     makes the result implementation-dependent: it is the parameter [oor] of the model; the
     conversion never panics.  int, uint and uintptr are 64 bits wide (the platform the
     check runs on; stated as an assumption of the check).
   * float64 -> float32:  IEEE round-to-nearest-even to 24 bits ([binary_round 24 128]).
   * (u)intN -> float64:  IEEE round-to-nearest-even to 53 bits ([binary_normalize 53 1024]).
*)
From Coq Require Import ZArith NArith List Bool String Floats.SpecFloat.
From Ecal Require Import Common.Outcome.
Import ListNotations.
Local Open Scope Z_scope.

(* ---------------------------------------------------------------- Go types *)

Inductive ikind :=
| KInt | KInt8 | KInt16 | KInt32 | KInt64
| KUint | KUint8 | KUint16 | KUint32 | KUint64 | KUintptr.

Definition ik_min (k : ikind) : Z :=
  match k with
  | KInt | KInt64 => - 2^63
  | KInt8 => - 2^7
  | KInt16 => - 2^15
  | KInt32 => - 2^31
  | _ => 0
  end.

Definition ik_max (k : ikind) : Z :=
  match k with
  | KInt | KInt64 => 2^63 - 1
  | KInt8 => 2^7 - 1
  | KInt16 => 2^15 - 1
  | KInt32 => 2^31 - 1
  | KUint | KUint64 | KUintptr => 2^64 - 1
  | KUint8 => 2^8 - 1
  | KUint16 => 2^16 - 1
  | KUint32 => 2^32 - 1
  end.

Definition in_range (k : ikind) (z : Z) : bool := (ik_min k <=? z) && (z <=? ik_max k).

Definition ikind_eqb (a b : ikind) : bool :=
  match a, b with
  | KInt, KInt | KInt8, KInt8 | KInt16, KInt16 | KInt32, KInt32 | KInt64, KInt64
  | KUint, KUint | KUint8, KUint8 | KUint16, KUint16 | KUint32, KUint32 | KUint64, KUint64
  | KUintptr, KUintptr => true
  | _, _ => false
  end.

(* Static Go types of parameters and results, and the dynamic types of values. *)
Inductive gtype :=
| TInt (k : ikind)
| TF32 | TF64
| TStr | TBool
| TIface                 (* interface{} *)
| TErr                   (* the interface type error *)
| TSlice (elem : gtype)  (* []elem; TSlice TIface = []interface{}, the ECAL list *)
| TMap                   (* map[interface{}]interface{}, the ECAL map *)
| TFuncObj               (* the concrete type of an ECAL function object *)
| TErrObj.               (* a concrete type implementing error *)

Fixpoint gtype_eqb (a b : gtype) : bool :=
  match a, b with
  | TInt k1, TInt k2 => ikind_eqb k1 k2
  | TF32, TF32 | TF64, TF64 | TStr, TStr | TBool, TBool | TIface, TIface | TErr, TErr
  | TMap, TMap | TFuncObj, TFuncObj | TErrObj, TErrObj => true
  | TSlice x, TSlice y => gtype_eqb x y
  | _, _ => false
  end.

(* reflect.Type.Kind() == reflect.Interface *)
Definition kind_is_interface (t : gtype) : bool :=
  match t with TIface | TErr => true | _ => false end.

Definition is_numeric (t : gtype) : bool :=
  match t with TInt _ | TF32 | TF64 => true | _ => false end.

Definition T_LIST : gtype := TSlice TIface.

(* ---------------------------------------------------------------- numbers *)

Definition num := spec_float.

(* |m * 2^e| truncated to an integer *)
Definition mag_trunc (m : positive) (e : Z) : Z :=
  match e with
  | Z0 => Zpos m
  | Zpos _ => Zpos m * 2 ^ e
  | Zneg p => Zpos m / 2 ^ (Zpos p)
  end.

Definition trunc (x : num) : option Z :=
  match x with
  | S754_zero _ => Some 0
  | S754_finite s m e => Some (if s then - mag_trunc m e else mag_trunc m e)
  | _ => None
  end.

(* intN(float64Arg) *)
Definition conv_int (oor : ikind -> num -> Z) (k : ikind) (x : num) : Z :=
  match trunc x with
  | Some t => if in_range k t then t else oor k x
  | None => oor k x
  end.

(* float32(float64Arg) *)
Definition to_f32 (x : num) : num :=
  match x with
  | S754_finite s m e => binary_round 24 128 s m e
  | _ => x
  end.

(* float64(v.Int()), float64(v.Uint()) *)
Definition of_Z (z : Z) : num := binary_normalize 53 1024 z 0 false.

(* ---------------------------------------------------------------- values *)

Inductive gval :=
| GNil                                  (* nil interface: ECAL NULL *)
| GBool (b : bool)
| GInt (k : ikind) (z : Z)
| GF32 (x : num)
| GF64 (x : num)                        (* float64: the ECAL number *)
| GStr (s : list N)
| GSlice (elem : gtype) (l : list gval) (* GSlice TIface l: the ECAL list *)
| GMap (id : N)                         (* ECAL map, passed by reference; contents not looked at *)
| GFunc (id : N)                        (* ECAL function object *)
| GErr (id : N).                        (* a non-nil Go error value *)

(* reflect.TypeOf: None is the nil Type *)
Definition typeof (v : gval) : option gtype :=
  match v with
  | GNil => None
  | GBool _ => Some TBool
  | GInt k _ => Some (TInt k)
  | GF32 _ => Some TF32
  | GF64 _ => Some TF64
  | GStr _ => Some TStr
  | GSlice t _ => Some (TSlice t)
  | GMap _ => Some TMap
  | GFunc _ => Some TFuncObj
  | GErr _ => Some TErrObj
  end.

Definition is_nil (v : gval) : bool := match v with GNil => true | _ => false end.

(* ---------------------------------------------------------------- signatures, callees *)

Record sig := mkSig {
  s_in : list gtype;        (* funcType.In(0..NumIn-1); for a variadic function the last one is the slice type *)
  s_variadic : bool;        (* funcType.IsVariadic() *)
  s_out : list gtype        (* funcType.Out(0..NumOut-1) *)
}.

(* What the Go function does once entered. *)
Inductive cres :=
| CRet (vals : list gval)
| CPanic.

Definition callee := list gval -> cres.

(* ---------------------------------------------------------------- Run: the argument loop *)

Definition convert_number (oor : ikind -> num -> Z) (t : gtype) (a : gval) : gval :=
  match a with
  | GF64 x =>
    match t with
    | TInt k => GInt k (conv_int oor k x)
    | TF32 => GF32 (to_f32 x)
    | _ => a
    end
  | _ => a
  end.

Definition E_TOO_MANY : string := "Too many parameters".
Definition E_WRONG_TYPE : string := "Parameter should be of another type".
Definition E_CALLEE : string := "the error returned by the Go function".

Fixpoint build_args (oor : ikind -> num -> Z) (ins : list gtype) (args : list gval) {struct args}
  : outcome (list gval) :=
  match args with
  | [] => Ok []
  | a :: rest =>
    match ins with
    | [] => Err E_TOO_MANY
    | t :: ins' =>
      let a' := convert_number oor t a in
      let pass := obind (build_args oor ins' rest) (fun l => Ok (a' :: l)) in
      match typeof a' with
      | None =>
        (* givenType == nil: givenType != expectedType holds *)
        if kind_is_interface t then Panic "nil reflect.Type dereferenced (NULL argument for an interface parameter)"
        else if gtype_eqb t T_LIST then pass
        else Err E_WRONG_TYPE
      | Some g =>
        if gtype_eqb g t then pass
        else if gtype_eqb t T_LIST then pass   (* a dynamic type never has Kind Interface *)
        else Err E_WRONG_TYPE
      end
    end
  end.

(* ---------------------------------------------------------------- reflect.Value.Call *)

Definition assignable (g : option gtype) (target : gtype) : bool :=
  match g with
  | None => false
  | Some t => gtype_eqb t target || gtype_eqb target TIface
              || (gtype_eqb target TErr && gtype_eqb t TErrObj)
  end.

Fixpoint all_assignable (vs : list gval) (ts : list gtype) : bool :=
  match vs, ts with
  | [], _ => true
  | v :: vs', t :: ts' => assignable (typeof v) t && all_assignable vs' ts'
  | _ :: _, [] => false
  end.

(* number of parameters that are not the variadic one *)
Definition fixed_count (s : sig) : nat :=
  if s_variadic s then Nat.pred (List.length (s_in s)) else List.length (s_in s).

(* The parameter list handed to the callee, or the reflect panic. *)
Definition call_args (s : sig) (fargs : list gval) : outcome (list gval) :=
  let nin := List.length (s_in s) in
  let n := fixed_count s in
  if (s_variadic s && Nat.eqb nin 0)%bool then Panic "reflect: variadic function without parameters"
  else if Nat.ltb (List.length fargs) n then Panic "reflect: Call with too few input arguments"
  else if (negb (s_variadic s) && Nat.ltb n (List.length fargs))%bool then Panic "reflect: Call with too many input arguments"
  else if existsb is_nil fargs then Panic "reflect: Call using zero Value argument"
  else if negb (all_assignable (firstn n fargs) (firstn n (s_in s))) then Panic "reflect: Call using value as another type"
  else if s_variadic s then
    match nth_error (s_in s) n with
    | Some (TSlice elem) =>
      if forallb (fun v => assignable (typeof v) elem) (skipn n fargs)
      then Ok (firstn n fargs ++ [GSlice elem (skipn n fargs)])
      else Panic "reflect: cannot use value as variadic element"
    | _ => Panic "reflect: variadic parameter is not a slice"
    end
  else Ok fargs.

(* ---------------------------------------------------------------- result conversion *)

Definition convert_result (t : gtype) (v : gval) : gval :=
  match t, v with
  | TInt _, GInt _ z => GF64 (of_Z z)
  | TF32, GF32 x => GF64 x
  | _, _ => v
  end.

(* results and the trailing error (None: no error value or a nil one) *)
Fixpoint conv_results (outs : list gtype) (vals : list gval) : list gval * option gval :=
  match vals with
  | [] => ([], None)
  | [v] =>
    let t := hd TIface outs in
    if gtype_eqb t TErr then ([], if is_nil v then None else Some v)
    else ([convert_result t v], None)
  | v :: vals' =>
    let (r, e) := conv_results (tl outs) vals' in
    (convert_result (hd TIface outs) v :: r, e)
  end.

Definition finish (r : list gval * option gval) : outcome gval :=
  match snd r with
  | Some _ => Err E_CALLEE
  | None => Ok (match fst r with [x] => x | l => GSlice TIface l end)
  end.

(* what happens after the callee has been entered *)
Definition after_call (s : sig) (c : cres) : outcome gval :=
  match c with
  | CRet vals => finish (conv_results (s_out s) vals)
  | CPanic => Panic "the Go function panicked"
  end.

(* ---------------------------------------------------------------- Run *)

Definition recover_ {A} (x : outcome A) : outcome A :=
  match x with
  | Panic site => Err (String.append "Error: " site)
  | o => o
  end.

(* The arguments the callee is entered with; an error or panic outcome when it is not entered. *)
Definition received (oor : ikind -> num -> Z) (s : sig) (args : list gval) : outcome (list gval) :=
  obind (build_args oor (s_in s) args) (call_args s).

Definition run_raw (oor : ikind -> num -> Z) (s : sig) (f : callee) (args : list gval) : outcome gval :=
  obind (received oor s args) (fun recv => after_call s (f recv)).

Definition run (oor : ikind -> num -> Z) (s : sig) (f : callee) (args : list gval) : outcome gval :=
  recover_ (run_raw oor s f args).

(* ---------------------------------------------------------------- the ECAL call: executeFunction *)

(* interpreter/rt_identifier.go executeFunction, after funcObj.Run returned: an error that is
   not a runtime error is wrapped into a runtime error carrying its message.  After the fix:
   commit for C19 the message is produced with fmt.Sprint, which contains a panic of the
   error value's Error method (e.g. a nil pointer returned as error by the Go function);
   before it err.Error() was called directly.  [error_method_panics]: calling Error() on
   the error value returned by the Go function panics.  The errors made by Run itself
   (fmt.Errorf) have a total Error method. *)
Definition execute_function (error_method_panics : bool) (r : outcome gval) : outcome gval :=
  match r with
  | Err e => Err e
  | o => o
  end.

Definition execute_function_before_fix (error_method_panics : bool) (r : outcome gval) : outcome gval :=
  match r with
  | Err e =>
    if (error_method_panics && String.eqb e E_CALLEE)%bool
    then Panic "Error method of the error value returned by the Go function"
    else Err e
  | o => o
  end.

Definition ecal_call (oor : ikind -> num -> Z) (s : sig) (f : callee) (error_method_panics : bool)
  (args : list gval) : outcome gval :=
  execute_function error_method_panics (run oor s f args).
