(* Model/Interp.v — ONE tree-walking interpreter model for the core language, evaluating the
   REAL parser's trees (Common/Ast.v, serialised by harness/astemit.go).

   Go code followed (interpreter/ unless noted), branch by branch:
     provider.go       providerMap (node kind -> runtime component), invalidRuntime
     rt_general.go     baseRuntime.Validate/Eval, voidRuntime, numVal boolVal numOp genOp strOp boolOp listOp
                       checkComparable
     rt_value.go       number (ParseFloat at Validate), string (interpolation = Unmodelled), list, map
     rt_const.go       true false null
     rt_arithmetic.go  + - (prefix / infix) * / // %
     rt_boolean.go     >= > <= < (numOp, on ANY error strOp which evaluates the operands AGAIN),
                       == != (checkComparable), and or not, in notin, hasprefix hassuffix, like (Unmodelled)
     rt_identifier.go  resolveValue, buildAccessString (dotted access string, flattened with fmt.Sprint and
                       re-split by the scope), resolveFunction, resolveFunctionObject, executeFunction
                       (plain errors become "Runtime error"), functionResolved (dummy node, "funcresult" scope), Set
     rt_assign.go      := (left side evaluated first; single / list destructuring), let
     rt_statements.go  statements, if, guard, loop (guard loop, iterator protocol over range / list / map /
                       single value), break, continue, try / except / otherwise / finally, mutex (plain block)
     rt_func.go        return (an error object carrying the value), function declaration, function.Run
                       (fresh root scope, parameters, presets evaluated in the declaration scope, parent link)
     func_provider.go  range len del add concat raise type
     scope/varsscope.go NewChild (children re-used BY NAME = by block node), SetValue, SetLocalValue, GetValue,
                       containerAccess, mapFieldKey, getScopeForVariable
   Go values: nil, bool, float64, string, []interface{} (a SLICE: array reference + length; the
   capacity is the array's size, append follows runtime.growslice of go1.23 for 16-byte elements),
   map[interface{}]interface{} (reference), *function (reference), and [VOpaque]: a Go value
   whose content the model does not track (the int / string / []string fields of the error
   object an except clause binds, the string of type()).

   Numbers are a PARAMETER of the model (Section variables): the no-panic theorems hold for every
   implementation of float arithmetic; Run/RunC06Interp.v instantiates them with Coq's binary64.

   Outcomes: [ROk v], [RErr e] (an error VALUE returned to the caller; return / break /
   continue / "is an iterator" are such errors, as in the Go code), [RPanic site] (the Go code
   would panic), [RFuel], [RUnmod why] (construct outside the modelled fragment: sinks, import,
   string interpolation, like, stdlib, objects, time ...), [RInvalid why] (an input no Go
   execution can present: a tree shape the parser does not produce [C07 parse_wf], a tree that
   was not validated, a dangling heap / scope reference).
   No proofs in this file. *)
From Coq Require Import List String NArith ZArith Bool Arith Ascii.
From Ecal Require Import Common.Bytes Common.Ast gen.Tokens.
Import ListNotations.
Local Open Scope string_scope.
Local Open Scope list_scope.
Local Open Scope nat_scope.

Fixpoint bytes_of_string (s : string) : bytes :=
  match s with
  | EmptyString => []
  | String a r => N_of_ascii a :: bytes_of_string r
  end.
Definition bs (s : string) : bytes := bytes_of_string s.

(* ---------------------------------------------------------------- sites of partial Go operations *)
Definition S_ASSERT_BOOL : string := "interpreter/rt_statements.go|guardres.(bool)".
Definition S_NOT_BOOL    : string := "interpreter/rt_boolean.go|(*notinOpRuntime).Eval|res.(bool)".
Definition S_IFACE_EQ    : string := "interpreter/rt_boolean.go|n1 == n2 on interface{}".
Definition S_MAPKEY      : string := "interpreter/rt_value.go|(*mapValueRuntime).Eval|m[key]".
Definition S_MOD         : string := "interpreter/rt_arithmetic.go|(*modintOpRuntime).Eval|int64(n1) % divisor".
Definition S_INDEX       : string := "index expression on a slice".
Definition S_SLICE       : string := "slice expression".
Definition S_EXCEPT      : string := "interpreter/rt_statements.go|(*tryRuntime).evalExcept|errorutil.AssertOk(evalErr)".

(* ---------------------------------------------------------------- numbers (float64) *)
Class NumOps := {
  num : Type;
  n_parse_lit : bytes -> option num;          (* strconv.ParseFloat of a number token *)
  n_parse_str : bytes -> option (option num); (* ParseFloat of a string ARGUMENT (AssertNumParam);
                                                 None = outside the oracle *)
  n_add : num -> num -> num;
  n_sub : num -> num -> num;
  n_mul : num -> num -> num;
  n_div : num -> num -> num;
  n_divint : num -> num -> num;               (* math.Floor(a / b) *)
  n_opp : num -> num;
  n_trunc : num -> Z;                         (* int64(x) = int(x) on amd64 *)
  n_of_Z : Z -> num;                          (* float64(int64) *)
  n_ltb : num -> num -> bool;
  n_leb : num -> num -> bool;
  n_eqb : num -> num -> bool;
  n_sprint : num -> option bytes              (* fmt.Sprint; None = outside the modelled domain *)
}.

Section Interp.
  Context {NO : NumOps}.

  (* ---------------------------------------------------------------- values, errors, state *)
  Inductive value :=
  | VNull
  | VBool (b : bool)
  | VNum (x : num)
  | VStr (s : bytes)
  | VList (arr len : nat)      (* slice: array reference, length; offset is always 0 *)
  | VMap (id : nat)
  | VFun (id : nat)
  | VOpaque.

  (* error TYPES (util/error.go) *)
  Definition T_RUNTIME  := bs "Runtime error".
  Definition T_UNKNOWN  := bs "Unknown construct".
  Definition T_INVCONS  := bs "Invalid construct".
  Definition T_INVSTATE := bs "Invalid state".
  Definition T_VARACC   := bs "Cannot access variable".
  Definition T_NOTNUM   := bs "Operand is not a number".
  Definition T_NOTBOOL  := bs "Operand is not a boolean".
  Definition T_NOTLIST  := bs "Operand is not a list".
  Definition T_ISITER   := bs "Function is an iterator".
  Definition T_EOI      := bs "End of iteration was reached".
  Definition T_CONT     := bs "End of iteration step - Continue iteration".
  Definition T_PLAIN    := bs "UnexpectedError".       (* what an except clause sees for a plain Go error *)

  Inductive error :=
  | EPlain                                   (* a plain Go error (fmt.Errorf in the scope, strconv) *)
  | ERt (ty : bytes) (acc : value)           (* *util.RuntimeError; acc = the value an identifier
                                                evaluation returns TOGETHER with the error (range) *)
  | ERaised (ty : bytes) (detail : bytes) (data : value)   (* *util.RuntimeErrorWithDetail (raise) *)
  | EReturn (v : value).                     (* *returnValue *)

  Definition rt_err (ty : bytes) : error := ERt ty VNull.

  Record closure := mkClo {
    cl_name : bytes;
    cl_decl : node;              (* function.declaration *)
    cl_path : list nat;          (* where the declaration sits in the program tree (reversed child indices) *)
    cl_scope : nat               (* function.declarationVS *)
  }.

  Record scope := mkScope {
    sc_key : list nat;           (* the scope's name: children are found again BY NAME, and the name of a
                                    block scope is made of kind, line and column of the block's node *)
    sc_parent : option nat;
    sc_children : list nat;
    sc_vars : list (bytes * value)
  }.

  Record rstate := mkR { r_from : num; r_to : num; r_step : num; r_cur : num }.

  Record state := mkSt {
    st_scopes : list scope;
    st_arrs : list (list value);
    st_maps : list (list (value * value));
    st_funs : list closure;
    st_is : list (list (list nat * rstate))    (* the "instance state" maps: range state per call site *)
  }.

  Inductive res (A : Type) :=
  | ROk (a : A)
  | RErr (e : error)
  | RPanic (site : string)
  | RFuel
  | RUnmod (why : string)
  | RInvalid (why : string).
  Arguments ROk {A} a.
  Arguments RErr {A} e.
  Arguments RPanic {A} site.
  Arguments RFuel {A}.
  Arguments RUnmod {A} why.
  Arguments RInvalid {A} why.

  Definition M (A : Type) := state -> res A * state.

  Definition ret {A} (a : A) : M A := fun st => (ROk a, st).
  Definition lift {A} (r : res A) : M A := fun st => (r, st).
  Definition fail {A} (e : error) : M A := lift (RErr e).
  Definition unmod {A} (w : string) : M A := lift (RUnmod w).
  Definition invalid {A} (w : string) : M A := lift (RInvalid w).
  Definition bind {A B} (m : M A) (f : A -> M B) : M B :=
    fun st => match m st with
              | (ROk a, st') => f a st'
              | (RErr e, st') => (RErr e, st')
              | (RPanic s, st') => (RPanic s, st')
              | (RFuel, st') => (RFuel, st')
              | (RUnmod w, st') => (RUnmod w, st')
              | (RInvalid w, st') => (RInvalid w, st')
              end.
  (* run m; an error VALUE is handed to the continuation (Go: `res, err := ...`) *)
  Definition attempt {A} (m : M A) : M (A + error) :=
    fun st => match m st with
              | (ROk a, st') => (ROk (inl a), st')
              | (RErr e, st') => (ROk (inr e), st')
              | (RPanic s, st') => (RPanic s, st')
              | (RFuel, st') => (RFuel, st')
              | (RUnmod w, st') => (RUnmod w, st')
              | (RInvalid w, st') => (RInvalid w, st')
              end.
  Definition get_st : M state := fun st => (ROk st, st).
  Definition put_st (s : state) : M unit := fun _ => (ROk tt, s).

  Notation "x <- m ;; f" := (bind m (fun x => f)) (at level 61, m at next level, right associativity).
  Notation "m ;;; f" := (bind m (fun _ => f)) (at level 61, right associativity).

  Definition of_opt {A} (w : string) (o : option A) : M A :=
    match o with Some a => ret a | None => invalid w end.
  Definition of_opt_u {A} (w : string) (o : option A) : M A :=
    match o with Some a => ret a | None => unmod w end.

  (* ---------------------------------------------------------------- list helpers *)
  Fixpoint list_upd {A} (l : list A) (i : nat) (x : A) : list A :=
    match l, i with
    | [], _ => []
    | _ :: r, O => x :: r
    | y :: r, S k => y :: list_upd r k x
    end.

  (* ---------------------------------------------------------------- arenas *)
  Definition get_arr (a : nat) : M (list value) :=
    st <- get_st ;; of_opt "dangling array reference" (nth_error (st_arrs st) a).
  Definition set_arr (a : nat) (cells : list value) : M unit :=
    st <- get_st ;;
    put_st (mkSt (st_scopes st) (list_upd (st_arrs st) a cells) (st_maps st) (st_funs st) (st_is st)).
  Definition alloc_arr (cells : list value) : M nat :=
    st <- get_st ;;
    put_st (mkSt (st_scopes st) (st_arrs st ++ [cells]) (st_maps st) (st_funs st) (st_is st)) ;;;
    ret (length (st_arrs st)).
  Definition get_map (a : nat) : M (list (value * value)) :=
    st <- get_st ;; of_opt "dangling map reference" (nth_error (st_maps st) a).
  Definition set_map (a : nat) (m : list (value * value)) : M unit :=
    st <- get_st ;;
    put_st (mkSt (st_scopes st) (st_arrs st) (list_upd (st_maps st) a m) (st_funs st) (st_is st)).
  Definition alloc_map (m : list (value * value)) : M nat :=
    st <- get_st ;;
    put_st (mkSt (st_scopes st) (st_arrs st) (st_maps st ++ [m]) (st_funs st) (st_is st)) ;;;
    ret (length (st_maps st)).
  Definition get_fun (a : nat) : M closure :=
    st <- get_st ;; of_opt "dangling function reference" (nth_error (st_funs st) a).
  Definition alloc_fun (c : closure) : M nat :=
    st <- get_st ;;
    put_st (mkSt (st_scopes st) (st_arrs st) (st_maps st) (st_funs st ++ [c]) (st_is st)) ;;;
    ret (length (st_funs st)).
  Definition get_scope (a : nat) : M scope :=
    st <- get_st ;; of_opt "dangling scope reference" (nth_error (st_scopes st) a).
  Definition set_scope (a : nat) (s : scope) : M unit :=
    st <- get_st ;;
    put_st (mkSt (list_upd (st_scopes st) a s) (st_arrs st) (st_maps st) (st_funs st) (st_is st)).
  Definition alloc_scope (s : scope) : M nat :=
    st <- get_st ;;
    put_st (mkSt (st_scopes st ++ [s]) (st_arrs st) (st_maps st) (st_funs st) (st_is st)) ;;;
    ret (length (st_scopes st)).
  Definition get_is (a : nat) : M (list (list nat * rstate)) :=
    st <- get_st ;; of_opt "dangling instance state reference" (nth_error (st_is st) a).
  Definition set_is (a : nat) (m : list (list nat * rstate)) : M unit :=
    st <- get_st ;;
    put_st (mkSt (st_scopes st) (st_arrs st) (st_maps st) (st_funs st) (list_upd (st_is st) a m)).
  Definition alloc_is : M nat :=
    st <- get_st ;;
    put_st (mkSt (st_scopes st) (st_arrs st) (st_maps st) (st_funs st) (st_is st ++ [[]])) ;;;
    ret (length (st_is st)).

  (* ---------------------------------------------------------------- partial Go operations *)
  (* s[i] on a slice of length len over cells *)
  Definition go_index (cells : list value) (len : nat) (i : Z) : res value :=
    if ((0 <=? i)%Z && (i <? Z.of_nat len)%Z)%bool then
      match nth_error cells (Z.to_nat i) with
      | Some v => ROk v
      | None => RInvalid "slice longer than its array"
      end
    else RPanic S_INDEX.
  (* s[:i] / s[i:] need 0 <= i <= len *)
  Definition go_slice_bound (len : nat) (i : Z) : res unit :=
    if ((0 <=? i)%Z && (i <=? Z.of_nat len)%Z)%bool then ROk tt else RPanic S_SLICE.
  (* v.(bool) *)
  Definition go_assert_bool (site : string) (v : value) : res bool :=
    match v with VBool b => ROk b | _ => RPanic site end.
  (* a % b on int64 *)
  Definition go_mod (a b : Z) : res Z :=
    if (b =? 0)%Z then RPanic S_MOD else ROk (Z.rem a b).
  (* a == b on interface{} values *)
  Definition go_iface_eq (a b : value) : res bool :=
    match a, b with
    | VList _ _, VList _ _ => RPanic S_IFACE_EQ
    | VMap _, VMap _ => RPanic S_IFACE_EQ
    | VOpaque, VOpaque => RUnmod "comparison of two untracked Go values"
    | VOpaque, VStr _ | VStr _, VOpaque => RUnmod "comparison with an untracked Go string"
    | VNull, VNull => ROk true
    | VBool x, VBool y => ROk (Bool.eqb x y)
    | VNum x, VNum y => ROk (n_eqb x y)
    | VStr x, VStr y => ROk (bytes_eqb x y)
    | VFun x, VFun y => ROk (Nat.eqb x y)
    | _, _ => ROk false
    end.
  (* reflect.TypeOf(a) == reflect.TypeOf(b) && !Comparable: both slices or both maps *)
  Definition uncomparable (a b : value) : bool :=
    match a, b with
    | VList _ _, VList _ _ => true
    | VMap _, VMap _ => true
    | _, _ => false
    end.
  Definition hashable (k : value) : bool :=
    match k with VList _ _ | VMap _ => false | _ => true end.
  (* m[key] = ... hashes the key *)
  Definition go_map_key (k : value) : res unit :=
    match k with
    | VList _ _ | VMap _ => RPanic S_MAPKEY
    | VOpaque => RUnmod "untracked Go value as a map key"
    | _ => ROk tt
    end.

  (* equality of map keys (Go interface equality on hashable values) *)
  Definition key_eqb (a b : value) : bool :=
    match a, b with
    | VNull, VNull => true
    | VBool x, VBool y => Bool.eqb x y
    | VNum x, VNum y => n_eqb x y
    | VStr x, VStr y => bytes_eqb x y
    | VFun x, VFun y => Nat.eqb x y
    | _, _ => false
    end.
  Fixpoint m_get (k : value) (m : list (value * value)) : option value :=
    match m with
    | [] => None
    | (k', v) :: r => if key_eqb k' k then Some v else m_get k r
    end.
  Fixpoint m_set (k v : value) (m : list (value * value)) : list (value * value) :=
    match m with
    | [] => [(k, v)]
    | (k', v') :: r => if key_eqb k' k then (k', v) :: r else (k', v') :: m_set k v r
    end.
  Fixpoint m_del (k : value) (m : list (value * value)) : list (value * value) :=
    match m with
    | [] => []
    | (k', v') :: r => if key_eqb k' k then r else (k', v') :: m_del k r
    end.

  (* ---------------------------------------------------------------- slices: append (runtime.growslice, go1.23) *)
  (* malloc size classes above 512 bytes, for 16-byte elements with a malloc header *)
  Definition big_classes : list nat := [576; 640; 704; 768; 896; 1024; 1152; 1280; 1408; 1536; 1792; 2048].
  Fixpoint first_geq (n : nat) (l : list nat) : option nat :=
    match l with
    | [] => None
    | c :: r => if n <=? c then Some c else first_geq n r
    end.
  Definition roundup_cap (c : nat) : option nat :=
    if c <=? 16 then Some c
    else if c <=? 32 then Some (c + Nat.modulo c 2)
    else match first_geq (c * 16 + 8) big_classes with
         | Some cls => Some (Nat.div (cls - 8) 16)
         | None => None
         end.
  Definition grow_cap (oldcap newlen : nat) : option nat :=
    let dbl := oldcap + oldcap in
    if dbl <? newlen then roundup_cap newlen
    else if oldcap <? 256 then roundup_cap dbl
    else None.

  (* append(s, vs...) *)
  Definition slice_append (arr len : nat) (vs : list value) : M (nat * nat) :=
    cells <- get_arr arr ;;
    let cap := length cells in
    if cap <? len then invalid "slice longer than its array" else
    let newlen := len + length vs in
    if newlen <=? cap then
      set_arr arr (firstn len cells ++ vs ++ skipn newlen cells) ;;; ret (arr, newlen)
    else
      match grow_cap cap newlen with
      | None => unmod "list capacity beyond the modelled size classes"
      | Some ncap =>
        a <- alloc_arr (firstn len cells ++ vs ++ repeat VNull (ncap - newlen)) ;; ret (a, newlen)
      end.

  (* ---------------------------------------------------------------- text *)
  Definition DOT : N := 46%N.
  Fixpoint split_dot_aux (cur : bytes) (s : bytes) : list bytes :=
    match s with
    | [] => [rev cur]
    | c :: s' => if N.eqb c DOT then rev cur :: split_dot_aux [] s' else split_dot_aux (c :: cur) s'
    end.
  Definition split_dot (s : bytes) : list bytes := split_dot_aux [] s.   (* strings.Split(s, ".") *)

  Definition is_digit (c : N) : bool := (N.leb 48 c && N.leb c 57)%N.
  Fixpoint digits_val (acc : Z) (s : bytes) : option Z :=
    match s with
    | [] => Some acc
    | c :: s' => if is_digit c then digits_val (acc * 10 + Z.of_N (c - 48)%N)%Z s' else None
    end.
  (* strconv.Atoi: optional sign, digits, within int64 *)
  Definition atoi (s : bytes) : option Z :=
    let r := match s with
             | [] => None
             | c :: s' =>
               if N.eqb c 45 then match s' with [] => None | _ => option_map Z.opp (digits_val 0%Z s') end
               else if N.eqb c 43 then match s' with [] => None | _ => digits_val 0%Z s' end
               else digits_val 0%Z s
             end in
    match r with
    | Some z => if ((- 2 ^ 63 <=? z)%Z && (z <? 2 ^ 63)%Z)%bool then Some z else None
    | None => None
    end.

  Fixpoint bytes_ltb (a b : bytes) : bool :=     (* Go's < on strings *)
    match a, b with
    | _, [] => false
    | [], _ :: _ => true
    | x :: a', y :: b' => (x <? y)%N || ((x =? y)%N && bytes_ltb a' b')
    end.
  Definition bytes_leb (a b : bytes) : bool := negb (bytes_ltb b a).
  Definition suffixb (p s : bytes) : bool := prefixb (rev p) (rev s).

  Definition join_sp (l : list bytes) : bytes :=
    match l with
    | [] => []
    | x :: r => x ++ flat_map (fun y => (32%N) :: y) r
    end.
  Fixpoint all_some {A} (l : list (option A)) : option (list A) :=
    match l with
    | [] => Some []
    | Some a :: r => match all_some r with Some x => Some (a :: x) | None => None end
    | None :: _ => None
    end.

  (* fmt.Sprint of a value (d bounds the nesting; maps, functions, untracked values: None) *)
  Fixpoint sprint (d : nat) (st : state) (v : value) : option bytes :=
    match v with
    | VNull => Some (bs "<nil>")
    | VBool true => Some (bs "true")
    | VBool false => Some (bs "false")
    | VNum x => n_sprint x
    | VStr s => Some s
    | VList a len =>
      match d with
      | O => None
      | S d' =>
        match nth_error (st_arrs st) a with
        | None => None
        | Some cells =>
          match all_some (map (sprint d' st) (firstn len cells)) with
          | Some parts => Some ([91%N] ++ join_sp parts ++ [93%N])
          | None => None
          end
        end
      end
    | _ => None
    end.
  Definition sprint_m (v : value) : M bytes :=
    st <- get_st ;; of_opt_u "fmt.Sprint outside the modelled domain" (sprint 8 st v).

  (* strings.Replace(s, ".", ">", -1) *)
  Definition dots_to_gt (s : bytes) : bytes := map (fun c => if N.eqb c DOT then 62%N else c) s.

  (* ---------------------------------------------------------------- scope/varsscope.go *)
  Fixpoint v_get (k : bytes) (l : list (bytes * value)) : option value :=
    match l with
    | [] => None
    | (k', v) :: r => if bytes_eqb k' k then Some v else v_get k r
    end.
  Fixpoint v_set (k : bytes) (v : value) (l : list (bytes * value)) : list (bytes * value) :=
    match l with
    | [] => [(k, v)]
    | (k', v') :: r => if bytes_eqb k' k then (k', v) :: r else (k', v') :: v_set k v r
    end.

  (* getScopeForVariable *)
  Fixpoint scope_for (d : nat) (st : state) (s : nat) (name : bytes) : res (option nat) :=
    match d with
    | O => RInvalid "cyclic scope chain"
    | S d' =>
      match nth_error (st_scopes st) s with
      | None => RInvalid "dangling scope reference"
      | Some sc =>
        match v_get name (sc_vars sc) with
        | Some _ => ROk (Some s)
        | None => match sc_parent sc with
                  | Some p => scope_for d' st p name
                  | None => ROk None
                  end
        end
      end
    end.
  Definition scope_for_m (s : nat) (name : bytes) : M (option nat) :=
    st <- get_st ;; lift (scope_for (S (length (st_scopes st))) st s name).

  (* getValue on a name without dots: (value, found) *)
  Definition lookup_simple (s : nat) (name : bytes) : M (value * bool) :=
    o <- scope_for_m s name ;;
    match o with
    | None => ret (VNull, false)
    | Some t => sc <- get_scope t ;;
                ret (match v_get name (sc_vars sc) with Some v => v | None => VNull end, true)
    end.

  (* mapFieldKey *)
  Definition map_field_key (m : list (value * value)) (f : bytes) : value :=
    match atoi f with
    | Some i => match m_get (VNum (n_of_Z i)) m with
                | Some _ => VNum (n_of_Z i)
                | None => VStr f
                end
    | None => VStr f
    end.

  (* one list step shared by getValue / containerAccess / setValue: Atoi, negative index, bounds *)
  Definition list_index (len : nat) (f : bytes) : option Z :=
    match atoi f with
    | None => None
    | Some i =>
      let i' := if (i <? 0)%Z then (Z.of_nat len + i)%Z else i in
      if ((0 <=? i')%Z && (i' <? Z.of_nat len)%Z)%bool then Some i' else None
    end.

  (* getValue: the containerAccess closure (a missing map key reads as nil) *)
  Fixpoint access_get (fields : list bytes) (container : value) : M value :=
    match fields with
    | [] => ret container
    | f :: rest =>
      r <- (match container with
            | VMap id =>
              m <- get_map id ;;
              ret (match m_get (map_field_key m f) m with Some v => v | None => VNull end)
            | VList a len =>
              match list_index len f with
              | None => fail EPlain
              | Some i => cells <- get_arr a ;; lift (go_index cells len i)
              end
            | _ => fail EPlain
            end) ;;
      match rest with
      | [] => ret r
      | _ => access_get rest r
      end
    end.

  (* containerAccess (used by setValue): a missing map key is an error *)
  Fixpoint access_container (fields : list bytes) (container : value) : M value :=
    match fields with
    | [] => ret container
    | f :: rest =>
      r <- (match container with
            | VMap id =>
              m <- get_map id ;;
              match m_get (map_field_key m f) m with Some v => ret v | None => fail EPlain end
            | VList a len =>
              match list_index len f with
              | None => fail EPlain
              | Some i => cells <- get_arr a ;; lift (go_index cells len i)
              end
            | _ => fail EPlain
            end) ;;
      access_container rest r
    end.

  Definition get_value (s : nat) (varName : bytes) : M value :=
    match split_dot varName with
    | [] => invalid "strings.Split returned nothing"
    | [n] => r <- lookup_simple s n ;; ret (fst r)
    | c0 :: fields =>
      r <- lookup_simple s c0 ;;
      if snd r then access_get fields (fst r) else ret VNull
    end.

  Definition set_simple (s : nat) (name : bytes) (v : value) : M unit :=
    o <- scope_for_m s name ;;
    let t := match o with Some t => t | None => s end in
    sc <- get_scope t ;;
    set_scope t (mkScope (sc_key sc) (sc_parent sc) (sc_children sc) (v_set name v (sc_vars sc))).

  Definition set_value (s : nat) (varName : bytes) (v : value) : M unit :=
    match split_dot varName with
    | [] => invalid "strings.Split returned nothing"
    | [n] => set_simple s n v
    | c0 :: fields =>
      r <- lookup_simple s c0 ;;
      if negb (snd r) then fail EPlain else
      cont <- access_container (removelast fields) (fst r) ;;
      let fi := last fields [] in
      match cont with
      | VMap id => m <- get_map id ;; set_map id (m_set (map_field_key m fi) v m)
      | VList a len =>
        match list_index len fi with
        | None => fail EPlain
        | Some i =>
          cells <- get_arr a ;;
          lift (go_index cells len i) ;;;                (* listContainer[index] = varValue *)
          set_arr a (list_upd cells (Z.to_nat i) v)
        end
      | _ => fail EPlain
      end
    end.

  (* SetLocalValue(name, nil) *)
  Definition set_local_nil (s : nat) (varName : bytes) : M unit :=
    let local := match split_dot varName with n :: _ => n | [] => varName end in
    sc <- get_scope s ;;
    set_scope s (mkScope (sc_key sc) (sc_parent sc) (sc_children sc) (v_set local VNull (sc_vars sc))) ;;;
    set_value s varName VNull.

  Fixpoint path_eqb (a b : list nat) : bool :=
    match a, b with
    | [], [] => true
    | x :: a', y :: b' => Nat.eqb x y && path_eqb a' b'
    | _, _ => false
    end.

  Fixpoint find_child (st : state) (key : list nat) (cs : list nat) : option nat :=
    match cs with
    | [] => None
    | c :: r => match nth_error (st_scopes st) c with
                | Some sc => if path_eqb (sc_key sc) key then Some c else find_child st key r
                | None => find_child st key r
                end
    end.

  (* NewChild(NameFromASTNode(node)): the child of that name is re-used *)
  Definition new_child (s : nat) (key : list nat) : M nat :=
    sc <- get_scope s ;;
    st <- get_st ;;
    match find_child st key (sc_children sc) with
    | Some c => ret c
    | None =>
      c <- alloc_scope (mkScope key (Some s) [] []) ;;
      set_scope s (mkScope (sc_key sc) (sc_parent sc) (sc_children sc ++ [c]) (sc_vars sc)) ;;;
      ret c
    end.

  (* scope.NewScope(name): a new root *)
  Definition new_root : M nat := alloc_scope (mkScope [] None [] []).
  (* scope.SetParentOfScope *)
  Definition set_parent (s p : nat) : M unit :=
    sc <- get_scope s ;;
    set_scope s (mkScope (sc_key sc) (Some p) (sc_children sc) (sc_vars sc)).

  (* ---------------------------------------------------------------- built-in functions (func_provider.go) *)
  Definition callres := (value * option error)%type.    (* Go: `return result, err` - both are used *)

  Definition num0 : num := n_of_Z 0%Z.

  (* AssertNumParam *)
  Definition assert_num (v : value) : M (option num) :=
    match v with
    | VNum x => ret (Some x)
    | VStr s => of_opt_u "strconv.ParseFloat of a string argument outside the oracle" (n_parse_str s)
    | VOpaque => unmod "untracked Go value as a number parameter"
    | _ => ret None         (* <nil>, true, [..], map[..], ecal.function: ... do not parse *)
    end.

  Definition e_runtime : option error := Some (rt_err T_RUNTIME).   (* plain error, converted by executeFunction *)

  Fixpoint is_get (k : list nat) (m : list (list nat * rstate)) : option rstate :=
    match m with
    | [] => None
    | (k', r) :: t => if path_eqb k' k then Some r else is_get k t
    end.
  Fixpoint is_put (k : list nat) (r : rstate) (m : list (list nat * rstate)) : list (list nat * rstate) :=
    match m with
    | [] => [(k, r)]
    | (k', r') :: t => if path_eqb k' k then (k', r) :: t else (k', r') :: is_put k r t
    end.

  Definition b_range (self : list nat) (is : nat) (args : list value) : M callres :=
    match args with
    | [] => ret (VNum num0, e_runtime)
    | a0 :: rest =>
      m <- get_is is ;;
      match is_get self m with
      | Some r =>
        let cur := r_cur r in
        set_is is (is_put self (mkR (r_from r) (r_to r) (r_step r) (n_add cur (r_step r))) m) ;;;
        let fr := r_from r in let to := r_to r in
        let stop := (n_ltb fr to && n_ltb to cur) || (n_ltb to fr && n_ltb cur to)
                    || (n_eqb fr to && negb (n_eqb cur fr)) in
        ret (VNum cur, Some (rt_err (if stop then T_EOI else T_ISITER)))
      | None =>
        let finish (fr to step : num) : M callres :=
          set_is is (is_put self (mkR fr to step fr) m) ;;; ret (VNum fr, Some (rt_err T_ISITER)) in
        match rest with
        | [] => o <- assert_num a0 ;;
                match o with Some to => finish num0 to (n_of_Z 1%Z) | None => ret (VNum num0, e_runtime) end
        | a1 :: rest2 =>
          o0 <- assert_num a0 ;;
          match o0 with
          | None => ret (VNum num0, e_runtime)
          | Some fr =>
            o1 <- assert_num a1 ;;
            match o1 with
            | None => ret (VNum num0, e_runtime)
            | Some to =>
              match rest2 with
              | [] => finish fr to (n_of_Z 1%Z)
              | a2 :: _ =>
                o2 <- assert_num a2 ;;
                match o2 with
                | None => ret (VNum num0, e_runtime)
                | Some step => finish fr to step
                end
              end
            end
          end
        end
      end
    end.

  Definition b_len (args : list value) : M callres :=
    match args with
    | VList _ len :: _ => ret (VNum (n_of_Z (Z.of_nat len)), None)
    | VMap id :: _ => m <- get_map id ;; ret (VNum (n_of_Z (Z.of_nat (length m))), None)
    | _ => ret (VNum num0, e_runtime)
    end.

  Definition b_del (args : list value) : M callres :=
    match args with
    | [VList a len; ix] =>
      o <- assert_num ix ;;
      match o with
      | None => ret (VNull, e_runtime)
      | Some x =>
        let i := n_trunc x in
        if ((0 <=? i)%Z && (i <? Z.of_nat len)%Z)%bool then
          cells <- get_arr a ;;
          if length cells <? len then invalid "slice longer than its array" else
          lift (go_slice_bound (length cells) i) ;;;            (* argList[:i] *)
          lift (go_slice_bound len (i + 1)%Z) ;;;               (* argList[i+1:] *)
          let k := Z.to_nat i in
          set_arr a (firstn k cells ++ skipn (S k) (firstn len cells) ++ skipn (len - 1) cells) ;;;
          ret (VList a (len - 1), None)
        else ret (VNull, e_runtime)
      end
    | [VMap id; k] =>
      s <- sprint_m k ;;
      m <- get_map id ;;
      let key := match atoi s with
                 | Some i => match m_get (VNum (n_of_Z i)) m with
                             | Some _ => VNum (n_of_Z i)
                             | None => VStr s
                             end
                 | None => VStr s
                 end in
      set_map id (m_del key m) ;;; ret (VMap id, None)
    | _ => ret (VNull, e_runtime)
    end.

  Definition b_add (args : list value) : M callres :=
    match args with
    | VList a len :: v :: rest =>
      match rest with
      | [ix] =>
        o <- assert_num ix ;;
        match o with
        | None => ret (VNull, e_runtime)
        | Some x =>
          let i := n_trunc x in
          if ((0 <=? i)%Z && (i <=? Z.of_nat len)%Z)%bool then
            r <- slice_append a len [VOpaque] ;;                 (* append(argList, 0) *)
            cells <- get_arr (fst r) ;;
            lift (go_slice_bound (S len) (i + 1)%Z) ;;;           (* argList[i+1:], argList[i:] *)
            let k := Z.to_nat i in
            set_arr (fst r) (firstn k cells ++ [v] ++ skipn k (firstn len cells) ++ skipn (S len) cells) ;;;
            ret (VList (fst r) (S len), None)
          else ret (VNull, e_runtime)
        end
      | _ => r <- slice_append a len [v] ;; ret (VList (fst r) (snd r), None)
      end
    | _ => ret (VNull, e_runtime)
    end.

  Fixpoint concat_go (a len : nat) (args : list value) : M callres :=
    match args with
    | [] => ret (VList a len, None)
    | VList b blen :: r =>
      cells <- get_arr b ;;
      if length cells <? blen then invalid "slice longer than its array" else
      p <- slice_append a len (firstn blen cells) ;;
      concat_go (fst p) (snd p) r
    | _ :: _ => ret (VNull, e_runtime)
    end.
  Definition b_concat (args : list value) : M callres :=
    match args with
    | [] | [_] => ret (VNull, e_runtime)
    | _ => a <- alloc_arr [] ;; concat_go a 0 args
    end.

  Definition b_raise (args : list value) : M callres :=
    match args with
    | [] => ret (VNull, Some (ERaised T_RUNTIME [] VNull))
    | a0 :: rest =>
      ty <- sprint_m a0 ;;
      match rest with
      | [] => ret (VNull, Some (ERaised ty [] VNull))
      | a1 :: rest2 =>
        detail <- (match a1 with VNull => ret [] | _ => sprint_m a1 end) ;;
        ret (VNull, Some (ERaised ty detail (match rest2 with d :: _ => d | [] => VNull end)))
      end
    end.

  Definition b_type (args : list value) : M callres :=
    match args with
    | [] => ret (VNull, e_runtime)
    | _ => ret (VOpaque, None)           (* fmt.Sprintf("%#v", args[0]): a string the model does not track *)
    end.

  Definition unmodelled_builtins : list string :=
    ["new"; "now"; "rand"; "timestamp"; "dumpenv"; "doc"; "sleep"; "addEvent"; "addEventAndWait";
     "setCronTrigger"; "setPulseTrigger"; "log"; "error"; "debug"].

  (* ---------------------------------------------------------------- evaluation *)
  (* path (reversed child indices from the root: the identity of a node), node, scope, instance state *)
  Definition evalT := list nat -> node -> nat -> nat -> M value.

  Definition is_name (n : node) (s : string) : bool := String.eqb (n_name n) s.
  Definition is_rt (e : error) (ty : bytes) : bool :=
    match e with ERt t _ => bytes_eqb t ty | _ => false end.
  Definition with_acc (e : error) (v : value) : error :=
    match e with ERt t _ => ERt t v | _ => e end.
  Definition acc_of (e : error) : value := match e with ERt _ a => a | _ => VNull end.

  (* stringValueRuntime.Eval: interpolation happens iff "{{" is followed by "}}" *)
  Definition eval_string (n : node) : res value :=
    if n_allow_esc n then
      match find_sub [123; 123]%N (n_val n) with
      | Some (_, post) =>
        match find_sub [125; 125]%N post with
        | Some _ => RUnmod "string interpolation"
        | None => ROk (VStr (n_val n))
        end
      | None => ROk (VStr (n_val n))
      end
    else ROk (VStr (n_val n)).

  (* errorutil.AssertOk *)
  Definition go_assert_ok {A} (r : res A) : res A :=
    match r with RErr _ => RPanic S_EXCEPT | x => x end.

  (* guardRuntime: ret != nil && ret != false && ret != 0  (the int 0: never equal to a float64) *)
  Definition truthy (v : value) : res bool :=
    match v with
    | VNull => ROk false
    | VBool b => ROk b
    | VOpaque => RUnmod "truth of an untracked Go value"
    | _ => ROk true
    end.

  (* the node (or dummy node of functionResolved) an access expression is resolved on *)
  Record subj := mkSubj { sj_val : bytes; sj_path : list nat; sj_off : nat; sj_kids : list node }.
  Definition subj_of (path : list nat) (n : node) : subj := mkSubj (n_val n) path 0 (n_children n).
  Inductive bstat := BOk | BFunc | BErr (e : error).
  Inductive fobj := FClosure (id : nat) | FBuiltin (name : bytes).

  Definition next_is_funccall (rest : list node) : bool :=
    match rest with c :: _ => is_name c NodeFUNCCALL | [] => false end.
  Fixpoint find_funccall (idx : nat) (kids : list node) : option (nat * node) :=
    match kids with
    | [] => None
    | c :: r => if is_name c NodeFUNCCALL then Some (idx, c) else find_funccall (S idx) r
    end.
  (* functionResolved: the children after the LAST funccall *)
  Fixpoint after_last (idx : nat) (kids : list node) (best : option (nat * list node)) : option (nat * list node) :=
    match kids with
    | [] => best
    | c :: r => after_last (S idx) r (if is_name c NodeFUNCCALL then Some (S idx, r) else best)
    end.

  Definition is_stdlib (astring : bytes) : bool :=
    match split_dot astring with
    | m :: _ :: _ => bytes_eqb m (bs "math")
    | _ => false
    end.

  Definition name_in (a : bytes) (l : list string) : bool := existsb (fun s => bytes_eqb a (bs s)) l.
  Definition modelled_builtins : list string := ["range"; "len"; "del"; "add"; "concat"; "raise"; "type"].

  (* resolveFunctionObject *)
  Definition resolve_fobj (astring : bytes) (result : value) : res (option fobj) :=
    if name_in astring ["log"; "error"; "debug"] then RUnmod "log / error / debug"
    else match result with
         | VFun id => ROk (Some (FClosure id))
         | _ => if name_in astring modelled_builtins then ROk (Some (FBuiltin astring))
                else if name_in astring unmodelled_builtins then RUnmod "built-in function outside the modelled set"
                else ROk None
         end.

  (* keys of a map in the order of their printed form (sortutil.InterfaceStrings) *)
  Fixpoint ins_key (k : bytes * value) (l : list (bytes * value)) : option (list (bytes * value)) :=
    match l with
    | [] => Some [k]
    | x :: r => if bytes_ltb (fst k) (fst x) then Some (k :: l)
                else if bytes_ltb (fst x) (fst k) then
                  match ins_key k r with Some r' => Some (x :: r') | None => None end
                else None          (* two keys print alike: the order depends on Go's map iteration *)
    end.
  Fixpoint sort_keys (l : list (bytes * value)) : option (list (bytes * value)) :=
    match l with
    | [] => Some []
    | k :: r => match sort_keys r with Some r' => ins_key k r' | None => None end
    end.

  Definition err_type_text (e : error) : bytes :=
    match e with
    | EPlain => T_PLAIN
    | ERt ty _ => ty
    | ERaised ty _ _ => ty
    | EReturn _ => bs "*** return ***"
    end.

  (* the error object an except clause binds (tryRuntime.Eval) *)
  Definition make_errobj (e : error) : M value :=
    let k (s : string) := VStr (bs s) in
    let common := [(k "type", VStr (err_type_text e)); (k "error", VOpaque)] in
    let rt (detail : value) := [(k "detail", detail); (k "pos", VOpaque); (k "line", VOpaque);
                                (k "source", VOpaque)] in
    id <- alloc_map (match e with
                     | EPlain => common
                     | ERt _ _ => common ++ rt VOpaque ++ [(k "trace", VOpaque)]
                     | ERaised _ d data => common ++ rt (VStr d) ++ [(k "data", data); (k "trace", VOpaque)]
                     | EReturn _ => common
                     end) ;;
    ret (VMap id).

  (* isFlowSignal *)
  Definition is_flow (e : error) : bool :=
    match e with
    | EReturn _ => true
    | ERt ty _ => bytes_eqb ty T_EOI || bytes_eqb ty T_CONT
    | _ => false
    end.

  Inductive itmode :=
  | ItRange                              (* the expression is an iterator function: evaluated again every round *)
  | ItList (a len : nat)
  | ItMap (id : nat) (keys : list value)
  | ItOne (v : value).

  Section Eval.
    Variable ev : evalT.      (* evaluation with the remaining fuel *)
    Variable fuel : nat.      (* bound of the loops / access recursion at this level *)

    (* ---- operators (rt_general.go) *)
    Definition operands2 (path : list nat) (cs : list node) (sc is : nat) : M (value * value) :=
      match cs with
      | [c1; c2] => v1 <- ev (0 :: path) c1 sc is ;; v2 <- ev (1 :: path) c2 sc is ;; ret (v1, v2)
      | _ => invalid "operation requires 2 operands"
      end.
    Definition num_op (path : list nat) (cs : list node) (sc is : nat) (op : num -> num -> M value) : M value :=
      p <- operands2 path cs sc is ;;
      match fst p with
      | VNum x => match snd p with
                  | VNum y => op x y
                  | _ => fail (rt_err T_NOTNUM)
                  end
      | _ => fail (rt_err T_NOTNUM)
      end.
    Definition num_val (path : list nat) (cs : list node) (sc is : nat) (op : num -> num) : M value :=
      match cs with
      | [c] => v <- ev (0 :: path) c sc is ;;
               match v with VNum x => ret (VNum (op x)) | _ => fail (rt_err T_NOTNUM) end
      | _ => invalid "operation requires 1 operand"
      end.
    Definition bool_val (path : list nat) (cs : list node) (sc is : nat) : M value :=
      match cs with
      | [c] => v <- ev (0 :: path) c sc is ;;
               match v with VBool b => ret (VBool (negb b)) | _ => fail (rt_err T_NOTBOOL) end
      | _ => invalid "operation requires 1 operand"
      end.
    Definition bool_op (path : list nat) (cs : list node) (sc is : nat) (op : bool -> bool -> bool) : M value :=
      p <- operands2 path cs sc is ;;
      match fst p with
      | VBool x => match snd p with
                   | VBool y => ret (VBool (op x y))
                   | _ => fail (rt_err T_NOTBOOL)
                   end
      | _ => fail (rt_err T_NOTBOOL)
      end.
    Definition str_op (path : list nat) (cs : list node) (sc is : nat) (op : bytes -> bytes -> bool) : M value :=
      p <- operands2 path cs sc is ;;
      s1 <- sprint_m (fst p) ;; s2 <- sprint_m (snd p) ;; ret (VBool (op s1 s2)).
    (* numOp, and on ANY error of it strOp (which evaluates both operands again) *)
    Definition cmp_op (path : list nat) (cs : list node) (sc is : nat)
               (fop : num -> num -> bool) (sop : bytes -> bytes -> bool) : M value :=
      r <- attempt (num_op path cs sc is (fun x y => ret (VBool (fop x y)))) ;;
      match r with
      | inl v => ret v
      | inr _ => str_op path cs sc is sop
      end.
    Definition gen_op (path : list nat) (cs : list node) (sc is : nat) (neg : bool) : M value :=
      p <- operands2 path cs sc is ;;
      if uncomparable (fst p) (snd p) then fail (rt_err T_RUNTIME)          (* checkComparable *)
      else b <- lift (go_iface_eq (fst p) (snd p)) ;; ret (VBool (xorb neg b)).
    Fixpoint in_loop (v : value) (l : list value) : M value :=
      match l with
      | [] => ret (VBool false)
      | i :: r =>
        if uncomparable v i then fail (rt_err T_RUNTIME)
        else b <- lift (go_iface_eq v i) ;; if b then ret (VBool true) else in_loop v r
      end.
    Definition in_op (path : list nat) (cs : list node) (sc is : nat) : M value :=
      p <- operands2 path cs sc is ;;
      match snd p with
      | VList a len =>
        cells <- get_arr a ;;
        if length cells <? len then invalid "slice longer than its array" else in_loop (fst p) (firstn len cells)
      | _ => fail (rt_err T_NOTLIST)
      end.
    Definition notin_op (path : list nat) (cs : list node) (sc is : nat) : M value :=
      r <- in_op path cs sc is ;;
      b <- lift (go_assert_bool S_NOT_BOOL r) ;;                  (* !res.(bool) *)
      ret (VBool (negb b)).
    Definition mod_op (path : list nat) (cs : list node) (sc is : nat) : M value :=
      num_op path cs sc is (fun x y =>
        let d := n_trunc y in
        if (d =? 0)%Z then fail (rt_err T_RUNTIME)
        else z <- lift (go_mod (n_trunc x) d) ;; ret (VNum (n_of_Z z))).

    (* ---- list and map literals (rt_value.go) *)
    Fixpoint eval_items (path : list nat) (idx : nat) (items : list node) (sc is : nat) (a len : nat) : M (nat * nat) :=
      match items with
      | [] => ret (a, len)
      | it :: r =>
        v <- ev (idx :: path) it sc is ;;
        p <- slice_append a len [v] ;;
        eval_items path (S idx) r sc is (fst p) (snd p)
      end.
    Definition eval_list (path : list nat) (cs : list node) (sc is : nat) : M value :=
      a <- alloc_arr [] ;; p <- eval_items path 0 cs sc is a 0 ;; ret (VList (fst p) (snd p)).

    Fixpoint eval_kvps (path : list nat) (idx : nat) (kvps : list node) (sc is : nat) (id : nat) : M unit :=
      match kvps with
      | [] => ret tt
      | kvp :: r =>
        match n_children kvp with
        | [k; v] =>
          if is_name kvp NodeKVP then
            key <- ev (0 :: idx :: path) k sc is ;;
            val <- ev (1 :: idx :: path) v sc is ;;
            if hashable key then
              lift (go_map_key key) ;;;                          (* m[key] = val *)
              m <- get_map id ;; set_map id (m_set key val m) ;;;
              eval_kvps path (S idx) r sc is id
            else fail (rt_err T_RUNTIME)
          else invalid "map entry rejected by Validate"
        | _ => invalid "map entry rejected by Validate"
        end
      end.
    Definition eval_map (path : list nat) (cs : list node) (sc is : nat) : M value :=
      id <- alloc_map [] ;; eval_kvps path 0 cs sc is id ;;; ret (VMap id).

    (* ---- identifiers (rt_identifier.go) *)
    (* buildAccessString over the children of [cur]; [brec] continues in a dotted child *)
    Fixpoint build_kids (brec : subj -> bytes -> M (subj * bytes * bstat))
             (cur : subj) (idx : nat) (kids : list node) (acc : bytes) (sc is : nat)
      : M (subj * bytes * bstat) :=
      match kids with
      | [] => ret (cur, acc, BOk)
      | c :: rest =>
        if is_name c NodeCOMPACCESS then
          match n_children c with
          | [] => invalid "compaccess without an index expression"
          | e :: _ =>
            r <- attempt (ev (0 :: idx :: sj_path cur) e sc is) ;;
            match r with
            | inr err =>
              if next_is_funccall rest then
                (* the "Unexpected construct" signal OVERWRITES the error of the index expression;
                   the access string continues with the value returned next to that error *)
                s <- sprint_m (acc_of err) ;;
                ret (cur, acc ++ [DOT] ++ s, BFunc)
              else if is_rt err T_INVCONS
              then unmod "Invalid-construct error of an index expression (read as the function call signal)"
              else ret (cur, acc, BErr err)
            | inl v =>
              s <- sprint_m v ;;
              let acc' := acc ++ [DOT] ++ s in
              if next_is_funccall rest then ret (cur, acc', BFunc)
              else build_kids brec cur (S idx) rest acc' sc is
            end
          end
        else if is_name c NodeIDENTIFIER then
          let acc' := acc ++ [DOT] ++ n_val c in
          let sub := subj_of (idx :: sj_path cur) c in
          match rest with
          | _ :: _ => invalid "children after a dotted identifier"
          | [] =>
            match n_children c with
            | f :: _ => if is_name f NodeFUNCCALL then ret (sub, acc', BFunc) else brec sub acc'
            | [] => brec sub acc'
            end
          end
        else build_kids brec cur (S idx) rest acc sc is
      end.
    Fixpoint build (d : nat) (sc is : nat) (sj : subj) (acc : bytes) : M (subj * bytes * bstat) :=
      match d with
      | O => lift RFuel
      | S d' => build_kids (build d' sc is) sj (sj_off sj) (sj_kids sj) acc sc is
      end.

    (* the arguments of a call: each one with a fresh instance state *)
    Fixpoint eval_args (path : list nat) (idx : nat) (args : list node) (sc : nat) : M (list value) :=
      match args with
      | [] => ret []
      | a :: r =>
        i <- alloc_is ;;
        v <- ev (idx :: path) a sc i ;;
        vs <- eval_args path (S idx) r sc ;;
        ret (v :: vs)
      end.

    (* function.Run: the parameters *)
    Fixpoint bind_params (ppath : list nat) (idx : nat) (ps : list node) (args : list value)
             (fvs dvs is : nat) : M unit :=
      match ps with
      | [] => ret tt
      | p :: r =>
        (if is_name p NodeIDENTIFIER then
           _ <- attempt (set_value fvs (n_val p) (nth idx args VNull)) ;; ret tt
         else if is_name p NodePRESET then
           match n_children p with
           | c0 :: c1 :: _ =>
             v <- (if idx <? length args then ret (nth idx args VNull)
                   else ev (1 :: idx :: ppath) c1 dvs is) ;;
             _ <- attempt (set_value fvs (n_val c0) v) ;; ret tt
           | _ => invalid "preset without name and default"
           end
         else ret tt) ;;;
        bind_params ppath (S idx) r args fvs dvs is
      end.

    Definition run_closure (f : closure) (args : list value) (is : nat) : M callres :=
      let kids := n_children (cl_decl f) in
      let off := match kids with h :: _ => if is_name h NodeIDENTIFIER then 1 else 0 | [] => 0 end in
      match nth_error kids off, nth_error kids (S off) with
      | Some params, Some body =>
        fvs <- new_root ;;
        r <- attempt (bind_params (off :: cl_path f) 0 (n_children params) args fvs (cl_scope f) is) ;;
        match r with
        | inr e => ret (VNull, Some e)
        | inl _ =>
          set_parent fvs (cl_scope f) ;;;
          is' <- alloc_is ;;
          b <- attempt (ev (S off :: cl_path f) body fvs is') ;;
          match b with
          | inl v => ret (v, None)
          | inr (EReturn v) => ret (v, None)
          | inr e => ret (VNull, Some e)
          end
        end
      | _, _ => invalid "function declaration without parameters and body"
      end.

    (* executeFunction *)
    Definition exec_function (f : fobj) (self : list nat) (args : list value) (is : nat) : M callres :=
      match f with
      | FClosure id =>
        c <- get_fun id ;;
        r <- run_closure c args is ;;
        ret (fst r, match snd r with Some EPlain => e_runtime | x => x end)
      | FBuiltin name =>
        if bytes_eqb name (bs "range") then b_range self is args
        else if bytes_eqb name (bs "len") then b_len args
        else if bytes_eqb name (bs "del") then b_del args
        else if bytes_eqb name (bs "add") then b_add args
        else if bytes_eqb name (bs "concat") then b_concat args
        else if bytes_eqb name (bs "raise") then b_raise args
        else if bytes_eqb name (bs "type") then b_type args
        else unmod "built-in function outside the modelled set"
      end.

    (* resolveFunction: the FIRST funccall child of [nd] *)
    Definition resolve_function (astring : bytes) (self : list nat) (nd : subj) (result : value)
               (sc is : nat) : M callres :=
      match find_funccall (sj_off nd) (sj_kids nd) with
      | None => ret (result, None)
      | Some (fidx, fc) =>
        o <- lift (resolve_fobj astring result) ;;
        match o with
        | None => ret (result, Some (rt_err T_UNKNOWN))
        | Some f =>
          r <- attempt (eval_args (fidx :: sj_path nd) 0 (n_children fc) sc) ;;
          match r with
          | inr e => ret (result, Some e)
          | inl args => exec_function f self args is
          end
        end
      end.

    (* resolveValue *)
    Fixpoint resolve (d : nat) (self : list nat) (sj : subj) (sc is : nat) : M callres :=
      match d with
      | O => lift RFuel
      | S d' =>
        match sj_kids sj with
        | [] => v <- get_value sc (sj_val sj) ;; ret (v, None)
        | _ :: _ =>
          b <- build d' sc is sj (sj_val sj) ;;
          let anode := fst (fst b) in
          let astring := snd (fst b) in
          if is_stdlib astring then unmod "stdlib constant or function" else
          match snd b with
          | BErr e => ret (VNull, Some e)
          | bst =>
            r <- attempt (get_value sc astring) ;;
            match r with
            | inr e => ret (VNull, Some e)
            | inl result =>
              match bst with
              | BFunc =>
                cr <- resolve_function astring self anode result sc is ;;
                match after_last (sj_off anode) (sj_kids anode) None with
                | Some (off', k :: kids') =>
                  nsc <- new_root ;;                               (* scope.NewScope("funcresult") *)
                  let nm := dots_to_gt astring in
                  _ <- attempt (set_value nsc nm (fst cr)) ;;
                  resolve d' self (mkSubj nm (sj_path anode) off' (k :: kids')) nsc is
                | _ => ret cr
                end
              | _ => resolve_function astring self sj result sc is
              end
            end
          end
        end
      end.

    Definition eval_identifier (path : list nat) (n : node) (sc is : nat) : M value :=
      cr <- resolve fuel path (subj_of path n) sc is ;;
      match snd cr with
      | None => ret (fst cr)
      | Some e => fail (with_acc e (fst cr))
      end.

    (* identifierRuntime.Set *)
    Definition ident_set (path : list nat) (n : node) (sc is : nat) (v : value) : M unit :=
      match n_children n with
      | [] => set_value sc (n_val n) v
      | _ :: _ =>
        b <- build fuel sc is (subj_of path n) (n_val n) ;;
        match snd b with
        | BOk => set_value sc (snd (fst b)) v
        | BFunc => fail (rt_err T_INVCONS)
        | BErr e => fail e
        end
      end.

    (* ---- assignment (rt_assign.go) *)
    Fixpoint with_paths (p : list nat) (idx : nat) (l : list node) : list (list nat * node) :=
      match l with
      | [] => []
      | x :: r => (idx :: p, x) :: with_paths p (S idx) r
      end.
    (* assignmentRuntime.leftSide as Validate leaves it *)
    Definition left_side (path : list nat) (l : node) : M (list (list nat * node)) :=
      let p0 := 0 :: path in
      let tgt := if is_name l NodeLET
                 then match n_children l with x :: _ => Some (0 :: p0, x) | [] => None end
                 else Some (p0, l) in
      match tgt with
      | None => invalid "let without a variable"
      | Some (p, x) =>
        if is_name x NodeIDENTIFIER then ret [(p, x)]
        else if is_name x NodeLIST then
          if forallb (fun c => is_name c NodeIDENTIFIER) (n_children x) then ret (with_paths p 0 (n_children x))
          else invalid "left side rejected by Validate"
        else invalid "left side rejected by Validate"
      end.
    Fixpoint assign_each (ls : list (list nat * node)) (i : nat) (cells : list value) (len : nat) (sc is : nat) : M unit :=
      match ls with
      | [] => ret tt
      | (p, x) :: r =>
        v <- lift (go_index cells len (Z.of_nat i)) ;;           (* valList[i] *)
        s <- attempt (ident_set p x sc is v) ;;
        match s with
        | inr _ => fail (rt_err T_VARACC)
        | inl _ => assign_each r (S i) cells len sc is
        end
      end.
    Definition eval_assign (path : list nat) (cs : list node) (sc is : nat) : M value :=
      match cs with
      | [l; r] =>
        ev (0 :: path) l sc is ;;;                               (* the left side is evaluated first *)
        v <- ev (1 :: path) r sc is ;;
        ls <- left_side path l ;;
        match ls with
        | [(p, x)] => ident_set p x sc is v ;;; ret VNull
        | _ =>
          match v with
          | VList a len =>
            if Nat.eqb (length ls) len then
              cells <- get_arr a ;; assign_each ls 0 cells len sc is ;;; ret VNull
            else fail (rt_err T_INVSTATE)
          | _ => fail (rt_err T_INVSTATE)
          end
        end
      | _ => invalid "assignment without two children"
      end.

    Fixpoint let_declare (l : list node) (sc : nat) : M unit :=
      match l with
      | [] => ret tt
      | x :: r =>
        match n_children x with
        | [] => _ <- attempt (set_local_nil sc (n_val x)) ;; let_declare r sc
        | _ :: _ => fail (rt_err T_INVCONS)
        end
      end.
    Definition eval_let (path : list nat) (cs : list node) (sc is : nat) : M value :=
      match cs with
      | c :: _ =>
        (if is_name c NodeIDENTIFIER then let_declare [c] sc
         else if is_name c NodeLIST then
           if forallb (fun x => is_name x NodeIDENTIFIER) (n_children c) then let_declare (n_children c) sc
           else invalid "let rejected by Validate"
         else invalid "let rejected by Validate") ;;;
        ev (0 :: path) c sc is
      | [] => invalid "let without a variable"
      end.

    (* ---- statements, if, guard (rt_statements.go) *)
    Fixpoint eval_statements (path : list nat) (idx : nat) (cs : list node) (sc is : nat) (last : value) : M value :=
      match cs with
      | [] => ret last
      | c :: r => v <- ev (idx :: path) c sc is ;; eval_statements path (S idx) r sc is v
      end.

    Fixpoint if_pairs (path : list nat) (idx : nat) (cs : list node) (sc is : nat) : M value :=
      match cs with
      | [] => ret VNull
      | g :: s :: r =>
        if is_name g NodeGUARD then
          gv <- ev (idx :: path) g sc is ;;
          b <- lift (go_assert_bool S_ASSERT_BOOL gv) ;;          (* guardres.(bool) *)
          if b then ev (S idx :: path) s sc is else if_pairs path (S (S idx)) r sc is
        else invalid "condition of if is not a guard"
      | [_] => invalid "if: guard without a block"
      end.
    Definition eval_if (path : list nat) (cs : list node) (sc is : nat) : M value :=
      c <- new_child sc path ;; if_pairs path 0 cs c is.

    Definition eval_guard (path : list nat) (cs : list node) (sc is : nat) : M value :=
      match cs with
      | c :: _ => v <- ev (0 :: path) c sc is ;; b <- lift (truthy v) ;; ret (VBool b)
      | [] => invalid "guard without a condition"
      end.

    (* ---- loops *)
    Fixpoint guard_loop (k : nat) (path : list nat) (g body : node) (sc is : nat) : M unit :=
      match k with
      | O => lift RFuel
      | S k' =>
        gv <- ev (0 :: path) g sc is ;;
        b <- lift (go_assert_bool S_ASSERT_BOOL gv) ;;            (* guardres.(bool) *)
        if b then
          r <- attempt (ev (1 :: path) body sc is) ;;
          match r with
          | inl _ => guard_loop k' path g body sc is
          | inr e => if is_rt e T_CONT then guard_loop k' path g body sc is else fail e
          end
        else ret tt
      end.

    Fixpoint set_each (vars : list bytes) (i : nat) (cells : list value) (len : nat) (sc : nat) : M unit :=
      match vars with
      | [] => ret tt
      | x :: r =>
        v <- lift (go_index cells len (Z.of_nat i)) ;;           (* resList[i] *)
        set_value sc x v ;;; set_each r (S i) cells len sc
      end.
    (* the loop variables receive the iterator's value; any failure is a "Runtime error" *)
    Definition assign_vars (vars : list bytes) (v : value) (sc : nat) : M unit :=
      r <- attempt (match vars with
                    | [x] => set_value sc x v
                    | _ => match v with
                           | VList a len =>
                             if Nat.eqb (length vars) len then cells <- get_arr a ;; set_each vars 0 cells len sc
                             else fail EPlain
                           | _ => fail EPlain
                           end
                    end) ;;
      match r with
      | inl _ => ret tt
      | inr _ => fail (rt_err T_RUNTIME)
      end.

    (* getIteratorValue: the next value, or the error that ends the loop *)
    Definition iter_next (mode : itmode) (index : nat) (ipath : list nat) (it : node) (sc is : nat) : M (value + error) :=
      match mode with
      | ItRange =>
        r <- attempt (ev ipath it sc is) ;;
        match r with
        | inl v => ret (inl v)
        | inr e => if is_rt e T_ISITER then ret (inl (acc_of e)) else ret (inr e)
        end
      | ItList a len =>
        if index <? len then
          cells <- get_arr a ;; v <- lift (go_index cells len (Z.of_nat index)) ;; ret (inl v)
        else ret (inr (rt_err T_EOI))
      | ItMap id keys =>
        match nth_error keys index with
        | Some k =>
          m <- get_map id ;;
          a <- alloc_arr [k; match m_get k m with Some v => v | None => VNull end] ;;
          ret (inl (VList a 2))
        | None => ret (inr (rt_err T_EOI))
        end
      | ItOne v => if Nat.eqb index 0 then ret (inl v) else ret (inr (rt_err T_EOI))
      end.

    Fixpoint iter_loop (k : nat) (mode : itmode) (index : nat) (path : list nat) (it body : node)
             (vars : list bytes) (sc is : nat) : M value :=
      let finish (e : error) : M value := if is_rt e T_EOI then ret VNull else fail e in
      match k with
      | O => lift RFuel
      | S k' =>
        nx <- iter_next mode index (1 :: 0 :: path) it sc is ;;
        match nx with
        | inr e => if is_rt e T_CONT then iter_loop k' mode (S index) path it body vars sc is else finish e
        | inl v =>
          assign_vars vars v sc ;;;
          r <- attempt (ev (1 :: path) body sc is) ;;
          match r with
          | inl _ => iter_loop k' mode (S index) path it body vars sc is
          | inr e => if is_rt e T_CONT then iter_loop k' mode (S index) path it body vars sc is else finish e
          end
        end
      end.

    (* loopRuntime.leftInVarName as Validate leaves it *)
    Definition loop_vars (v : node) : list bytes :=
      if is_name v NodeIDENTIFIER then [n_val v]
      else if is_name v NodeLIST then map n_val (n_children v)
      else [].

    Definition eval_loop (path : list nat) (cs : list node) (sc is0 : nat) : M value :=
      c <- new_child sc path ;;
      is <- alloc_is ;;
      match cs with
      | h :: body :: _ =>
        if is_name h NodeGUARD then
          r <- attempt (guard_loop fuel path h body c is) ;;
          match r with
          | inl _ => ret VNull
          | inr e => if is_rt e T_EOI then ret VNull else fail e
          end
        else if is_name h NodeIN then
          match n_children h with
          | [v; it] =>
            let vars := loop_vars v in
            r <- attempt (ev (1 :: 0 :: path) it c is) ;;
            match r with
            | inr e =>
              if is_rt e T_ISITER then
                if is_name it NodeIDENTIFIER then iter_loop fuel ItRange 0 path it body vars c is
                else unmod "iterator signal through an expression that is not a call"
              else if is_rt e T_EOI then ret VNull else fail e
            | inl (VList a len) => iter_loop fuel (ItList a len) 0 path it body vars c is
            | inl (VMap id) =>
              m <- get_map id ;;
              st <- get_st ;;
              match all_some (map (fun kv => match sprint 8 st (fst kv) with
                                             | Some s => Some (s, fst kv)
                                             | None => None end) m) with
              | None => unmod "fmt.Sprint of a map key outside the modelled domain"
              | Some ks =>
                match sort_keys ks with
                | None => unmod "two map keys with the same printed form"
                | Some sorted => iter_loop fuel (ItMap id (map snd sorted)) 0 path it body vars c is
                end
              end
            | inl v => iter_loop fuel (ItOne v) 0 path it body vars c is
            end
          | _ => invalid "in without two operands"
          end
        else ret VNull
      | _ => invalid "loop without head and block"
      end.

    (* ---- try (rt_statements.go) *)
    (* evalExcept: (handled?, error of the handler) *)
    Fixpoint except_kids (epath : list nat) (idx : nat) (kids : list node) (sc is : nat)
             (errObj : value) (tytext : bytes)
             (hit hasTypes : bool) (errorVar : bytes) (newerr : option error) : M (bool * option error) :=
      match kids with
      | [] => ret (hit, newerr)
      | c :: r =>
        if is_name c NodeSTRING then
          if hit then except_kids epath (S idx) r sc is errObj tytext hit true errorVar newerr
          else
            sv <- lift (go_assert_ok (eval_string c)) ;;           (* errorutil.AssertOk(evalErr) *)
            let hit' := match sv with VStr s => bytes_eqb s tytext | _ => false end in
            except_kids epath (S idx) r sc is errObj tytext hit' true errorVar newerr
        else if is_name c NodeAS then
          match n_children c with
          | x :: _ => except_kids epath (S idx) r sc is errObj tytext hit hasTypes (n_val x) newerr
          | [] => invalid "as without a variable"
          end
        else if is_name c NodeIDENTIFIER then
          except_kids epath (S idx) r sc is errObj tytext hit hasTypes (n_val c) newerr
        else if is_name c NodeSTATEMENTS then
          let hit' := if hasTypes then hit else true in
          if hit' then
            evs <- new_child sc epath ;;
            (match errorVar with
             | [] => ret tt
             | _ => _ <- attempt (set_value evs errorVar errObj) ;; ret tt
             end) ;;;
            b <- attempt (ev (idx :: epath) c evs is) ;;
            except_kids epath (S idx) r sc is errObj tytext hit' hasTypes errorVar
                        (match b with inl _ => None | inr e => Some e end)
          else except_kids epath (S idx) r sc is errObj tytext hit' hasTypes errorVar newerr
        else except_kids epath (S idx) r sc is errObj tytext hit hasTypes errorVar newerr
      end.

    Fixpoint try_excepts (path : list nat) (idx : nat) (kids : list node) (sc is : nat)
             (e : error) (errObj : value) : M value :=
      match kids with
      | [] => fail e
      | c :: r =>
        if is_name c NodeEXCEPT then
          h <- except_kids (idx :: path) 0 (n_children c) sc is errObj (err_type_text e) false false [] None ;;
          if fst h then match snd h with None => ret VNull | Some ne => fail ne end
          else try_excepts path (S idx) r sc is e errObj
        else try_excepts path (S idx) r sc is e errObj
      end.

    Fixpoint try_otherwise (path : list nat) (idx : nat) (kids : list node) (sc is : nat) : M unit :=
      match kids with
      | [] => ret tt
      | c :: r =>
        if is_name c NodeOTHERWISE then
          match n_children c with
          | b :: _ => ovs <- new_child sc (idx :: path) ;; ev (0 :: idx :: path) b ovs is ;;; ret tt
          | [] => invalid "otherwise without a block"
          end
        else try_otherwise path (S idx) r sc is
      end.

    Definition try_main (path : list nat) (body : node) (rest : list node) (sc is : nat) : M value :=
      tvs <- new_child sc path ;;
      r <- attempt (ev (0 :: path) body tvs is) ;;
      match r with
      | inl v => try_otherwise path 1 rest sc is ;;; ret v
      | inr e =>
        if is_flow e then fail e
        else errObj <- make_errobj e ;; try_excepts path 1 rest sc is e errObj
      end.

    Definition eval_try (path : list nat) (cs : list node) (sc is : nat) : M value :=
      match cs with
      | [] => invalid "try without a block"
      | body :: rest =>
        let fidx := length cs - 1 in
        let fin := last cs body in
        if is_name fin NodeFINALLY then
          match n_children fin with
          | fb :: _ =>
            fvs <- new_child sc (fidx :: path) ;;
            r <- attempt (try_main path body rest sc is) ;;
            fr <- attempt (ev (0 :: fidx :: path) fb fvs is) ;;     (* deferred: runs in any case *)
            match fr with
            | inr fe => fail fe                                    (* an error in finally replaces the result *)
            | inl _ => match r with inl v => ret v | inr e => fail e end
            end
          | [] => invalid "finally without a block"
          end
        else try_main path body rest sc is
      end.

    (* ---- functions (rt_func.go), mutex *)
    Definition eval_func (path : list nat) (n : node) (sc : nat) : M value :=
      match n_children n with
      | h :: _ =>
        let name := if is_name h NodeIDENTIFIER then n_val h else [] in
        id <- alloc_fun (mkClo name n path sc) ;;
        (match name with
         | [] => ret tt
         | _ => _ <- attempt (set_value sc name (VFun id)) ;; ret tt
         end) ;;;
        ret (VFun id)
      | [] => invalid "function without children"
      end.

    Definition eval_return (path : list nat) (cs : list node) (sc is : nat) : M value :=
      match cs with
      | [] => fail (EReturn VNull)
      | c :: _ => v <- ev (0 :: path) c sc is ;; fail (EReturn v)
      end.

    Definition eval_mutex (path : list nat) (cs : list node) (sc is : nat) : M value :=
      match cs with
      | [_; body] => tvs <- new_child sc path ;; ev (1 :: path) body tvs is
      | _ => invalid "mutex without name and block"
      end.

    Definition void_kinds : list string :=
      [NodeFUNCCALL; NodeCOMPACCESS; NodePARAMS; NodeKVP; NodePRESET; NodeAS; NodeEXCEPT; NodeOTHERWISE; NodeFINALLY].
    Definition unmodelled_kinds : list string :=
      [NodeIMPORT; NodeSINK; NodeKINDMATCH; NodeSCOPEMATCH; NodeSTATEMATCH; NodePRIORITY; NodeSUPPRESSES].

    (* providerMap: one runtime component per node kind *)
    Definition eval_node (path : list nat) (n : node) (sc is : nat) : M value :=
      let name := n_name n in
      let cs := n_children n in
      let isn (s : string) := String.eqb name s in
      if isn NodeNUMBER then
        match n_parse_lit (n_val n) with
        | Some x => ret (VNum x)
        | None => invalid "number literal rejected by Validate"
        end
      else if isn NodeSTRING then lift (eval_string n)
      else if isn NodeTRUE then ret (VBool true)
      else if isn NodeFALSE then ret (VBool false)
      else if isn NodeNULL then ret VNull
      else if isn NodeIDENTIFIER then eval_identifier path n sc is
      else if isn NodeLIST then eval_list path cs sc is
      else if isn NodeMAP then eval_map path cs sc is
      else if isn NodePLUS then
        match cs with [_] => num_val path cs sc is (fun x => x)
                 | _ => num_op path cs sc is (fun x y => ret (VNum (n_add x y))) end
      else if isn NodeMINUS then
        match cs with [_] => num_val path cs sc is n_opp
                 | _ => num_op path cs sc is (fun x y => ret (VNum (n_sub x y))) end
      else if isn NodeTIMES then num_op path cs sc is (fun x y => ret (VNum (n_mul x y)))
      else if isn NodeDIV then num_op path cs sc is (fun x y => ret (VNum (n_div x y)))
      else if isn NodeDIVINT then num_op path cs sc is (fun x y => ret (VNum (n_divint x y)))
      else if isn NodeMODINT then mod_op path cs sc is
      else if isn NodeGEQ then cmp_op path cs sc is (fun x y => n_leb y x) (fun a b => bytes_leb b a)
      else if isn NodeGT then cmp_op path cs sc is (fun x y => n_ltb y x) (fun a b => bytes_ltb b a)
      else if isn NodeLEQ then cmp_op path cs sc is n_leb bytes_leb
      else if isn NodeLT then cmp_op path cs sc is n_ltb bytes_ltb
      else if isn NodeEQ then gen_op path cs sc is false
      else if isn NodeNEQ then gen_op path cs sc is true
      else if isn NodeAND then bool_op path cs sc is andb
      else if isn NodeOR then bool_op path cs sc is orb
      else if isn NodeNOT then bool_val path cs sc is
      else if isn NodeIN then in_op path cs sc is
      else if isn NodeNOTIN then notin_op path cs sc is
      else if isn NodeHASPREFIX then str_op path cs sc is (fun a b => prefixb b a)
      else if isn NodeHASSUFFIX then str_op path cs sc is (fun a b => suffixb b a)
      else if isn NodeLIKE then (operands2 path cs sc is ;;; unmod "like (regular expressions)")
      else if isn NodeASSIGN then eval_assign path cs sc is
      else if isn NodeLET then eval_let path cs sc is
      else if isn NodeSTATEMENTS then eval_statements path 0 cs sc is VNull
      else if isn NodeIF then eval_if path cs sc is
      else if isn NodeGUARD then eval_guard path cs sc is
      else if isn NodeLOOP then eval_loop path cs sc is
      else if isn NodeBREAK then fail (rt_err T_EOI)
      else if isn NodeCONTINUE then fail (rt_err T_CONT)
      else if isn NodeRETURN then eval_return path cs sc is
      else if isn NodeTRY then eval_try path cs sc is
      else if isn NodeFUNC then eval_func path n sc
      else if isn NodeMUTEX then eval_mutex path cs sc is
      else if existsb isn void_kinds then ret VNull               (* voidRuntime *)
      else if existsb isn unmodelled_kinds then unmod "sink / import"
      else fail (rt_err T_INVCONS).                               (* invalidRuntime *)
  End Eval.

  Fixpoint eval (fuel : nat) : evalT :=
    match fuel with
    | O => fun _ _ _ _ => lift RFuel
    | S f => eval_node (eval f) f
    end.

  (* ---------------------------------------------------------------- Validate *)
  Inductive vres := VOk | VErr (e : error) | VUnmod (w : string) | VInvalid (w : string).

  Definition all_idents (l : list node) : bool := forallb (fun c => is_name c NodeIDENTIFIER) l.

  (* the check a runtime component adds after its children validated *)
  Definition validate_node (n : node) : vres :=
    let name := n_name n in
    let cs := n_children n in
    let isn (s : string) := String.eqb name s in
    if isn NodeNUMBER then
      match n_parse_lit (n_val n) with Some _ => VOk | None => VErr EPlain end
    else if isn NodeMAP then
      if forallb (fun k => is_name k NodeKVP && Nat.eqb (length (n_children k)) 2) cs then VOk
      else VErr (rt_err T_INVCONS)
    else if isn NodeLOOP then
      match cs with
      | h :: _ =>
        if is_name h NodeIN then
          match n_children h with
          | v :: _ =>
            if is_name v NodeIDENTIFIER then
              match n_children v with [] => VOk | _ => VErr (rt_err T_INVCONS) end
            else if is_name v NodeLIST then
              if forallb (fun c => is_name c NodeIDENTIFIER && Nat.eqb (length (n_children c)) 0) (n_children v)
              then VOk else VErr (rt_err T_INVCONS)
            else VOk
          | [] => VInvalid "in without operands"
          end
        else VOk
      | [] => VInvalid "loop without children"
      end
    else if isn NodeASSIGN then
      match cs with
      | l :: _ =>
        let tgt := if is_name l NodeLET then match n_children l with x :: _ => Some x | [] => None end
                   else Some l in
        match tgt with
        | None => VInvalid "let without a variable"
        | Some x =>
          if is_name x NodeIDENTIFIER then VOk
          else if is_name x NodeLIST then
            if all_idents (n_children x) then VOk else VErr (rt_err T_VARACC)
          else VErr (rt_err T_VARACC)
        end
      | [] => VInvalid "assignment without children"
      end
    else if isn NodeLET then
      match cs with
      | x :: _ =>
        if is_name x NodeIDENTIFIER then VOk
        else if is_name x NodeLIST then
          if all_idents (n_children x) then VOk else VErr (rt_err T_INVCONS)
        else VErr (rt_err T_INVCONS)
      | [] => VInvalid "let without a variable"
      end
    else if existsb isn unmodelled_kinds then VUnmod "sink / import"
    else if existsb isn
         [NodeSTRING; NodeTRUE; NodeFALSE; NodeNULL; NodeIDENTIFIER; NodeLIST; NodePLUS; NodeMINUS; NodeTIMES;
          NodeDIV; NodeDIVINT; NodeMODINT; NodeGEQ; NodeGT; NodeLEQ; NodeLT; NodeEQ; NodeNEQ; NodeAND; NodeOR;
          NodeNOT; NodeIN; NodeNOTIN; NodeHASPREFIX; NodeHASSUFFIX; NodeLIKE; NodeSTATEMENTS; NodeIF; NodeGUARD;
          NodeBREAK; NodeCONTINUE; NodeRETURN; NodeTRY; NodeFUNC; NodeMUTEX] then VOk
    else if existsb isn void_kinds then VOk
    else VErr (rt_err T_INVCONS).                                  (* invalidRuntime.Validate *)

  (* baseRuntime.Validate: the children in order, then the node's own check *)
  Fixpoint validate (n : node) : vres :=
    match n with
    | Node _ _ _ _ _ cs =>
      match (fix go (l : list node) : vres :=
               match l with
               | [] => VOk
               | c :: r => match validate c with VOk => go r | x => x end
               end) cs with
      | VOk => validate_node n
      | x => x
      end
    end.

  (* ---------------------------------------------------------------- a program run *)
  Definition init_state : state := mkSt [mkScope [] None [] []] [] [] [] [[]].

  (* Parse (done by the caller) -> Validate -> Eval in a fresh global scope *)
  Definition run (fuel : nat) (t : node) : res value * state :=
    match validate t with
    | VOk => eval fuel [] t 0 0 init_state
    | VErr e => (RErr e, init_state)
    | VUnmod w => (RUnmod w, init_state)
    | VInvalid w => (RInvalid w, init_state)
    end.
End Interp.


Arguments ROk {NO A} a.
Arguments RErr {NO A} e.
Arguments RPanic {NO A} site.
Arguments RFuel {NO A}.
Arguments RUnmod {NO A} why.
Arguments RInvalid {NO A} why.
