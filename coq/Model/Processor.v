(* Model/Processor.v — engine/processor.go: the triggering cache of AddEvent /
   IsTriggering and ProcessEvent (after the C01 repairs).

     IsTriggering(event): key := the event kind; cached answer if present, otherwise
                          ruleIndex.IsTriggering(event), stored under the key
     AddEvent:            not triggering -> skipped (nil monitor); otherwise the event is
                          queued and a worker runs ProcessEvent for it
     ProcessEvent:        candidates := ruleIndex.Match(event); keep those whose ScopeMatch
                          is allowed by the monitor's scope and collect their suppression
                          lists; drop the suppressed ones; sort by priority; run the actions
   Rules are only added while the processor is stopped (AddRule clears the cache), so a
   running processor has a fixed index.  What the thread pool adds (which worker runs the
   task, when) is the subject of C02/C09; here a queued event is processed exactly once.
   No proofs in this file. *)
From Ecal Require Export Model.RuleIndex Model.RuleScope.

Record proc := mkProc { p_root : root; p_cache : list (path * bool) }.

Definition start (rt : root) : proc := mkProc rt [].

Fixpoint cache_get (k : path) (c : list (path * bool)) : option bool :=
  match c with
  | [] => None
  | (k', b) :: c' => if path_eqb k' k then Some b else cache_get k c'
  end.

Definition proc_is_triggering (p : proc) (ev : event) : proc * bool :=
  match cache_get (e_kind ev) (p_cache p) with
  | Some b => (p, b)
  | None => let b := is_triggering (p_root p) ev in
            (mkProc (p_root p) ((e_kind ev, b) :: p_cache p), b)
  end.

Inductive added := Skipped | Queued.

Definition add_event (p : proc) (ev : event) : proc * added :=
  let '(p', b) := proc_is_triggering p ev in (p', if b then Queued else Skipped).

(* sort.Sort(RuleSlice): ascending priority (the order among equal priorities is not
   specified by Go's sort; the model uses a stable insertion sort) *)
Fixpoint insert_rule (r : rule) (l : list rule) : list rule :=
  match l with
  | [] => [r]
  | x :: l' => if (r_prio r <=? r_prio x)%Z then r :: l else x :: insert_rule r l'
  end.

Fixpoint sort_rules (l : list rule) : list rule :=
  match l with
  | [] => []
  | r :: l' => insert_rule r (sort_rules l')
  end.

Section Process.
  Variable rx : N -> value -> bool.

  Definition process_event (rt : root) (sc : stree) (ev : event) : list rule :=
    let candidates := match_ev rx rt ev in
    let triggering := filter (fun r => is_allowed_all sc (r_scopes r)) candidates in
    let suppressedNames := flat_map r_suppress triggering in
    let executing := filter (fun r => negb (memN (r_name r) suppressedNames)) triggering in
    sort_rules executing.

  (* AddEventAndWait(event, root monitor with scope sc): the actions that ran *)
  Definition run_event (p : proc) (sc : stree) (ev : event) : proc * added * list rule :=
    let '(p', a) := add_event p ev in
    (p', a, match a with Skipped => [] | Queued => process_event (p_root p') sc ev end).

  Fixpoint run_history (p : proc) (h : list (stree * event)) : proc * list (added * list rule) :=
    match h with
    | [] => (p, [])
    | (sc, ev) :: h' =>
      let '(p', a, ex) := run_event p sc ev in
      let '(p'', res) := run_history p' h' in (p'', (a, ex) :: res)
    end.
End Process.

(* events added earlier only change the cache *)
Definition after_history (p : proc) (h : list event) : proc :=
  fold_left (fun p ev => fst (add_event p ev)) h p.

(* ---- the unrepaired cache: keyed by the event NAME --------------------------------- *)
Record old_proc := mkOldProc { op_root : root; op_cache : list (N * bool) }.

Definition old_add_event (p : old_proc) (ev : event) : old_proc * added :=
  match assoc (e_name ev) (op_cache p) with
  | Some b => (p, if b then Queued else Skipped)
  | None => let b := is_triggering (op_root p) ev in
            (mkOldProc (op_root p) ((e_name ev, b) :: op_cache p), if b then Queued else Skipped)
  end.

Definition old_after_history (p : old_proc) (h : list event) : old_proc :=
  fold_left (fun p ev => fst (old_add_event p ev)) h p.
