(* Model/IntHeap.v — Go's container/heap (up, down, Init, Push, Pop, Fix) on arrays-as-lists,
   generic in the element type and in h.Less, and github.com/krotik/common/sortutil.IntHeap
   (Less = "<" on int; Push appends, Pop drops the last element; RemoveFirst; RemoveAll).
   Definitions only.

   Conventions: an array is a list, h[i] is [nth i l d]; every index the Go code uses is in
   range under the guards of the callers (proved in Proofs/MonitorProofs.v), so the default [d]
   is never read.  Loops carry fuel; the given fuel is proved sufficient (the result does not
   depend on additional fuel).  Go ints are unbounded integers here: the overflow test
   "j1 < 0" of heap.down is unreachable for slice lengths below 2^62. *)
From Coq Require Import List ZArith Bool Arith.
Import ListNotations.

Section Heap.
  Variable A : Type.
  Variable ltb : A -> A -> bool.        (* h.Less(i, j) evaluated on the values h[i], h[j] *)
  Variable d : A.

  Fixpoint upd (l : list A) (i : nat) (x : A) : list A :=
    match l, i with
    | [], _ => []
    | _ :: t, O => x :: t
    | h :: t, S i' => h :: upd t i' x
    end.

  (* h.Swap(i, j) *)
  Definition swap (l : list A) (i j : nat) : list A :=
    upd (upd l i (nth j l d)) j (nth i l d).

  (* (j - 1) / 2 with Go's truncation toward zero: 0 for j = 0 *)
  Definition parent (j : nat) : nat := (j - 1) / 2.

  (* func up(h, j): for { i := (j-1)/2; if i == j || !h.Less(j, i) { break }; h.Swap(i, j); j = i } *)
  Fixpoint up (fuel : nat) (l : list A) (j : nat) : list A :=
    match fuel with
    | O => l
    | S f =>
      let i := parent j in
      if Nat.eqb i j || negb (ltb (nth j l d) (nth i l d)) then l
      else up f (swap l i j) i
    end.

  (* func down(h, i0, n) bool: returns the array and the final position i (Go returns i > i0) *)
  Fixpoint down (fuel : nat) (l : list A) (i n : nat) : list A * nat :=
    match fuel with
    | O => (l, i)
    | S f =>
      let j1 := 2 * i + 1 in
      if n <=? j1 then (l, i)
      else
        let j := if (j1 + 1 <? n) && ltb (nth (j1 + 1) l d) (nth j1 l d) then j1 + 1 else j1 in
        if negb (ltb (nth j l d) (nth i l d)) then (l, i)
        else down f (swap l i j) j n
    end.

  (* heap.Push: h.Push(x) (append); up(h, h.Len()-1) *)
  Definition heap_push (l : list A) (x : A) : list A :=
    let l' := l ++ [x] in up (length l') l' (length l' - 1).

  (* heap.Pop: n := h.Len()-1; h.Swap(0, n); down(h, 0, n); return h.Pop() (drop last).
     None = the Go code panics (index out of range) on an empty heap. *)
  Definition heap_pop (l : list A) : option (A * list A) :=
    match l with
    | [] => None
    | _ => let n := length l - 1 in
           let l2 := fst (down (S n) (swap l 0 n) 0 n) in
           Some (nth n l2 d, removelast l2)
    end.

  (* heap.Fix: if !down(h, i, h.Len()) { up(h, i) } *)
  Definition heap_fix (l : list A) (i : nat) : list A :=
    let r := down (S (length l)) l i (length l) in
    if i <? snd r then fst r else up (S i) (fst r) i.

  (* heap.Init: for i := n/2 - 1; i >= 0; i-- { down(h, i, n) } *)
  Fixpoint init_loop (k : nat) (l : list A) : list A :=   (* k = i + 1 *)
    match k with
    | O => l
    | S i => init_loop i (fst (down (S (length l)) l i (length l)))
    end.
  Definition heap_init (l : list A) : list A := init_loop (length l / 2) l.
End Heap.
Arguments upd {A}. Arguments swap {A}. Arguments up {A}. Arguments down {A}.
Arguments heap_push {A}. Arguments heap_pop {A}. Arguments heap_fix {A}. Arguments heap_init {A}.

(* ---- sortutil.IntHeap ------------------------------------------------------------- *)
Definition intheap := list Z.
Definition ih_push (h : intheap) (x : Z) : intheap := heap_push Z.ltb 0%Z h x.
Definition ih_pop (h : intheap) : option (Z * intheap) := heap_pop Z.ltb 0%Z h.

(* index of the first occurrence *)
Fixpoint find_first (r : Z) (l : list Z) (i : nat) : option nat :=
  match l with
  | [] => None
  | x :: t => if Z.eqb x r then Some i else find_first r t (S i)
  end.

Fixpoint remove_nth {A} (l : list A) (i : nat) : list A :=
  match l, i with
  | [], _ => []
  | _ :: t, O => t
  | h :: t, S i' => h :: remove_nth t i'
  end.

(* IntHeap.RemoveFirst — the library routine the UNREPAIRED monitor used:
     for i, item := range heapList { if item == r {
        if i+1 < len(heapList) { *h = append(heapList[:i], heapList[i+1:]...); heap.Fix(h, i); break }
        else { *h = heapList[:i] } } }
   It splices position i out of the array (every later element changes its parent) and
   repairs position i only. *)
Definition ih_remove_first (h : intheap) (r : Z) : intheap :=
  match find_first r h 0 with
  | None => h
  | Some i =>
    if S i <? length h then heap_fix Z.ltb 0%Z (remove_nth h i) i
    else firstn i h
  end.

(* IntHeap.RemoveAll — what the repaired monitor calls:
     newHeap := &IntHeap{}
     for len(h) > 0 { item := heap.Pop(h); if item != r { heap.Push(newHeap, item) } }
     *h = *newHeap *)
Fixpoint remove_all_loop (fuel : nat) (h newh : intheap) (r : Z) : intheap :=
  match fuel with
  | O => newh
  | S f =>
    match ih_pop h with
    | None => newh                                   (* len(h) == 0 *)
    | Some (x, h') => remove_all_loop f h' (if Z.eqb x r then newh else ih_push newh x) r
    end
  end.
Definition ih_remove_all (h : intheap) (r : Z) : intheap := remove_all_loop (length h) h [] r.

(* h[0] guarded by len(h) > 0 *)
Definition ih_peek (h : intheap) : option Z :=
  match h with [] => None | x :: _ => Some x end.
