(* Model/SinkInv.v — overlapping invocations of sink actions (interpreter/rt_sink.go,
   sinkRuntime.Eval: the function literal assigned to rule.Action), on Common/Sched.v.

   Go code followed (one invocation = one call of the literal by a pool worker,
   engine/processor.go ProcessEvent: `if err := rule.Action(p, parent, event, tid); err != nil
   { errors[rule.Name] = err }` — the per-event error map is local to that call):

     func(p, m, e, tid) error {
   PBind        sinkVS := scope.NewScope("sink: ..")            fresh scope, own RWMutex
                sinkIs := map{"monitor": m}                     fresh instance state
                err = sinkVS.SetValue("event", {name,kind,state of e})
   PCheckBind   if err == nil {
   PReparent      scope.SetParentOfScope(sinkVS, vs)            Lock(sinkVS.lock); Lock(vs.lock);
                                                                sinkVS.lock = vs.lock
   PBody1/2       _, err = statements.Runtime.Eval(sinkVS, sinkIs, tid)
                                                                the body: reads `event`, sets a local,
                                                                (may be overlapped here), reads both
                                                                again, calls functions, succeeds or
                                                                fails (raise / runtime error / return)
   PCheckEval     if err != nil {
   PWrap            sre.Environment = sinkVS   or   err = &RuntimeErrorWithDetail{.., Environment: sinkVS, Data}
                                                                (err.Error() on a nil err: Go panic)
                  } }
   PReturn      return err
     }

   The three variables of the literal — err, sinkVS, sinkIs — live either in the invocation's
   own frame or in the closure's environment (one cell shared by every invocation of that
   sink): [sharing] says which; it is the parameter that the static scan
   (gen/SinkClosure.v: captured_writes) instantiates.  A Go panic and a goroutine that
   blocks for ever (second Lock of the same RWMutex in SetParentOfScope) are explicit
   thread states.  No proofs in this file. *)
From Coq Require Import List Bool Arith String.
From Ecal Require Import Common.Sched.
Import ListNotations.
Local Open Scope nat_scope.

Inductive cvar := VErr | VScope | VIs.

Definition cvar_name (v : cvar) : string :=
  match v with VErr => "err" | VScope => "sinkVS" | VIs => "sinkIs" end%string.

Definition sharing := cvar -> bool.
Definition no_sharing : sharing := fun _ => false.

(* the sharing that a list of captured-and-written variable names stands for *)
Definition sharing_of (cw : list string) : sharing :=
  fun v => existsb (String.eqb (cvar_name v)) cw.

Inductive pc := PBind | PCheckBind | PReparent | PBody1 | PBody2 | PCheckEval | PWrap | PReturn | PDone.

Definition pc_index (p : pc) : nat :=
  match p with
  | PBind => 0 | PCheckBind => 1 | PReparent => 2 | PBody1 => 3 | PBody2 => 4
  | PCheckEval => 5 | PWrap => 6 | PReturn => 7 | PDone => 8
  end.

Inductive status := Running | Panicked (site : string) | Deadlocked.

(* the RWMutex of the declaring scope tree (the global scope and all its children) *)
Definition tree_lock : nat := 0.

Section Model.
  Variables (payload err0 : Type).
  Variable pid : payload -> nat.              (* what the body echoes from `event` *)
  Variable body : payload -> option err0.     (* the sink's statements: None = no error *)

  (* error value handed to the engine: what the body produced + the scope attached to it *)
  Record rerr := mkRerr { r_base : err0; r_env : option nat }.

  Record scope := mkScope {
    sc_owner : nat;             (* invocation that created the scope object *)
    sc_lock : nat;              (* identity of the RWMutex it currently uses *)
    sc_event : payload;         (* value of `event` *)
    sc_local : option nat;      (* a local variable set by the body *)
    sc_parented : bool }.

  Record cells := mkCells { c_err : option rerr; c_scope : option scope; c_is : option nat }.
  Definition no_cells : cells := mkCells None None None.

  Record thread := mkThread {
    t_pc : pc;
    t_st : status;
    t_ev : payload;                                 (* the event this invocation was called with *)
    t_loc : cells;                                  (* the invocation's own frame *)
    t_seen : option nat;                            (* Go-side register: id read at PBody1 *)
    t_echo : option (option nat * nat * option nat);(* (id at PBody1, id at PBody2, local at PBody2) *)
    t_mon : option nat;                             (* monitor the body ran with *)
    t_ret : option (option rerr) }.                 (* value returned to ProcessEvent *)

  (* memory seen by one step: (closure environment, own frame) *)
  Definition mem := (cells * cells)%type.

  Definition rd_err (sh : sharing) (m : mem) := if sh VErr then c_err (fst m) else c_err (snd m).
  Definition rd_scope (sh : sharing) (m : mem) := if sh VScope then c_scope (fst m) else c_scope (snd m).
  Definition rd_is (sh : sharing) (m : mem) := if sh VIs then c_is (fst m) else c_is (snd m).

  Definition set_err (c : cells) x := mkCells x (c_scope c) (c_is c).
  Definition set_scope (c : cells) x := mkCells (c_err c) x (c_is c).
  Definition set_is (c : cells) x := mkCells (c_err c) (c_scope c) x.

  Definition wr_err (sh : sharing) x (m : mem) : mem :=
    if sh VErr then (set_err (fst m) x, snd m) else (fst m, set_err (snd m) x).
  Definition wr_scope (sh : sharing) x (m : mem) : mem :=
    if sh VScope then (set_scope (fst m) x, snd m) else (fst m, set_scope (snd m) x).
  Definition wr_is (sh : sharing) x (m : mem) : mem :=
    if sh VIs then (set_is (fst m) x, snd m) else (fst m, set_is (snd m) x).

  Definition advance (th : thread) (p : pc) (m : mem) : option (cells * thread) :=
    Some (fst m, mkThread p (t_st th) (t_ev th) (snd m) (t_seen th) (t_echo th) (t_mon th) (t_ret th)).

  Definition halt (th : thread) (st : status) (m : mem) : option (cells * thread) :=
    Some (fst m, mkThread (t_pc th) st (t_ev th) (snd m) (t_seen th) (t_echo th) (t_mon th) (t_ret th)).

  (* one step of invocation t; None = not enabled (returned, panicked or blocked for ever) *)
  Definition tstep (sh : sharing) (t : nat) (env : cells) (th : thread) : option (cells * thread) :=
    let m : mem := (env, t_loc th) in
    match t_st th with
    | Panicked _ => None
    | Deadlocked => None
    | Running =>
      match t_pc th with
      | PDone => None
      | PBind =>
          let m1 := wr_scope sh (Some (mkScope t (S t) (t_ev th) None false)) m in
          let m2 := wr_is sh (Some t) m1 in
          let m3 := wr_err sh None m2 in
          advance th PCheckBind m3
      | PCheckBind =>
          match rd_err sh m with
          | None => advance th PReparent m
          | Some _ => advance th PReturn m
          end
      | PReparent =>
          match rd_scope sh m with
          | None => halt th (Panicked "SetParentOfScope: nil scope") m
          | Some sc =>
              if Nat.eqb (sc_lock sc) tree_lock
              then halt th Deadlocked m      (* Lock(vs.lock) twice: never returns *)
              else advance th PBody1
                     (wr_scope sh (Some (mkScope (sc_owner sc) tree_lock (sc_event sc) (sc_local sc) true)) m)
          end
      | PBody1 =>
          match rd_scope sh m with
          | None => halt th (Panicked "Eval: nil scope") m
          | Some sc =>
              let i := pid (sc_event sc) in
              let m1 := wr_scope sh (Some (mkScope (sc_owner sc) (sc_lock sc) (sc_event sc) (Some i) (sc_parented sc))) m in
              Some (fst m1, mkThread PBody2 (t_st th) (t_ev th) (snd m1) (Some i) (t_echo th) (t_mon th) (t_ret th))
          end
      | PBody2 =>
          match rd_scope sh m with
          | None => halt th (Panicked "Eval: nil scope") m
          | Some sc =>
              let m1 := wr_err sh (option_map (fun b => mkRerr b None) (body (sc_event sc))) m in
              Some (fst m1, mkThread PCheckEval (t_st th) (t_ev th) (snd m1) (t_seen th)
                                     (Some (t_seen th, pid (sc_event sc), sc_local sc))
                                     (rd_is sh m) (t_ret th))
          end
      | PCheckEval =>
          match rd_err sh m with
          | None => advance th PReturn m
          | Some _ => advance th PWrap m
          end
      | PWrap =>
          match rd_err sh m with
          | None => halt th (Panicked "err.Error(): nil pointer dereference") m
          | Some e =>
              match rd_scope sh m with
              | None => halt th (Panicked "nil scope") m
              | Some sc => advance th PReturn (wr_err sh (Some (mkRerr (r_base e) (Some (sc_owner sc)))) m)
              end
          end
      | PReturn =>
          Some (env, mkThread PDone (t_st th) (t_ev th) (t_loc th) (t_seen th) (t_echo th) (t_mon th)
                              (Some (rd_err sh m)))
      end
    end.

  (* g_outer: the variable called `event` of the scope the sink was declared in, if the script
     declared one (its value abstracted to a number).  The action binds its own `event` with
     sinkVS.SetValue BEFORE sinkVS gets a parent, so the "assign to the variable of an outer
     scope if there is one" rule of varsScope.setValue never sees it, and every later read
     of `event` finds the sink scope's own binding first: no step reads or writes g_outer. *)
  Record state := mkState { g_env : cells; g_threads : list thread; g_outer : option nat }.

  Fixpoint upd {A : Type} (l : list A) (n : nat) (x : A) : list A :=
    match l, n with
    | [], _ => []
    | _ :: r, 0 => x :: r
    | a :: r, S n' => a :: upd r n' x
    end.

  (* label = index of the invocation that makes the next step *)
  Definition step (sh : sharing) (s : state) (t : nat) : option state :=
    match nth_error (g_threads s) t with
    | None => None
    | Some th =>
        match tstep sh t (g_env s) th with
        | None => None
        | Some (env', th') => Some (mkState env' (upd (g_threads s) t th') (g_outer s))
        end
    end.

  Definition init_thread (ev : payload) : thread :=
    mkThread PBind Running ev no_cells None None None None.

  Definition init_with (outer : option nat) (evs : list payload) : state :=
    mkState no_cells (map init_thread evs) outer.
  Definition init (evs : list payload) : state := init_with None evs.

  (* what invocation i reports to the engine *)
  Definition report (s : state) : list (option (option rerr)) := map t_ret (g_threads s).

  (* the per-event error report once every invocation has returned (None = no error) *)
  Definition results (s : state) : list (option rerr) :=
    map (fun th => match t_ret th with Some r => r | None => None end) (g_threads s).

  Definition is_done (th : thread) : bool := match t_pc th with PDone => true | _ => false end.
  Definition all_done (s : state) : bool := forallb is_done (g_threads s).
End Model.

Arguments mkRerr {err0} _ _.
Arguments r_base {err0} _.
Arguments r_env {err0} _.
Arguments sc_owner {payload} _.
Arguments sc_lock {payload} _.
Arguments sc_event {payload} _.
Arguments sc_local {payload} _.
Arguments sc_parented {payload} _.
Arguments c_err {payload err0} _.
Arguments c_scope {payload err0} _.
Arguments c_is {payload err0} _.
Arguments t_pc {payload err0} _.
Arguments t_st {payload err0} _.
Arguments t_ev {payload err0} _.
Arguments t_loc {payload err0} _.
Arguments t_seen {payload err0} _.
Arguments t_echo {payload err0} _.
Arguments t_mon {payload err0} _.
Arguments t_ret {payload err0} _.
Arguments g_env {payload err0} _.
Arguments g_threads {payload err0} _.
Arguments g_outer {payload err0} _.
Arguments report {payload err0} _.
Arguments results {payload err0} _.
Arguments is_done {payload err0} _.
Arguments all_done {payload err0} _.

(* ---- concrete instance used by the correspondence check and the replayable witnesses ---- *)

(* event payload: id and the outcome it dictates to the sink body *)
Record cpayload := mkP { p_id : nat; p_kind : nat; p_ty : nat; p_detail : nat; p_data : nat }.
(* class 1: raise(type, detail, data); 2: a runtime error of the interpreter (operand is not
   a number); 3: `return data` at the top level of the sink *)
Record cerr := mkE { e_class : nat; e_ty : nat; e_detail : nat; e_data : nat }.

Definition cbody (p : cpayload) : option cerr :=
  match p_kind p with
  | 0 => None
  | 1 => Some (mkE 1 (p_ty p) (p_detail p) (p_data p))
  | 2 => Some (mkE 2 0 0 0)
  | _ => Some (mkE 3 0 0 (p_data p))
  end.

Definition cstate := state cpayload cerr.
Definition cstep (sh : sharing) : cstate -> nat -> option cstate := step cpayload cerr p_id cbody sh.
Definition cinit : list cpayload -> cstate := init cpayload cerr.
Definition cinit_with : option nat -> list cpayload -> cstate := init_with cpayload cerr.
