(* Model/PackScanOld.v — the marker scan of RunPackedBinary as it was BEFORE the repair
   (fixes/C20-pack-marker-scan.patch), branch by branch, kept for the refutations in
   Props/C20_history.v:

     buf := make([]byte, b1); buf2 := make([]byte, b2)
     for i, err := f.Read(buf); err == nil; i, err = f.Read(buf) {
         if strings.Contains(string(buf), "#") {                  // the WHOLE buffer, stale tail included
             if i2, err := f.Read(buf2); err == nil || err == io.EOF {
                 candidateString := string(append(buf, buf2...))  // both whole buffers
                 markerIndex := strings.Index(candidateString, packmarker)
                 if found = markerIndex >= 0; found {
                     start := markerIndex + len(packmarker)
                     for IsSpace(candidateString[start]) || IsControl(candidateString[start]) { start++ }
                     pos += start; break                          // index out of range: Panic
                 }
                 pos += int64(i2)
             }
         }
         pos += int64(i)
     }
   Reads are those of a regular file: full until the end, then 0, io.EOF. *)
From Coq Require Import String.
From Ecal Require Import Common.Bytes Common.Outcome Model.PackScan.

(* for unicode.IsSpace(s[start]) || unicode.IsControl(s[start]) { start++ }, [l] = s[start:] *)
Fixpoint old_skip (l : bytes) (start : nat) : outcome nat :=
  match l with
  | [] => Panic "index out of range: candidateString[start]"
  | c :: l' => if is_skip c then old_skip l' (S start) else Ok start
  end.

Section Old.
  Variable marker : bytes.
  Variables b1 b2 : nat.

  Fixpoint old_loop (fuel : nat) (buf buf2 : bytes) (pos : nat) (rest : bytes) : scan_result :=
    match fuel with
    | O => OutOfFuel
    | S fuel' =>
      match rest with
      | [] => NotFound                                      (* 0, io.EOF: loop ends, found = false *)
      | _ =>
        let n := Nat.min b1 (length rest) in
        let buf' := firstn n rest ++ skipn n buf in         (* stale tail stays *)
        let rest1 := skipn n rest in
        if existsb (N.eqb 35) buf' then
          let n2 := Nat.min b2 (length rest1) in
          let buf2' := firstn n2 rest1 ++ skipn n2 buf2 in
          let rest2 := skipn n2 rest1 in
          let cand := buf' ++ buf2' in
          match find_sub marker cand with
          | Some (a, _) =>
            let start := (length a + length marker)%nat in
            match old_skip (skipn start cand) start with
            | Ok s => Found (pos + s)
            | Panic m => Panic m
            | Err e => Err e
            | OutOfFuel => OutOfFuel
            end
          | None => old_loop fuel' buf' buf2' (pos + n2 + n)%nat rest2
          end
        else old_loop fuel' buf' buf2 (pos + n)%nat rest1
      end
    end.

  Definition old_scan (file : bytes) : scan_result :=
    old_loop (length file + 1) (repeat 0 b1) (repeat 0 b2) 0 file.
End Old.
